// C05 — no call corrupts memory or hangs: misuse is reported by exception.
// Boundary-directed API call programs over the public entry points of include/dsplib/*.h, run under
// clang ASan+UBSan with -DNDEBUG (cfg "asan": DSPLIB_ASSUME live).  ORACLE: every call either returns or
// throws a std::exception; a sanitizer report, a signal, a foreign exception or the watchdog is an
//   F C05:<entry-point>:<kind> {"entry":…,"args":[…]}        kind ∈ sanitizer|segv|fpe|abort|hang|foreign-exception
// line.  CORR: for the entry points modelled in Model/Guards.lean the observed outcome
//   C guard <entry> <sizes…> | ok <shape…>  |  ERR
// is predicted by the Lean model.
//
// Every section runs in a forked child, so that one dying call (sanitizers abort the process) does not hide
// the findings of the other sections; the child's statistics come back through a pipe.
// Documented ranges respected by the generators: sizes / orders / rates >= 1, scalar subscripts valid, arrays
// non-empty where a reduction needs an element (max/min/median/…), finite sample values.
#include "common.hpp"
#include <numeric>
#include <sys/wait.h>
#include <sys/mman.h>
#include <sstream>
#include <set>
#include <optional>
#include <fstream>
using namespace dsplib;
using vh::Out;

static Out out;
static bool g_thorough = false;
static uint64_t g_seed = 1;
static vh::Rng* g_rng = nullptr;

// ------------------------------------------------------------------------------------------ death reporting
static char g_entry[128] = "";
static void c05_report(const char* kind) {
    if (vh::g_cur_key[0]) {
        std::printf("\nF C05:%s:%s %s\n", g_entry, kind, vh::g_cur_json);
        std::fflush(stdout);
    }
}
static void c05_on_signal(int sig) {
    c05_report(sig == SIGALRM ? "hang" : sig == SIGSEGV || sig == SIGBUS ? "segv" : sig == SIGFPE ? "fpe" : sig == SIGABRT ? "abort" : "signal");
    std::_Exit(sig == SIGALRM ? 97 : 98);
}
static void c05_on_sanitizer() { c05_report("sanitizer"); }
static void c05_install() {
    for (int s : {SIGSEGV, SIGFPE, SIGBUS, SIGABRT, SIGILL, SIGALRM}) std::signal(s, c05_on_signal);
#ifdef VH_SANITIZER
    __sanitizer_set_death_callback(c05_on_sanitizer);
#endif
}

// ------------------------------------------------------------------------------------------ call wrapper
static std::string J(std::initializer_list<long long> v) { return vh::jints(std::vector<long long>(v)); }
static std::string J(const std::vector<int>& v) { return vh::jints(v); }

static unsigned g_watch = 20;   // seconds; every generated call is tiny (sizes <= a few thousand)

// A call that killed the section's process (sanitizer abort, signal, watchdog) is recorded by the parent in
// shared memory; the section is then run again from its start (same random stream) with that call skipped and
// reported as DIED, output suppressed up to it — so one finding does not hide the calls that follow it.
struct Shared { long long cur; long long died[64]; int ndied; };
static Shared* g_sh = nullptr;
static long long g_idx = 0, g_resume = 0;
static bool g_quiet = false;
static bool is_died(long long i) { for (int k = 0; g_sh && k < g_sh->ndied; ++k) if (g_sh->died[k] == i) return true; return false; }

// returns 0 = returned, 1 = threw std::exception
template<class F>
static int call(const char* entry, const std::string& args, F&& f) {
    std::snprintf(g_entry, sizeof g_entry, "%s", entry);
    const std::string js = std::string("{\"entry\":\"") + entry + "\",\"args\":" + args + "}";
    const long long my = ++g_idx;
    if (g_sh) g_sh->cur = my;
    g_quiet = my < g_resume;
    if (is_died(my)) { out.n_oracle++; out.stat(std::string("died_") + entry); return 3; }
    vh::set_current(std::string("C05:") + entry, js);
    vh::watch(g_watch);
    int r = 0;
    try {
        f();
    } catch (const std::exception&) {
        r = 1;
    } catch (...) {
        r = 2;
    }
    vh::unwatch();
    vh::clear_current();
    out.n_oracle++;
    out.stat(std::string(r ? "throws_" : "ok_") + entry);
    if (r == 2) { if (!g_quiet) out.fail(std::string("C05:") + entry + ":foreign-exception", js); r = 1; }
    if (out.n_oracle % 977 == 0 && !g_quiet) out.sample(js);
    return r;
}

// CORR line for a modelled entry point
static void guard(const std::string& entry, std::initializer_list<long long> args, int r, std::initializer_list<long long> shape) {
    std::string l = "guard " + entry;
    for (auto a : args) l += " " + std::to_string(a);
    std::string rhs = r == 3 ? "DIED" : "ERR";
    if (r == 0) { rhs = "ok"; for (auto s : shape) rhs += " " + std::to_string(s); }
    if (g_quiet) ++out.n_cases; else out.corr(l, rhs);
}
static void guardv(const std::string& entry, const std::vector<long long>& args, int r, const std::vector<long long>& shape) {
    std::string l = "guard " + entry;
    for (auto a : args) l += " " + std::to_string(a);
    std::string rhs = r == 3 ? "DIED" : "ERR";
    if (r == 0) { rhs = "ok"; for (auto s : shape) rhs += " " + std::to_string(s); }
    if (g_quiet) ++out.n_cases; else out.corr(l, rhs);
}

// ------------------------------------------------------------------------------------------ data
// lengths {0,1,2,3,n-1,n,n+1,2n} relative to the expected length n
static std::vector<int> lens(int n) {
    std::set<int> s{0, 1, 2, 3, n - 1, n, n + 1, 2 * n};
    std::vector<int> v;
    for (int x : s) if (x >= 0) v.push_back(x);
    return v;
}
static std::vector<int> lens1(int n) {   // the same without 0 (operand must be non-empty)
    std::vector<int> v;
    for (int x : lens(n)) if (x >= 1) v.push_back(x);
    return v;
}
// value classes: 0 gaussian, 1 zeros, 2 constant, 3 ramp, 4 sine
static arr_real rdata(int n, int cls = -1) {
    vh::Rng& g = *g_rng;
    if (cls < 0) { const int c = int(g.next() % 10); cls = c < 6 ? 0 : c - 5; }
    arr_real x(n);
    for (int i = 0; i < n; ++i) {
        switch (cls) {
        case 0: x[i] = g.gauss(); break;
        case 1: x[i] = 0; break;
        case 2: x[i] = 1.5; break;
        case 3: x[i] = i; break;
        default: x[i] = std::sin(0.7 * i) + 0.01 * g.sym(); break;
        }
    }
    return x;
}
static arr_cmplx cdata(int n, int cls = -1) {
    const arr_real a = rdata(n, cls), b = rdata(n, cls);
    arr_cmplx x(n);
    for (int i = 0; i < n; ++i) x[i] = cmplx_t(a[i], b[i]);
    return x;
}
template<class T> static base_array<T> tdata(int n, int cls = -1);
template<> arr_real tdata<real_t>(int n, int cls) { return rdata(n, cls); }
template<> arr_cmplx tdata<cmplx_t>(int n, int cls) { return cdata(n, cls); }
template<class T> static const char* tn();
template<> const char* tn<real_t>() { return "r"; }
template<> const char* tn<cmplx_t>() { return "c"; }

static volatile double g_sink = 0;
template<class T> static void use(const base_array<T>& a) {
    double s = 0;
    for (int i = 0; i < a.size(); ++i) { if constexpr (std::is_same_v<T, cmplx_t>) s += a[i].re + a[i].im; else s += double(a[i]); }
    g_sink = g_sink + s;
}
static void use(real_t v) { g_sink = g_sink + v; }
static void use(cmplx_t v) { g_sink = g_sink + v.re + v.im; }
static void use(const std::vector<bool>& v) { int c = 0; for (bool b : v) c += b; g_sink = g_sink + c; }

// ================================================================================================ A. array.h
template<class T>
static void sec_array_ops() {
    const std::string e = std::string("array.") + tn<T>() + ".";
    for (int n : {0, 1, 2, 3, 5, 8, 17}) {
        for (int lb : lens(n)) {
            const auto a = tdata<T>(n), b = tdata<T>(lb);
            const auto rb = rdata(lb);
            int r;
            int shape = -1;
            // op= with an array right-hand side
            r = call((e + "op+=").c_str(), J({n, lb}), [&] { auto t = a; t += b; use(t); shape = t.size(); });
            guard("binop", {n, lb}, r, {shape});
            r = call((e + "op-=").c_str(), J({n, lb}), [&] { auto t = a; t -= b; use(t); shape = t.size(); });
            guard("binop", {n, lb}, r, {shape});
            r = call((e + "op*=").c_str(), J({n, lb}), [&] { auto t = a; t *= b; use(t); shape = t.size(); });
            guard("binop", {n, lb}, r, {shape});
            r = call((e + "op/=").c_str(), J({n, lb}), [&] { auto t = a; t /= b; use(t); shape = t.size(); });
            guard("binop", {n, lb}, r, {shape});
            r = call((e + "op+").c_str(), J({n, lb}), [&] { auto t = a + b; use(t); shape = t.size(); });
            guard("binop", {n, lb}, r, {shape});
            r = call((e + "op-").c_str(), J({n, lb}), [&] { auto t = a - b; use(t); shape = t.size(); });
            guard("binop", {n, lb}, r, {shape});
            r = call((e + "op*").c_str(), J({n, lb}), [&] { auto t = a * b; use(t); shape = t.size(); });
            guard("binop", {n, lb}, r, {shape});
            r = call((e + "op/").c_str(), J({n, lb}), [&] { auto t = a / b; use(t); shape = t.size(); });
            guard("binop", {n, lb}, r, {shape});
            // mixed real/complex operands
            r = call((e + "op*real").c_str(), J({n, lb}), [&] { auto t = a * rb; use(t); shape = t.size(); });
            guard("binop", {n, lb}, r, {shape});
            r = call((e + "real-op").c_str(), J({lb, n}), [&] { auto t = rb - a; use(t); shape = t.size(); });
            guard("binop", {lb, n}, r, {shape});
            if constexpr (std::is_same_v<T, cmplx_t>) {
                r = call((e + "op+=real").c_str(), J({n, lb}), [&] { auto t = a; t += rb; use(t); shape = t.size(); });
                guard("binop", {n, lb}, r, {shape});
                r = call((e + "op/=real").c_str(), J({n, lb}), [&] { auto t = a; t /= rb; use(t); shape = t.size(); });
                guard("binop", {n, lb}, r, {shape});
            }
            // comparisons
            r = call((e + "cmp>").c_str(), J({n, lb}), [&] { auto t = (a > b); use(t); shape = int(t.size()); });
            guard("cmp", {n, lb}, r, {shape});
            r = call((e + "cmp<").c_str(), J({n, lb}), [&] { auto t = (a < b); use(t); shape = int(t.size()); });
            guard("cmp", {n, lb}, r, {shape});
            r = call((e + "cmp==").c_str(), J({n, lb}), [&] { auto t = (a == b); use(t); shape = int(t.size()); });
            guard("cmp", {n, lb}, r, {shape});
            r = call((e + "cmp!=").c_str(), J({n, lb}), [&] { auto t = (a != b); use(t); shape = int(t.size()); });
            guard("cmp", {n, lb}, r, {shape});
            // concatenation
            call((e + "concat").c_str(), J({n, lb}), [&] { auto t = a | b; t |= b; use(t); use(concatenate(a, b, a)); });
            // boolean mask of every length
            std::vector<bool> mk(lb);
            int cnt = 0;
            std::vector<long long> margs{n, lb};
            for (int i = 0; i < lb; ++i) { mk[i] = g_rng->coin(); cnt += mk[i]; margs.push_back(mk[i]); }
            r = call((e + "mask").c_str(), J({n, lb}), [&] { auto t = a[mk]; use(t); shape = t.size(); });
            guardv("mask", margs, r, {shape});
        }
        // scalar right-hand sides, unary, element access inside the valid range, conversions
        const auto a = tdata<T>(n);
        call((e + "scalar-ops").c_str(), J({n}), [&] {
            auto t = a; t += T(2); t -= T(1); t *= T(3); t /= T(2);
            use(t + T(1)); use(t - T(1)); use(t * T(2)); use(t / T(2)); use(T(2) + t); use(T(2) - t); use(T(2) * t); use(T(2) / t);
            use(-t); use(+t); use(t > T(0)); use(t < T(0)); use(t == T(0)); use(t != T(0));
            use(t * 2.0); use(2.0 * t); use(t / 2); use(1 - t);
        });
        call((e + "subscript").c_str(), J({n}), [&] {
            auto t = a;
            for (int i = -n; i < n; ++i) { t[i] = t[i] + T(1); use(t(i)); }
            for (size_t i = 0; i < size_t(n); ++i) use(t[i]);
            const auto& ct = t;
            for (int i = -n; i < n; ++i) use(ct[i]);
        });
        call((e + "ctor").c_str(), J({n}), [&] {
            std::vector<T> v = a.to_vec();
            base_array<T> b1(v), b2(std::move(v)), b3(a), b4(a.data(), size_t(n)), b5;
            b5 = b1; b5 = std::move(b2); b5 = b5;
            use(b3); use(b4); use(b5);
            std::vector<float> fv(n, 1.f);
            if constexpr (std::is_same_v<T, real_t>) { arr_real c1(fv); use(c1); arr_real c2(fv.data(), fv.size()); use(c2); arr_int ii(n); arr_real c3(ii); use(c3); }
            use(a.apply([](T x) { return x * T(2); }));
            use(a.apply([](T x) { return cmplx_t(0, 1) * x; }));
            base_array<T> z(n); use(z); use(base_array<T>{T(1), T(2)}); (void)a.empty(); (void)a.size();
            for (auto it = a.begin(); it != a.end(); ++it) use(*it);
        });
    }
    // array ∘ array of the other scalar kind (real lhs, complex rhs)
    if constexpr (std::is_same_v<T, real_t>)
        for (int n : {0, 1, 4})
            for (int lb : lens(n)) {
                const auto a = rdata(n); const auto b = cdata(lb);
                int shape = -1;
                int r = call("array.r.op+cmplx", J({n, lb}), [&] { auto t = a + b; use(t); use(a * b); use(a - b); use(a / b); shape = t.size(); });
                guard("binop", {n, lb}, r, {shape});
            }
}

// index lists: entries over -n..n+2, the empty list, vector<int> and arr_int forms
template<class T>
static void sec_idxlist() {
    const std::string e = std::string("array.") + tn<T>() + ".";
    const int NB = g_thorough ? 7 : 5;
    for (int n = 0; n <= NB; ++n) {
        const auto a = tdata<T>(n);
        auto one = [&](const std::vector<int>& idx, int form) {
            int shape = -1;
            std::vector<long long> args{n, (long long)idx.size()};
            for (int v : idx) args.push_back(v);
            int r;
            if (form == 0) r = call((e + "idxlist").c_str(), vh::jints(args), [&] { auto t = a[idx]; use(t); shape = t.size(); });
            else r = call((e + "idxlist-arr_int").c_str(), vh::jints(args), [&] { arr_int ii(idx); auto t = a[ii]; use(t); shape = t.size(); });
            guardv("idxlist", args, r, {shape});
        };
        one({}, 0); one({}, 1);
        for (int i = -n - 1; i <= n + 2; ++i) { one({i}, 0); one({i}, 1); }
        for (int i = -n; i <= n + 2; ++i)
            for (int j = -n; j <= n + 2; ++j) { one({i, j}, 0); if (g_thorough) one({j, i, j}, 1); }
        for (int rep = 0; rep < (g_thorough ? 300 : 60); ++rep) {
            const int k = g_rng->range(0, 2 * n + 2);
            std::vector<int> idx(k);
            const bool valid = g_rng->coin() && n > 0;
            for (auto& v : idx) v = valid ? g_rng->range(0, n - 1) : g_rng->range(-n, n + 2);
            one(idx, rep & 1);
        }
        if (n > 0) {   // all-valid permutation and a long valid list
            std::vector<int> p(n); for (int i = 0; i < n; ++i) p[i] = n - 1 - i;
            one(p, 0);
            std::vector<int> l(3 * n); for (int i = 0; i < 3 * n; ++i) l[i] = i % n;
            one(l, 1);
        }
    }
    // large array, entries near both ends
    for (int n : {1000, 4096}) {
        const auto a = tdata<T>(n);
        for (int v : {-n - 1, -n, -1, 0, n - 1, n, n + 1, n + 2, 2 * n}) {
            int shape = -1;
            std::vector<int> idx{0, n / 2, v, n - 1};
            int r = call((e + "idxlist").c_str(), J({n, 4, 0, n / 2, v, n - 1}), [&] { auto t = a[idx]; use(t); shape = t.size(); });
            guardv("idxlist", {n, 4, 0, n / 2, v, n - 1}, r, {shape});
        }
    }
}

static void sec_print() {
    for (int n : {1, 2, 3, 0}) {
        call("array.r.print", J({n}), [&] { std::ostringstream os; os << rdata(n); g_sink = g_sink + double(os.str().size()); });
        call("array.c.print", J({n}), [&] { std::ostringstream os; os << cdata(n); os << cmplx_t(1, -2); g_sink = g_sink + double(os.str().size()); });
    }
}

// ================================================================================================ B. slice.h
template<class T>
static void apply_list(slice_t<T> s, int len) {
    auto v = [](int i) { return T(200 + i); };
    switch (len) {
    case 0: s = std::initializer_list<T>{}; break;
    case 1: s = {v(0)}; break;
    case 2: s = {v(0), v(1)}; break;
    case 3: s = {v(0), v(1), v(2)}; break;
    case 4: s = {v(0), v(1), v(2), v(3)}; break;
    case 5: s = {v(0), v(1), v(2), v(3), v(4)}; break;
    case 6: s = {v(0), v(1), v(2), v(3), v(4), v(5)}; break;
    case 7: s = {v(0), v(1), v(2), v(3), v(4), v(5), v(6)}; break;
    case 8: s = {v(0), v(1), v(2), v(3), v(4), v(5), v(6), v(7)}; break;
    case 9: s = {v(0), v(1), v(2), v(3), v(4), v(5), v(6), v(7), v(8)}; break;
    case 10: s = {v(0), v(1), v(2), v(3), v(4), v(5), v(6), v(7), v(8), v(9)}; break;
    case 11: s = {v(0), v(1), v(2), v(3), v(4), v(5), v(6), v(7), v(8), v(9), v(10)}; break;
    default: s = {v(0), v(1), v(2), v(3), v(4), v(5), v(6), v(7), v(8), v(9), v(10), v(11)}; break;
    }
}
static int slice_count(long n, long i1, long i2, long m) {   // -1 = constructor throws
    if (n == 0 || m == 0) return -1;
    long a = i1 < 0 ? n + i1 : i1, b = i2 < 0 ? n + i2 : i2;
    if (a < 0 || a >= n || b < 0 || b > n) return -1;
    if ((m < 0 && a < b) || (m > 0 && a > b)) return -1;
    long d = std::labs(b - a), t = std::labs(m);
    long nc = (d % t) ? d / t + 1 : d / t;
    return nc > n ? -1 : int(nc);
}
template<class T>
static void sec_slice() {
    const std::string e = std::string("slice.") + tn<T>() + ".";
    const int NB = g_thorough ? 6 : 4;
    for (int n = 0; n <= NB; ++n)
        for (int i1 = -n - 2; i1 <= n + 2; ++i1)
            for (int i2 = -n - 2; i2 <= n + 2; ++i2)
                for (int m = -3; m <= 3; ++m) {
                    auto x = tdata<T>(n, 3);
                    int shape = -1;
                    int r = call((e + "read").c_str(), J({n, i1, i2, m}), [&] { const auto& cx = x; base_array<T> y = cx.slice(i1, i2, m); use(y); use(*x.slice(i1, i2, m)); shape = y.size(); });
                    guard("slice", {n, i1, i2, m}, r, {shape});
                    const int nc = slice_count(n, i1, i2, m);
                    if (nc < 0) continue;
                    call((e + "fill").c_str(), J({n, i1, i2, m}), [&] { x.slice(i1, i2, m) = T(7); use(x); });
                    // every right-hand-side length: array, braced list
                    for (int lr = 0; lr <= n + 2; ++lr) {
                        r = call((e + "assign-array").c_str(), J({n, i1, i2, m, lr}), [&] { auto y = x; y.slice(i1, i2, m) = tdata<T>(lr, 3); use(y); shape = y.size(); });
                        guard("sasg_arr", {n, i1, i2, m, lr}, r, {shape});
                        r = call((e + "assign-list").c_str(), J({n, i1, i2, m, lr}), [&] { auto y = x; apply_list<T>(y.slice(i1, i2, m), lr); use(y); shape = y.size(); });
                        guard("sasg_list", {n, i1, i2, m, lr}, r, {shape});
                    }
                    // slice of another array / of the same array, random geometry
                    for (int rep = 0; rep < 3; ++rep) {
                        const int n2 = g_rng->range(1, NB + 2);
                        const int s1 = g_rng->range(-n2, n2 - 1), s2 = g_rng->range(-n2, n2), sm = (rep == 0) ? 1 : g_rng->range(-3, 3);
                        auto other = tdata<T>(n2, 3);
                        r = call((e + "assign-slice").c_str(), J({n, i1, i2, m, n2, s1, s2, sm}), [&] { auto y = x; y.slice(i1, i2, m) = other.slice(s1, s2, sm); use(y); shape = y.size(); });
                        guard("sasg_slice", {n, i1, i2, m, n2, s1, s2, sm}, r, {shape});
                        const int t1 = g_rng->range(-n, n - 1), t2 = g_rng->range(-n, n), tm = g_rng->range(-3, 3);
                        r = call((e + "assign-slice-same").c_str(), J({n, i1, i2, m, n, t1, t2, tm}), [&] { auto y = x; y.slice(i1, i2, m) = y.slice(t1, t2, tm); use(y); shape = y.size(); });
                        guard("sasg_slice", {n, i1, i2, m, n, t1, t2, tm}, r, {shape});
                    }
                    if (m == 1) call((e + "assign-self-array").c_str(), J({n, i1, i2}), [&] { x.slice(i1, i2) = x; });
                }
    for (int n : {0, 1, 7}) {
        auto x = tdata<T>(n);
        for (int i1 = -n - 1; i1 <= n + 1; ++i1)
            for (int m : {1, 2, -1}) {
                int shape = -1;
                int r = call((e + "read-end").c_str(), J({n, i1, m}), [&] { auto y = *x.slice(i1, indexing::end, m); use(y); shape = y.size(); });
                guard("slice", {n, i1, n, m}, r, {shape});
            }
    }
}

// ================================================================================================ C. fft.h ifft.h czt.h
static std::vector<int> plan_sizes() {
    std::vector<int> v{1, 2, 3, 4, 5, 6, 7, 8, 9, 10, 11, 12, 15, 16, 17, 20, 30, 31, 32, 37, 41, 43, 47, 53, 60, 64, 97, 100, 127, 128, 210, 256};
    if (g_thorough) { for (int n = 13; n <= 130; ++n) v.push_back(n); for (int n : {509, 512, 1000, 1009, 1024, 2048, 2310, 4096}) v.push_back(n); }
    std::sort(v.begin(), v.end()); v.erase(std::unique(v.begin(), v.end()), v.end());
    return v;
}
static void sec_fftplan() {
    for (int n : plan_sizes()) {
        std::optional<FftPlan> pc; std::optional<FftPlanR> pr; std::optional<IfftPlan> pi;
        call("FftPlan.ctor", J({n}), [&] { pc.emplace(n); });
        call("FftPlanR.ctor", J({n}), [&] { pr.emplace(n); });
        call("IfftPlan.ctor", J({n}), [&] { pi.emplace(n); });
        if (!pc || !pr || !pi) continue;
        call("FftPlan.size", J({n}), [&] { use(real_t(pc->size() + pr->size() + pi->size())); });
        for (int len : lens(n)) {
            int shape = -1, r;
            r = call("FftPlan.solve", J({n, len}), [&] { auto y = pc->solve(cdata(len)); use(y); use((*pc)(cdata(len))); shape = y.size(); });
            guard("fftplan", {n, len}, r, {shape});
            r = call("FftPlanR.solve", J({n, len}), [&] { auto y = pr->solve(rdata(len)); use(y); use((*pr)(rdata(len))); shape = y.size(); });
            guard("rfftplan", {n, len}, r, {shape});
            r = call("IfftPlan.solve", J({n, len}), [&] { auto y = pi->solve(cdata(len)); use(y); use((*pi)(cdata(len))); shape = y.size(); });
            guard("ifftplan", {n, len}, r, {shape});
            if (len >= 1) {   // pointer interface of the base classes with buffers of the stated length
                r = call("BaseFftPlanC.solve-ptr", J({n, len}), [&] { const auto x = cdata(len); arr_cmplx y(len); const BaseFftPlanC& b = *pc; b.solve(x.data(), y.data(), len); use(y); shape = len; });
                guard("fftplan", {n, len}, r, {shape});
                r = call("BaseFftPlanR.solve-ptr", J({n, len}), [&] { const auto x = rdata(len); arr_cmplx y(len); const BaseFftPlanR& b = *pr; b.solve(x.data(), y.data(), len); use(y); shape = len; });
                guard("rfftplan", {n, len}, r, {shape});
            }
        }
    }
}
static void sec_fftfn() {
    std::vector<int> ls{0, 1, 2, 3, 4, 5, 6, 7, 8, 9, 12, 16, 17, 30, 32, 47, 64, 100};
    if (g_thorough) for (int n : {128, 210, 509, 1000, 1024, 4096}) ls.push_back(n);
    for (int lx : ls) {
        int shape = -1, r;
        r = call("fft.c", J({lx}), [&] { auto y = fft(cdata(lx)); use(y); shape = y.size(); });
        guard("fft", {lx}, r, {shape});
        r = call("fft.r", J({lx}), [&] { auto y = fft(rdata(lx)); use(y); use(rfft(rdata(lx))); shape = y.size(); });
        guard("fft", {lx}, r, {shape});
        r = call("ifft", J({lx}), [&] { auto y = ifft(cdata(lx)); use(y); shape = y.size(); });
        guard("fft", {lx}, r, {shape});
        r = call("irfft", J({lx}), [&] { auto y = irfft(cdata(lx)); use(y); shape = y.size(); });
        guard("irfft", {lx, lx}, r, {shape});
        for (int n : lens1(lx)) {
            r = call("fft.c-n", J({lx, n}), [&] { auto y = fft(cdata(lx), n); use(y); shape = y.size(); });
            guard("fftn", {lx, n}, r, {shape});
            r = call("fft.r-n", J({lx, n}), [&] { auto y = fft(rdata(lx), n); use(y); use(rfft(rdata(lx), n)); shape = y.size(); });
            guard("fftn", {lx, n}, r, {shape});
        }
        // irfft(x, n): x of length n, n/2+1 and the neighbours
        for (int n : {1, 2, 3, 4, 6, 8, 10, 12, 16, 30, 64, 2 * lx, 2 * lx - 2, lx, lx + 1}) {
            if (n < 1) continue;
            r = call("irfft-n", J({lx, n}), [&] { auto y = irfft(cdata(lx), n); use(y); shape = y.size(); });
            guard("irfft", {lx, n}, r, {shape});
        }
    }
    for (int n : {1, 2, 3, 4, 5, 6, 8, 10, 12, 14, 16, 18, 20, 22, 26, 30, 32, 34, 62, 64, 100, 106, 128}) {
        std::optional<IfftPlanR> p;
        const int rc = call("IfftPlanR.ctor", J({n}), [&] { p.emplace(n); });
        std::set<int> ll{n / 2, n / 2 + 1, n / 2 + 2};
        for (int l : lens(n)) ll.insert(l);
        for (int len : ll) {
            int shape = -1, r = 1;
            if (!rc) r = call("IfftPlanR.solve", J({n, len}), [&] { auto y = p->solve(cdata(len)); use(y); use((*p)(cdata(len))); use(real_t(p->size())); shape = y.size(); });
            guard("irfft", {len, n}, r, {shape});
        }
    }
}
static void sec_czt() {
    for (int n : {1, 2, 3, 5, 8, 13, 43}) {
        for (int m : {1, 2, 3, n - 1, n, n + 1, 2 * n, 64}) {
            if (m < 1) continue;
            const cmplx_t w = expj(-2 * pi / m);
            for (int av = 0; av < 2; ++av) {
                const cmplx_t a = av ? cmplx_t(0.8, 0.3) : cmplx_t(1);
                std::optional<CztPlan> p;
                if (call("CztPlan.ctor", J({n, m, av}), [&] { p.emplace(n, m, w, a); })) continue;
                for (int len : lens(n)) {
                    int shape = -1;
                    int r = call("CztPlan.solve", J({n, m, len}), [&] { auto y = p->solve(cdata(len)); use(y); use((*p)(cdata(len))); use(real_t(p->size())); shape = y.size(); });
                    guard("cztplan", {n, m, len}, r, {shape});
                }
                int shape = -1;
                int r = call("czt", J({n, m, av}), [&] { auto y = czt(cdata(n), m, w, a); use(y); shape = y.size(); });
                guard("cztplan", {n, m, n}, r, {shape});
            }
        }
    }
    // a contour ratio off the unit circle is accepted by the shipped build (assert compiled out)
    call("czt.w-off-circle", J({8, 8}), [&] { use(czt(cdata(8), 8, cmplx_t(0.9, 0.1))); });
}

// ================================================================================================ D. fir.h
template<class T>
static void sec_fir() {
    const std::string e = std::string("FirFilter.") + tn<T>() + ".";
    for (int lh : {1, 2, 3, 8, 33}) {
        for (int lx : lens(lh)) {
            int shape = -1;
            int r = call((e + "conv").c_str(), J({lx, lh}), [&] { auto y = FirFilter<T>::conv(tdata<T>(lx), tdata<T>(lh)); use(y); shape = y.size(); });
            guard("firconv", {lx, lh}, r, {shape});
            r = call((e + "conv").c_str(), J({lh, lx}), [&] { auto y = FirFilter<T>::conv(tdata<T>(lh), tdata<T>(lx)); use(y); shape = y.size(); });
            guard("firconv", {lh, lx}, r, {shape});
        }
        std::optional<FirFilter<T>> f;
        if (call((e + "ctor").c_str(), J({lh}), [&] { f.emplace(tdata<T>(lh)); use(f->coeffs()); })) continue;
        // a stream of frames of every length: the delay line is carried across calls
        std::vector<int> fl = lens(lh);
        for (int rep = 0; rep < 6; ++rep) fl.push_back(g_rng->range(0, 2 * lh + 3));
        for (int lx : fl) {
            int shape = -1;
            int r = call((e + "process").c_str(), J({lh, lx}), [&] { auto y = (*f)(tdata<T>(lx)); use(y); shape = y.size(); });
            guard("fir", {lh, lx}, r, {shape});
        }
    }
}
static void sec_fftfilter() {
    for (int cplx = 0; cplx < 2; ++cplx)
        for (int lh : {1, 2, 3, 5, 8, 31, 32, 33, 200}) {
            std::optional<FftFilter> f;
            const int rc = cplx ? call("FftFilter.ctor.c", J({lh}), [&] { f.emplace(cdata(lh)); }) : call("FftFilter.ctor.r", J({lh}), [&] { f.emplace(rdata(lh)); });
            if (rc) continue;
            int bs = 0;
            call("FftFilter.block_size", J({lh}), [&] { bs = f->block_size(); });
            std::vector<int> fl;
            for (int l : lens(bs)) fl.push_back(l);
            for (int rep = 0; rep < 8; ++rep) fl.push_back(g_rng->range(0, 2 * bs + 1));
            std::vector<long long> args{lh, (long long)fl.size()}, shapes;
            int rr = 0;
            for (int lx : fl) {
                args.push_back(lx);
                int shape = -1;
                int r = cplx ? call("FftFilter.process.c", J({lh, lx}), [&] { auto y = (*f)(cdata(lx)); use(y); shape = y.size(); })
                             : call("FftFilter.process.r", J({lh, lx}), [&] { auto y = (*f)(rdata(lx)); use(y); shape = y.size(); });
                rr |= r;
                shapes.push_back(shape);
            }
            guardv("fftfilt", args, rr, shapes);
        }
    FftFilter dflt;
    call("FftFilter.default.block_size", J({0}), [&] { use(real_t(dflt.block_size())); });
}
static void sec_fir1() {
    for (int n : {1, 2, 3, 4, 5, 10, 11, 64}) {
        for (double wn : {0.01, 0.3, 0.5, 0.99}) {
            for (FilterType ft : {FilterType::Low, FilterType::High, FilterType::Bandpass, FilterType::Bandstop}) {
                call("fir1.n-wn", J({n, int(wn * 100), int(ft)}), [&] { auto h = fir1(n, wn, ft); use(h); use(real_t(int(firtype(h)))); });
                call("fir1.n-wn1-wn2", J({n, int(wn * 100), int(ft)}), [&] { auto h = fir1(n, wn * 0.5, wn, ft); use(h); });
                std::set<int> wl{n + 2};
                for (int l : lens(n + 1)) wl.insert(l);
                for (int lw : wl) {
                    call("fir1.n-wn-win", J({n, int(wn * 100), int(ft), lw}), [&] { use(fir1(n, wn, ft, rdata(lw, 2))); });
                    call("fir1.n-wn1-wn2-win", J({n, int(wn * 100), int(ft), lw}), [&] { use(fir1(n, wn * 0.5, wn, ft, rdata(lw, 2))); });
                }
            }
        }
    }
    for (int n : {0, 1, 2, 3, 4, 5, 8, 9})
        for (int cls = 0; cls < 5; ++cls) call("firtype", J({n, cls}), [&] { auto h = rdata(n, cls); use(real_t(int(firtype(h)))); if (n > 1) { h.slice(0, n) = h - flip(h); use(real_t(int(firtype(h)))); } });
}

// ================================================================================================ E. resample.h
static void sec_resample_tools() {
    for (int p : {1, 2, 3, 4, 5, 7, 10, 48})
        for (int q : {1, 2, 3, 4, 6, 9, 10, 44}) {
            for (int hl : {1, 2, 12}) call("design_multirate_fir", J({p, q, hl}), [&] { use(design_multirate_fir(p, q, hl)); use(design_multirate_fir(p, q, hl, 30)); use(design_multirate_fir(p, q, hl, 10)); });
            call("IResampler.sizes", J({p, q}), [&] {
                auto s = IResampler::simplify(p, q); use(real_t(s.first + s.second));
                for (int n : {0, 1, 2, 3, q - 1, q, q + 1, 2 * q, 1000}) { use(real_t(IResampler::next_size(n, p, q))); use(real_t(IResampler::prev_size(n, p, q))); }
            });
        }
    for (int m : {1, 2, 3, 4, 7})
        for (int lh : lens(m))
            for (int flip_ : {0, 1}) {
                int n0 = -1, n1 = -1;
                int r = call("IResampler.polyphase", J({lh, m, flip_}), [&] { auto v = IResampler::polyphase(rdata(lh, 2), m, 2.0, flip_); n0 = int(v.size()); n1 = v.empty() ? 0 : v[0].size(); for (auto& a : v) use(a); });
                guard("polyphase", {lh, m}, r, {n0, n1});
            }
}
static void sec_decim() {
    for (int d : {1, 2, 3, 4, 5, 8}) {
        std::set<int> hls{1, 2, d - 1, d, d + 1, 2 * d, 3 * d + 1, 24 * d};
        for (int lh : hls) {
            if (lh < 1) continue;
            std::optional<FIRDecimator> f;
            if (call("FIRDecimator.ctor-h", J({d, lh}), [&] { f.emplace(d, rdata(lh, 2)); use(real_t(f->delay() + f->decim_rate() + f->interp_rate() + f->next_size(7) + f->prev_size(7))); })) continue;
            std::vector<int> fl = lens(d);
            for (int l : {4 * d, 5 * d, 4 * d + 1, 0, 3 * d}) fl.push_back(l);
            for (int lx : fl) {
                int shape = -1;
                int r = call("FIRDecimator.process", J({d, lh, lx}), [&] { auto y = f->process(rdata(lx)); use(y); shape = y.size(); });
                guard("decim", {d, lh, lx}, r, {shape});
            }
        }
        std::optional<FIRDecimator> f;
        if (call("FIRDecimator.ctor", J({d}), [&] { f.emplace(d); })) continue;
        for (int lx : {0, d, 7 * d, 7 * d + 1, 1}) call("FIRDecimator.default.process", J({d, lx}), [&] { use(f->process(rdata(lx))); });
    }
}
static void sec_interp() {
    for (int L : {1, 2, 3, 4, 5, 8}) {
        std::set<int> hls{1, 2, L - 1, L, L + 1, 2 * L, 3 * L + 1, 24 * L};
        for (int lh : hls) {
            if (lh < 1) continue;
            std::optional<FIRInterpolator> f;
            if (call("FIRInterpolator.ctor-h", J({L, lh}), [&] { f.emplace(L, rdata(lh, 2)); use(real_t(f->delay() + f->decim_rate() + f->interp_rate())); })) continue;
            for (int lx : {0, 1, 2, 3, 7, 0, 16, 1}) {
                int shape = -1;
                int r = call("FIRInterpolator.process", J({L, lh, lx}), [&] { auto y = f->process(rdata(lx)); use(y); shape = y.size(); });
                guard("interp", {L, lh, lx}, r, {shape});
            }
        }
        std::optional<FIRInterpolator> f;
        if (call("FIRInterpolator.ctor", J({L}), [&] { f.emplace(L); })) continue;
        for (int lx : {0, 1, 9}) call("FIRInterpolator.default.process", J({L, lx}), [&] { use(f->process(rdata(lx))); });
    }
}
static void sec_rateconv() {
    for (int L : {1, 2, 3, 4, 5, 7})
        for (int M : {1, 2, 3, 4, 6, 9}) {
            std::set<int> hls{1, 2, L - 1, L, L + 1, 2 * L, 3 * L + 1, 24 * std::max(L, M)};
            for (int lh : hls) {
                if (lh < 1) continue;
                std::optional<FIRRateConverter> f;
                if (call("FIRRateConverter.ctor-h", J({L, M, lh}), [&] { f.emplace(L, M, rdata(lh, 2)); use(real_t(f->delay() + f->decim_rate() + f->interp_rate())); })) continue;
                std::vector<int> fl = lens(M);
                for (int l : {4 * M, 0, 4 * M + 1, 3 * M}) fl.push_back(l);
                for (int lx : fl) {
                    int shape = -1;
                    int r = call("FIRRateConverter.process", J({L, M, lh, lx}), [&] { auto y = f->process(rdata(lx)); use(y); shape = y.size(); });
                    guard("rateconv", {L, M, lh, lx}, r, {shape});
                }
            }
            std::optional<FIRRateConverter> f;
            if (call("FIRRateConverter.ctor", J({L, M}), [&] { f.emplace(L, M); })) continue;
            for (int lx : {0, M, 5 * M, 5 * M + 1}) call("FIRRateConverter.default.process", J({L, M, lx}), [&] { use(f->process(rdata(lx))); });
        }
    // decimation factors around the 16-bit boundaries (the per-branch input offsets run up to M - 1: a 16-bit offset table wraps or goes
    // negative there — once a real defect, repaired in /repo): one and two frames of M samples, short coefficient vectors
    for (int L : {2, 3})
        for (int M : {32767, 32768, 32769, 40001, 65535, 65536, 65537}) {
            if (std::gcd(L, M) != 1) continue;
            for (int lh : {1, 8, 2 * L + 1}) {
                std::optional<FIRRateConverter> f;
                if (call("FIRRateConverter.ctor-h", J({L, M, lh}), [&] { f.emplace(L, M, rdata(lh, 2)); use(real_t(f->delay() + f->decim_rate() + f->interp_rate())); })) continue;
                for (int lx : {M, 2 * M, 0, M + 1}) {
                    int shape = -1;
                    int r = call("FIRRateConverter.process", J({L, M, lh, lx}), [&] { auto y = f->process(rdata(lx)); use(y); shape = y.size(); });
                    guard("rateconv", {L, M, lh, lx}, r, {shape});
                }
            }
        }
}
static void sec_resample() {
    const std::vector<std::pair<int, int>> ratios{{1, 1}, {2, 2}, {1, 2}, {2, 1}, {3, 2}, {2, 3}, {5, 2}, {5, 3}, {5, 4}, {9, 2}, {9, 4}, {10, 3}, {10, 7}, {10, 9}, {3, 7}, {7, 3}, {4, 6}, {160, 147}, {1, 16}, {16, 1}};
    for (auto pq : ratios) {
        const int p = pq.first, q = pq.second;
        std::optional<FIRResampler> f;
        if (!call("FIRResampler.ctor", J({p, q}), [&] { f.emplace(p, q); use(real_t(f->delay() + f->decim_rate() + f->interp_rate())); }))
            for (int lx : {0, q, 4 * q, 4 * q + 1, 1}) call("FIRResampler.process", J({p, q, lx}), [&] { use(f->process(rdata(lx))); });
        for (int lh : {1, 2, p, q, 2 * p * q + 1, 20 * std::max(p, q)}) {
            std::optional<FIRResampler> g;
            if (call("FIRResampler.ctor-h", J({p, q, lh}), [&] { g.emplace(p, q, rdata(lh, 2)); use(real_t(g->delay())); })) continue;
            for (int lx : {0, q, 3 * q + 1}) call("FIRResampler.h.process", J({p, q, lh, lx}), [&] { use(g->process(rdata(lx))); });
        }
        std::vector<int> ls{0, 1, 2, 3, q - 1, q, q + 1, 2 * q, 50, 101};
        if (g_thorough) { ls.push_back(1000); ls.push_back(1023); }
        for (int lx : ls) {
            if (lx < 0) continue;
            if (std::max(p, q) > 100 && lx > 101) continue;
            call("resample", J({lx, p, q}), [&] { use(resample(rdata(lx), p, q)); });
            for (int nf : {1, 3}) call("resample.n-beta", J({lx, p, q, nf}), [&] { use(resample(rdata(lx), p, q, nf, 8.0)); });
            for (int lh : {1, 2, 3, std::max(p, q), 4 * std::max(p, q) + 1, 20 * std::max(p, q)}) {
                int shape = -1;
                int r = call("resample.h", J({lx, p, q, lh}), [&] { auto y = resample(rdata(lx), p, q, rdata(lh, 2)); use(y); shape = y.size(); });
                guard("resample", {lx, p, q, lh}, r, {shape});
            }
        }
    }
}

// ================================================================================================ F. math.h
template<class T>
static void sec_math_unary() {
    const std::string e = std::string("math.") + tn<T>() + ".";
    for (int n : {0, 1, 2, 3, 8, 100}) {
        for (int cls = 0; cls < 5; ++cls) {
            const auto x = tdata<T>(n, cls);
            call((e + "elementwise").c_str(), J({n, cls}), [&] {
                use(exp(x)); use(tanh(x)); use(abs(x)); use(round(x)); use(conj(x)); use(abs2(x));
                use(power(x, 2)); use(power(x, 0)); use(power(x, 1)); use(power(x, -1)); use(power(x, 3)); use(power(x, 0.5));
                use(cumsum(x)); use(cumsum(x, Direction::Reverse)); use(flip(x)); use(sum(x));
                use(real_t(anynan(x))); use(real_t(anyinf(x)));
                if constexpr (std::is_same_v<T, cmplx_t>) { use(angle(x)); use(real(x)); use(imag(x)); use(power(cmplx_t(1, 1), real(x))); }
                else { use(sin(x)); use(cos(x)); use(log(x)); use(log2(x)); use(log10(x)); use(expj(x)); use(complex(x)); use(deg2rad(x)); use(rad2deg(x));
                       use(pow2db(x)); use(db2pow(x)); use(mag2db(x)); use(db2mag(x)); use(power(2.0, x)); use(real_t(issorted(x))); use(real_t(issorted(x, Direction::Descend)));
                       auto s = sort(x); use(s.first); auto s2 = sort(x, Direction::Descend); use(s2.first); g_sink = g_sink + s.second.size() + s2.second.size(); }
            });
            if (n >= 1)   // reductions that need an element
                call((e + "reductions").c_str(), J({n, cls}), [&] {
                    use(max(x)); use(min(x)); use(peak2peak(x)); use(real_t(argmax(x))); use(real_t(argmin(x))); use(mean(x)); use(stddev(x)); use(rms(x));
                    use(norm(x)); use(norm(x, 1)); use(norm(x, 3));
                    if constexpr (std::is_same_v<T, real_t>) use(median(x));
                });
            for (int f : {1, 2, 3, 5})
                for (int ph : {-1, 0, 1, f - 1, f, f + 1}) {
                    int shape = -1;
                    int r = call((e + "downsample").c_str(), J({n, f, ph}), [&] { auto y = downsample(x, f, ph); use(y); shape = y.size(); });
                    guard("downsample", {n, f, ph}, r, {shape});
                    r = call((e + "upsample").c_str(), J({n, f, ph}), [&] { auto y = upsample(x, f, ph); use(y); shape = y.size(); });
                    guard("upsample", {n, f, ph}, r, {shape});
                }
            for (int f : {0, -1}) {
                int r = call((e + "downsample").c_str(), J({n, f, 0}), [&] { use(downsample(x, f, 0)); });
                guard("downsample", {n, f, 0}, r, {0});
                r = call((e + "upsample").c_str(), J({n, f, 0}), [&] { use(upsample(x, f, 0)); });
                guard("upsample", {n, f, 0}, r, {0});
            }
        }
    }
}
static void sec_math_binary() {
    for (int n : {0, 1, 2, 3, 8})
        for (int lb : lens(n)) {
            int r;
            r = call("math.dot.r", J({n, lb}), [&] { use(dot(rdata(n), rdata(lb))); });
            guard("samelen", {n, lb}, r, {});
            r = call("math.dot.c", J({n, lb}), [&] { use(dot(cdata(n), cdata(lb))); });
            guard("samelen", {n, lb}, r, {});
            r = call("math.complex", J({n, lb}), [&] { use(complex(rdata(n), rdata(lb))); });
            guard("samelen", {n, lb}, r, {});
            r = call("math.power-vv.r", J({n, lb}), [&] { use(power(rdata(n), rdata(lb))); });
            guard("samelen", {n, lb}, r, {});
            r = call("math.power-vv.c", J({n, lb}), [&] { use(power(cdata(n), rdata(lb))); });
            guard("samelen", {n, lb}, r, {});
            for (auto t : {Correlation::Pearson, Correlation::Spearman, Correlation::Kendall})
                for (int cls : {0, 2}) {
                    r = call("math.corr", J({n, lb, int(t), cls}), [&] { use(corr(rdata(n, cls), rdata(lb, cls), t)); });
                    guard("samelen", {n, lb}, r, {});
                }
            if (n >= 1) {
                r = call("math.mse.r", J({n, lb}), [&] { use(mse(rdata(n), rdata(lb))); use(nmse(rdata(n), rdata(lb))); });
                guard("samelen", {n, lb}, r, {});
                r = call("math.mse.c", J({n, lb}), [&] { use(mse(cdata(n), cdata(lb))); use(nmse(cdata(n), cdata(lb))); });
                guard("samelen", {n, lb}, r, {});
            }
        }
    call("math.scalars", J({0}), [&] {
        for (double v : {-2.5, -1.0, 0.0, 0.5, 1.0, 3.0}) {
            use(dsplib::exp(v)); use(exp(cmplx_t(v, 1))); use(expj(v)); use(abs(v)); use(abs(cmplx_t(v, v))); use(angle(cmplx_t(v, -v))); use(dsplib::round(v)); use(round(cmplx_t(v, v)));
            use(power(v, 2.0)); use(power(cmplx_t(v, 1), 2.5)); use(power(v, 3)); use(power(cmplx_t(v, 1), -1)); use(dsplib::log(v)); use(dsplib::log2(v)); use(dsplib::log10(v));
            use(real_t(sign(v))); use(sign(cmplx_t(v, 0))); use(deg2rad(v)); use(rad2deg(v)); use(pow2db(v)); use(db2pow(v)); use(mag2db(v)); use(db2mag(v));
            use(max(v, 1)); use(min(v, 1.0)); use(abs2(v)); use(abs2(cmplx_t(v, 1))); use(conj(cmplx_t(v, 1))); use(conj(v)); use(real(cmplx_t(v, 1))); use(imag(cmplx_t(v, 1)));
        }
        for (int m : {0, 1, 2, 3, 4, 5, 1023, 1024, 1025, (1 << 30) - 1, 1 << 30}) { use(real_t(nextpow2(m))); use(real_t(ispow2(m))); }
        use(real_t(sum(std::vector<bool>{true, false, true}))); use(real_t(sum(std::vector<bool>{})));
        use(eps()); use(eps(1.0)); use(real_t(eps(1.0f)));
    });
    // primes: the cost clause (bounded by the watchdog); arguments over the whole 32-bit range
    for (uint32_t v : {0u, 1u, 2u, 3u, 4u, 97u, 65521u, 65536u, 1000003u, 2147483647u, 4294836225u, 4294967291u, 4294967295u})
        call("math.isprime-factor", J({(long long)v}), [&] { use(real_t(isprime(v))); g_sink = g_sink + factor(v).size(); });
    for (uint32_t v : {0u, 1u, 2u, 10u, 257u, 65536u, 1000000u, 2147483648u, 4294967291u})
        call("math.nextprime", J({(long long)v}), [&] { use(real_t(nextprime(v))); });
    for (uint32_t v : {0u, 1u, 2u, 3u, 10u, 11u, 1000u, 100000u})
        call("math.primes", J({(long long)v}), [&] { g_sink = g_sink + primes(v).size(); });
}

// ================================================================================================ G. utils.h
template<class T>
static void sec_utils_t() {
    const std::string e = std::string("utils.") + tn<T>() + ".";
    for (int lx : {0, 1, 2, 5}) {
        const auto x = tdata<T>(lx);
        for (int n : {0, 1, 2, 3, lx - 1, lx, lx + 1, 2 * lx, 9}) {
            if (n < 0) continue;
            int shape = -1;
            int r = call((e + "zeropad").c_str(), J({lx, n}), [&] { auto y = zeropad(x, n); use(y); shape = y.size(); });
            guard("zeropad", {lx, n}, r, {shape});
            r = call((e + "repelem").c_str(), J({lx, n}), [&] { auto y = repelem(x, n); use(y); shape = y.size(); });
            guard("repelem", {lx, n}, r, {shape});
        }
        for (int d = -2 * lx - 2; d <= 2 * lx + 2; ++d) {
            int shape = -1;
            if constexpr (std::is_same_v<T, real_t>) {   // delayseq<cmplx_t> does not instantiate (zeros(N) -> arr_cmplx)
                int r = call((e + "delayseq").c_str(), J({lx, d}), [&] { auto y = delayseq(x, d); use(y); shape = y.size(); });
                guard("delayseq", {lx, d}, r, {shape});
            }
        }
        call((e + "flip-concat").c_str(), J({lx}), [&] { use(flip(x)); use(concatenate(x, x)); use(concatenate(x, x, x, x, x)); use(concatenate(x, base_array<T>())); });
        for (int ly : lens(lx)) {
            int r = call((e + "finddelay").c_str(), J({lx, ly}), [&] { use(real_t(finddelay(x, tdata<T>(ly)))); });
            guard("finddelay", {lx, ly}, r, {});
        }
        if (lx >= 1)
            for (int idx = 0; idx < lx; ++idx)
                for (int cyc : {0, 1})
                    for (int cls : {0, 1, 2}) call((e + "peakloc").c_str(), J({lx, idx, cyc, cls}), [&] { use(peakloc(tdata<T>(lx, cls), idx, cyc)); });
    }
}
static void sec_utils() {
    for (int a : {-3, 0, 2})
        for (int b : {-4, 0, 1, 5})
            for (int s : {-2, -1, 0, 1, 3}) {
                int shape = -1;
                int r = call("utils.arange-int", J({a, b, s}), [&] { auto y = arange(a, b, s); use(y); shape = y.size(); });
                guard("arange", {a, b, s}, r, {shape});
            }
    call("utils.arange-real", J({0}), [&] { use(arange(5)); use(arange(0)); use(arange(4.0)); use(arange(0.0, 1.0, 0.25)); use(arange(1.0, 0.0, -0.25)); use(arange(0, 1.0, 0.3)); use(arange(2.0, 2.0, 1.0)); use(arange(0.5)); });
    for (int n : {0, 1, 2, 3, 10}) {
        int shape = -1;
        int r = call("utils.linspace", J({n}), [&] { auto y = linspace(-1, 2, size_t(n)); use(y); shape = y.size(); });
        guard("linspace", {n}, r, {shape});
        call("utils.zeros-ones", J({n}), [&] { use(zeros(n)); use(ones(n)); });
        r = call("utils.to_complex", J({n}), [&] { std::vector<float> v(n, 1.f); auto y = to_complex(v); use(y); shape = y.size(); std::vector<int16_t> w(n, 2); use(to_complex(w.data(), w.size())); });
        guard("to_complex", {n}, r, {shape});
        call("utils.conversions", J({n}), [&] {
            std::vector<int16_t> w(n, 3); use(to_real(w)); use(to_real(w.data(), w.size()));
            auto a = rdata(n); g_sink = g_sink + from_real<int>(a).size() + from_real<float>(a).size() + from_complex<float>(cdata(n)).size() + a.to_vec<float>().size();
        });
    }
    for (int n : {1, 2, 3, 8, 50})
        for (int np : {0, 1, 2, n - 1, n, n + 1, 2 * n})
            for (int cls : {0, 1, 2, 3}) {
                if (np < 0) continue;
                call("utils.findpeaks", J({n, np, cls}), [&] { auto p = findpeaks(rdata(n, cls), np); g_sink = g_sink + p.pks.size() + p.locs.size() + p.wds.size(); });
            }
    // from_file: missing file, empty file, short file, every dtype, offsets and counts around the file length
    call("utils.from_file-missing", J({0}), [&] { use(from_file("/nonexistent/dir/x.bin")); });
    char path[] = "/tmp/c05-XXXXXX";
    const int fd = mkstemp(path);
    if (fd >= 0) {
        for (int nbytes : {0, 1, 2, 3, 4, 7, 8, 64}) {
            { std::ofstream f(path, std::ios::binary | std::ios::trunc); for (int i = 0; i < nbytes; ++i) f.put(char(i * 37 + 1)); }
            for (auto t : {dtype::int16, dtype::uint16, dtype::int32, dtype::uint32})
                for (auto o : {endian::little, endian::big})
                    for (long off : {0L, 1L, long(nbytes) - 1, long(nbytes), long(nbytes) + 5})
                        for (long cnt : {0L, 1L, 3L, 1000L}) {
                            if (off < 0) continue;
                            call("utils.from_file", J({nbytes, int(t), int(o), off, cnt}), [&] { use(from_file(path, t, o, off, cnt)); });
                        }
            call("utils.from_file-default", J({nbytes}), [&] { use(from_file(path)); });
        }
        close(fd);
        unlink(path);
    }
}

// ================================================================================================ H. window.h
static void sec_window() {
    for (int n : {0, 1, 2, 3, 4, 5, 8, 9, 64, 65}) {
        for (int sym : {0, 1}) {
            int shape = -1, r;
            r = call("window.hann", J({n, sym}), [&] { auto w = window::hann(n, sym); use(w); shape = w.size(); });
            guard("window", {n, sym}, r, {shape});
            r = call("window.hamming", J({n, sym}), [&] { auto w = window::hamming(n, sym); use(w); shape = w.size(); });
            guard("window", {n, sym}, r, {shape});
            r = call("window.cosine", J({n, sym}), [&] { auto w = window::cosine(n, sym); use(w); shape = w.size(); });
            guard("window", {n, sym}, r, {shape});
            r = call("window.blackman", J({n, sym}), [&] { auto w = window::blackman(n, sym); use(w); shape = w.size(); });
            guard("window", {n, sym}, r, {shape});
            r = call("window.blackmanharris", J({n, sym}), [&] { auto w = window::blackmanharris(n, sym); use(w); shape = w.size(); });
            guard("window", {n, sym}, r, {shape});
            for (double al : {0.0, 2.5, 10.0}) {
                r = call("window.gauss", J({n, sym, int(al * 10)}), [&] { auto w = window::gauss(n, al, sym); use(w); shape = w.size(); });
                guard("window", {n, sym}, r, {shape});
            }
        }
        // tukey: the taper loop writes w[0 .. floor(r/2*(n-1))]; ratios as exact fractions rn/rd
        const std::vector<std::pair<long long, long long>> ratios{{-1, 1}, {0, 1}, {1, 1000000000}, {1, 4}, {1, 2}, {3, 4}, {999999, 1000000}, {9007199254740991LL, 9007199254740992LL}, {1, 1}, {2, 1}};
        for (auto rt : ratios) {
            const long long rn = rt.first, rd = rt.second;
            int shape = -1;
            const double rr = double(rn) / double(rd);
            int r = call("window.tukey", J({n, rn, rd}), [&] { auto w = window::tukey(n, rr); use(w); shape = w.size(); });
            guard("tukey", {n, rn, rd}, r, {shape});
        }
        for (double beta : {0.0, 0.5, 5.0, 38.0, 100.0}) {
            int shape = -1;
            int r = call("window.kaiser", J({n, int(beta * 10)}), [&] { auto w = window::kaiser(n, beta); use(w); shape = w.size(); });
            guard("kaiser", {n}, r, {shape});
        }
    }
}

// ================================================================================================ I. medfilt.h
static void sec_medfilt() {
    for (int n : {1, 2, 3, 4, 5, 8, 9}) {
        for (int lx : lens(n)) {
            for (int cls : {0, 2}) {
                int shape = -1;
                int r = call("medfilt", J({lx, n, cls}), [&] { auto x = rdata(lx, cls); auto y = medfilt(x, n); use(y); shape = y.size(); });
                guard("medfilt", {lx, n}, r, {shape});
            }
        }
        std::optional<MedianFilter> f;
        const int rc = call("MedianFilter.ctor", J({n}), [&] { f.emplace(n, 0.5); use(real_t(f->order())); });
        for (int lx : {0, 1, 2, n - 1, n, n + 1, 2 * n, 0, 3}) {
            int shape = -1, r = 1;
            if (!rc) r = call("MedianFilter.process", J({n, lx}), [&] { auto y = (*f)(rdata(lx)); use(y); shape = y.size(); });
            guard("medianfilter", {n, lx}, r, {shape});
        }
    }
    call("MedianFilter.default", J({0}), [&] { MedianFilter f; use(f(rdata(10))); });
}

// ================================================================================================ J. stft.h
static void sec_stft() {
    for (int lw : {1, 2, 3, 4, 8, 9}) {
        std::set<int> ovs{-2, -1, 0, 1, lw / 2, lw - 1, lw, lw + 1};
        for (int ov : ovs) {
            for (auto me : {OverlapMethod::Ola, OverlapMethod::Wola}) {
                int r = call("iscola", J({lw, ov, int(me)}), [&] { use(real_t(iscola(rdata(lw, 2), ov, me))); use(real_t(iscola(rdata(lw, 4), ov, me))); });
                guard("iscola", {lw, ov}, r, {});
            }
            std::set<int> nffts{1, 2, 3, lw - 1, lw, lw + 1, 2 * lw, 16};
            for (int nfft : nffts) {
                if (nfft < 1) continue;
                std::set<int> lxs{0, 1, lw - 1, lw, lw + 1, 2 * lw, 3 * lw + 1, 5 * lw};
                for (int rg = 0; rg < 3; ++rg) {
                    const StftRange range = rg == 0 ? StftRange::Onesided : rg == 1 ? StftRange::Centered : StftRange::Twosided;
                    for (int lx : lxs) {
                        int nseg = -1, fl = -1;
                        int r = call("stft", J({lx, lw, ov, nfft, rg}), [&] { auto y = stft(rdata(lx), rdata(lw, 2), ov, nfft, range); nseg = int(y.size()); fl = y.empty() ? 0 : y[0].size(); for (auto& a : y) use(a); });
                        guard("stft", {lx, lw, ov, nfft, rg}, r, {nseg, fl});
                    }
                    // inverse: frame count 0..3, frame length relative to the expected one
                    const int expect = (rg == 0) ? nfft / 2 + 1 : nfft;
                    for (int nseg : {0, 1, 2, 3})
                        for (int lf : lens(expect))
                            for (auto me : {OverlapMethod::Ola, OverlapMethod::Wola}) {
                                if (nseg == 0 && lf != expect) continue;
                                int shape = -1;
                                int r = call("istft", J({nseg, lf, lw, ov, nfft, rg, int(me)}), [&] { std::vector<arr_cmplx> xx; for (int i = 0; i < nseg; ++i) xx.push_back(cdata(lf)); auto y = istft(xx, rdata(lw, 2), ov, nfft, range, me); use(y); shape = y.size(); });
                                guard("istft", {nseg, lf, lw, ov, nfft, rg}, r, {shape});
                            }
                }
            }
        }
    }
    for (int nfft : {1, 2, 3, 4, 8, 12, 16})
        for (int lx : {0, 1, nfft - 1, nfft, nfft + 1, 3 * nfft, 64})
            for (int rg = 0; rg < 3; ++rg) {
                if (lx < 0) continue;
                const StftRange range = rg == 0 ? StftRange::Onesided : rg == 1 ? StftRange::Centered : StftRange::Twosided;
                call("stft.default", J({lx, nfft, rg}), [&] { auto y = stft(rdata(lx), nfft, range); for (auto& a : y) use(a); use(istft(y, nfft, range)); use(istft(y, nfft, range, OverlapMethod::Ola)); });
            }
}

// ================================================================================================ K. spectrum.h
static void sec_spectrum() {
    for (int lw : {1, 2, 3, 4, 8, 12}) {
        std::set<int> novs{-1, 0, lw / 2, lw - 1, lw, lw + 1};
        std::set<int> nffts{1, 2, 4, 8, 16, lw, 12, 32};
        std::set<int> lxs{0, 1, lw - 1, lw, lw + 1, 2 * lw, 5 * lw + 1, 64};
        for (int lx : lxs) {
            if (lx < 0) continue;
            for (auto sc : {SpectrumType::Psd, SpectrumType::Power}) {
                call("welch.r.winlen", J({lx, lw, int(sc)}), [&] { auto w = welch(rdata(lx), lw, sc); use(w.pxx); use(w.f); });
                call("welch.c.winlen", J({lx, lw, int(sc)}), [&] { auto w = welch(cdata(lx), lw, sc); use(w.pxx); use(w.f); });
                call("welch.r.win", J({lx, lw, int(sc)}), [&] { auto w = welch(rdata(lx), rdata(lw, 2), sc); use(w.pxx); use(w.f); });
                call("welch.c.win", J({lx, lw, int(sc)}), [&] { auto w = welch(cdata(lx), rdata(lw, 2), sc); use(w.pxx); use(w.f); });
            }
            call("mscohere.winlen", J({lx, lw}), [&] { use(mscohere(rdata(lx), rdata(lx), lw)); use(mscohere(rdata(lx), rdata(lx), rdata(lw, 2))); });
            for (int nov : novs)
                for (int nfft : nffts) {
                    int shape = -1, r;
                    r = call("welch.r.win-nov-nfft", J({lx, lw, nov, nfft}), [&] { auto w = welch(rdata(lx), rdata(lw, 2), nov, nfft); use(w.pxx); use(w.f); shape = w.pxx.size(); });
                    guard("welch", {lx, lw, nov, nfft, 0}, r, {shape});
                    r = call("welch.c.win-nov-nfft", J({lx, lw, nov, nfft}), [&] { auto w = welch(cdata(lx), rdata(lw, 2), nov, nfft, SpectrumType::Power); use(w.pxx); use(w.f); shape = w.pxx.size(); });
                    guard("welch", {lx, lw, nov, nfft, 1}, r, {shape});
                    if (lw >= 2) {
                        call("welch.r.winlen-nov-nfft", J({lx, lw, nov, nfft}), [&] { auto w = welch(rdata(lx), lw, nov, nfft); use(w.pxx); });
                        call("welch.c.winlen-nov-nfft", J({lx, lw, nov, nfft}), [&] { auto w = welch(cdata(lx), lw, nov, nfft); use(w.pxx); });
                        call("mscohere.winlen-nov-nfft", J({lx, lw, nov, nfft}), [&] { use(mscohere(rdata(lx), rdata(lx), lw, nov, nfft)); });
                    }
                    for (int ly : {lx, lx + 1, 0}) {
                        r = call("mscohere.win-nov-nfft", J({lx, ly, lw, nov, nfft}), [&] { auto c = mscohere(rdata(lx), rdata(ly), rdata(lw, 2), nov, nfft); use(c); shape = c.size(); });
                        guard("mscohere", {lx, ly, lw, nov, nfft}, r, {shape});
                    }
                }
        }
    }
}

// ================================================================================================ L. snr.h
static void sec_snr() {
    for (int n : {1, 2, 3, 4, 5, 8, 16, 17, 64, 100, 1000})
        for (int cls = 0; cls < 5; ++cls)
            for (auto ty : {SinadType::Time, SinadType::Psd, SinadType::Power}) {
                // a PSD / power spectrum argument is non-negative
                auto mk = [&] { auto x = rdata(n, cls); return ty == SinadType::Time ? x : abs(x); };
                call("sinad", J({n, cls, int(ty)}), [&] { use(sinad(mk(), ty)); });
                for (int nh : {1, 2, 3, 6, 10})
                    for (int al : {0, 1}) {
                        call("snr", J({n, cls, int(ty), nh, al}), [&] { use(snr(mk(), nh, al, ty)); });
                        call("thd", J({n, cls, int(ty), nh, al}), [&] { auto t = thd(mk(), nh, al, ty); use(t.value); use(t.harmpow); use(t.harmfreq); });
                    }
            }
    call("snr.defaults", J({256}), [&] { auto x = rdata(256, 4); use(sinad(x)); use(snr(x)); use(thd(x).value); });
}

// ================================================================================================ M. lms.h rls.h
template<class T>
static void sec_adaptive() {
    const std::string e = std::string(".") + tn<T>();
    for (int len : {1, 2, 3, 8}) {
        for (auto me : {LmsType::LMS, LmsType::NLMS}) {
            std::optional<LmsFilter<T>> f;
            if (call(("LmsFilter.ctor" + e).c_str(), J({len, int(me)}), [&] { f.emplace(len, 0.05, me, 0.999); })) continue;
            std::vector<std::pair<int, int>> fr;
            for (int lx : lens(len)) { fr.push_back({lx, lx}); fr.push_back({lx, lx + 1}); fr.push_back({lx + 1, lx}); fr.push_back({lx, 0}); }
            for (auto fr1 : fr) {
                const int lx = fr1.first, ld = fr1.second;
                int shape = -1;
                int r = call(("LmsFilter.process" + e).c_str(), J({len, int(me), lx, ld}), [&] { auto y = (*f)(tdata<T>(lx), tdata<T>(ld)); use(y.y); use(y.e); use(f->coeffs()); shape = y.y.size(); });
                guard("lms", {len, lx, ld}, r, {shape});
                if (lx == len) call(("LmsFilter.lock" + e).c_str(), J({len}), [&] { f->set_lock_coeffs(!f->coeffs_locked()); });
            }
        }
        std::optional<RlsFilter<T>> f;
        if (call(("RlsFilter.ctor" + e).c_str(), J({len}), [&] { f.emplace(len, 0.98, 10.0); })) continue;
        for (int lx : lens(len))
            for (int ld : {lx, lx + 1, 0}) {
                int shape = -1;
                int r = call(("RlsFilter.process" + e).c_str(), J({len, lx, ld}), [&] { auto y = (*f)(tdata<T>(lx), tdata<T>(ld)); use(y.y); use(y.e); use(f->coeffs()); shape = y.y.size(); });
                guard("rls", {len, lx, ld}, r, {shape});
                if (lx == len) call(("RlsFilter.lock" + e).c_str(), J({len}), [&] { f->set_lock_coeffs(!f->coeffs_locked()); });
            }
    }
}

// ================================================================================================ N. the rest
template<class T>
static void sec_delay() {
    const std::string e = std::string("Delay.") + tn<T>();
    for (int nd : {1, 2, 3, 8}) {
        for (int form : {0, 1}) {
            std::optional<Delay<T>> d;
            if (call((e + ".ctor").c_str(), J({nd, form}), [&] { if (form) d.emplace(tdata<T>(nd)); else d.emplace(nd); })) continue;
            for (int lx : {0, 1, 2, nd - 1, nd, nd + 1, 2 * nd, 0, 5}) {
                int shape = -1;
                int r = call((e + ".process").c_str(), J({nd, lx}), [&] { auto y = (*d)(tdata<T>(lx)); use(y); shape = y.size(); });
                guard("delay", {nd, lx}, r, {shape});
            }
        }
    }
}
static void sec_misc() {
    for (int al : {1, 2, 100})
        for (int lx : {0, 1, 2, al - 1, al, al + 1, 2 * al}) {
            call("Agc.r", J({al, lx}), [&] { Agc a(1, 60.0, al, 0.01, 0.02); auto r = a.process(rdata(lx)); use(r.out); use(r.gain); auto r2 = a(rdata(lx)); use(r2.out); });
            call("Agc.c", J({al, lx}), [&] { Agc a(0.5, 20.0, al); auto r = a.process(cdata(lx)); use(r.out); use(r.gain); auto r2 = a(cdata(lx, 1)); use(r2.out); });
        }
    call("Agc.average_len-0", J({0}), [&] { Agc a(1, 60.0, 0); });
    call("Agc.default", J({0}), [&] { Agc a; use(a.process(rdata(300)).out); });
    for (int lx : {0, 1, 2, 3, 100})
        for (double s : {-10.0, 0.0, 30.0}) {
            call("awgn.r", J({lx, int(s)}), [&] { use(awgn(rdata(lx), s)); });
            call("awgn.c", J({lx, int(s)}), [&] { use(awgn(cdata(lx), s)); });
        }
    call("random", J({0}), [&] {
        rng(int(g_seed)); use(real_t(randi(1))); use(real_t(randi(10))); use(real_t(randi({-3, 3}))); use(real_t(randi({5, 5}))); use(dsplib::rand()); use(randn());
        for (int n : {0, 1, 2, 100}) { g_sink = g_sink + randi(6, n).size() + randi({-2, 2}, n).size(); use(rand(n)); use(rand({-1.0, 2.0}, n)); use(randn(n)); }
    });
    for (int fs : {1, 2, 3, 8, 48000})
        for (double fr : {0.0, 0.5, 1.0, -1.0, fs / 2.0, -fs / 2.0, fs / 2.0 + 0.5, double(fs), 0.3, -1234.5}) {
            std::optional<Tuner> t;
            if (call("Tuner.ctor", J({fs, int(fr * 10)}), [&] { t.emplace(fs, fr); use(t->freq()); use(real_t(t->sample_rate())); })) continue;
            for (int lx : {0, 1, fs - 1, fs, fs + 1, 2 * fs, 7}) if (lx <= 100) call("Tuner.process", J({fs, int(fr * 10), lx}), [&] { use((*t)(cdata(lx))); });
        }
    for (int l1 : {0, 1, 2, 3, 8, 17})
        for (int l2 : lens(l1)) {
            int shape = -1, r;
            r = call("xcorr.r", J({l1, l2}), [&] { auto y = xcorr(rdata(l1), rdata(l2)); use(y); shape = y.size(); });
            guard("xcorr", {l1, l2}, r, {shape});
            r = call("xcorr.c", J({l1, l2}), [&] { auto y = xcorr(cdata(l1), cdata(l2)); use(y); shape = y.size(); });
            guard("xcorr", {l1, l2}, r, {shape});
            if (l1 >= 1 && l2 == l1) call("xcorr.auto", J({l1}), [&] { use(xcorr(rdata(l1))); use(xcorr(cdata(l1))); });
            for (int cls : {0, 1, 2}) {
                call("gccphat", J({l1, l2, cls}), [&] { auto g = gccphat(rdata(l1, cls), rdata(l2, cls)); use(g.tau); use(g.corr); auto g2 = gccphat(rdata(l1, cls), rdata(l2, cls), 8000); use(g2.tau); });
                call("gccphat.multi", J({l1, l2, cls}), [&] { std::vector<arr_real> ch{rdata(l1, cls), rdata(l2, cls), rdata(l2, 0)}; auto g = gccphat(ch, rdata(l2, cls), 2); use(g.tau); for (auto& c : g.corr) use(c); });
            }
        }
    call("gccphat.multi-none", J({8}), [&] { auto g = gccphat(std::vector<arr_real>{}, rdata(8)); use(g.tau); });
    for (int lx : {0, 1, 2, 3, 4, 5, 8, 9, 64}) {
        int shape = -1;
        int r = call("hilbert", J({lx}), [&] { auto y = hilbert(rdata(lx)); use(y); shape = y.size(); });
        guard("hilbert", {lx}, r, {shape});
        for (int n : lens1(lx)) {
            r = call("hilbert.n", J({lx, n}), [&] { auto y = hilbert(rdata(lx), n); use(y); shape = y.size(); });
            guard("hilbert", {n}, r, {shape});
        }
    }
    for (int fl : {1, 2, 3, 4, 5, 11, 51})
        for (double tw : {0.001, 0.01, 0.1, 0.2, 0.3, 0.5}) {
            call("HilbertFilter.design_fir", J({fl, int(tw * 1000)}), [&] { use(HilbertFilter::design_fir(fl, 1.0, tw)); use(HilbertFilter::design_fir(fl, 48000, tw * 48000)); });
            std::optional<HilbertFilter> h;
            if (call("HilbertFilter.ctor", J({fl, int(tw * 1000)}), [&] { h.emplace(fl, tw); use(h->impz()); })) continue;
            for (int lx : {0, 1, fl - 1, fl, fl + 1, 2 * fl, 0, 3}) call("HilbertFilter.process", J({fl, lx}), [&] { use((*h)(rdata(lx))); });
        }
    for (int lh : {1, 2, 3, 4, 5, 9})
        for (int kind : {0, 1}) {   // arbitrary taps (rejected unless type 3) / antisymmetric odd-length taps
            std::optional<HilbertFilter> h;
            if (call("HilbertFilter.ctor-h", J({lh, kind}), [&] { auto t = rdata(lh, 0); if (kind) { t = t - flip(t); } h.emplace(t); })) continue;
            for (int lx : {0, 1, lh, 2 * lh + 1}) call("HilbertFilter.h.process", J({lh, lx}), [&] { use(h->process(rdata(lx))); });
        }
    call("HilbertFilter.default", J({0}), [&] { HilbertFilter h; use(h(rdata(100))); });
    for (int lh : {1, 2, 3, 16, 63}) {
        std::optional<PreambleDetector> d;
        if (call("PreambleDetector.ctor", J({lh}), [&] { d.emplace(cdata(lh, 0), 0.5); })) continue;
        int fl = 1;
        call("PreambleDetector.frame_len", J({lh}), [&] { fl = d->frame_len(); });
        const auto h = cdata(lh, 0);
        for (int lx : {0, 1, fl - 1, fl, fl + 1, 2 * fl, 3 * fl, fl}) {
            call("PreambleDetector.process", J({lh, lx}), [&] {
                auto x = cdata(lx, 0) * 0.01;
                if (lx >= lh + 2) x.slice(2, 2 + lh) = h;   // embed the preamble
                auto r = (*d)(x);
                if (r) { use(r->preamble); use(r->score); use(real_t(r->offset)); }
            });
            if (lx == 2 * fl) call("PreambleDetector.reset", J({lh}), [&] { d->reset(); });
        }
        call("PreambleDetector.zeros", J({lh}), [&] { PreambleDetector z(cdata(lh, 1)); auto r = z.process(cdata(z.frame_len(), 1)); if (r) use(r->score); });
    }
    // audio dynamics: parameters on and beyond the asserted ranges, frames of every length
    for (int lx : {0, 1, 2, 100})
        for (int cls : {0, 1, 2}) {
            call("Compressor", J({lx, cls}), [&] { Compressor c(8000, -10, 5, 10, 0.01, 0.2); auto r = c(rdata(lx, cls)); use(r.out); use(r.gain); Compressor c0; use(c0.process(rdata(lx, cls)).out); Compressor c1(8000, 0, 1, 0, 0, 0); use(c1(rdata(lx, cls)).out); });
            call("Limiter", J({lx, cls}), [&] { Limiter c(8000, -10, 10, 0.01, 0.2); auto r = c(rdata(lx, cls)); use(r.out); use(r.gain); Limiter c0; use(c0.process(rdata(lx, cls)).out); Limiter c1(8000, -50, 20, 4, 4); use(c1(rdata(lx, cls)).out); });
            call("NoiseGate", J({lx, cls}), [&] { NoiseGate c(8000, -10, 0.05, 0.02, 0.05); auto r = c(rdata(lx, cls)); use(r.out); use(r.gain); NoiseGate c0; use(c0.process(rdata(lx, cls)).out); NoiseGate c1(8000, -140, 0, 0, 0); use(c1(rdata(lx, cls)).out); });
        }
    for (int which = 0; which < 10; ++which)
        call("dynamics.param-range", J({which}), [&] {
            switch (which) {
            case 0: { Compressor c(8000, -51); break; } case 1: { Compressor c(8000, 1); break; } case 2: { Compressor c(8000, -10, 0); break; } case 3: { Compressor c(8000, -10, 51); break; }
            case 4: { Compressor c(8000, -10, 5, 21); break; } case 5: { Compressor c(8000, -10, 5, 0, -1); break; } case 6: { Limiter c(8000, -10, 0, 5); break; } case 7: { Limiter c(8000, -10, -1); break; }
            case 8: { NoiseGate c(8000, -141); break; } default: { NoiseGate c(8000, -10, 0.05, 0.02, 4.5); break; }
            }
        });
}

// calls whose ONLY array operands are empty (length 0 is in the quantifier's length set; nothing in the
// headers documents a minimum length for these).  Reductions that need an element are not called.
static void sec_empty() {
    call("empty.xcorr.r", J({0, 0}), [&] { use(xcorr(arr_real(), arr_real())); });
    call("empty.xcorr.c", J({0, 0}), [&] { use(xcorr(arr_cmplx(), arr_cmplx())); });
    call("empty.xcorr.auto", J({0}), [&] { use(xcorr(arr_real())); });
    call("empty.czt", J({0, 4}), [&] { use(czt(arr_cmplx(), 4, expj(-0.5))); });
    call("empty.sort", J({0}), [&] { auto s = sort(arr_real()); use(s.first); });
    call("empty.corr", J({0}), [&] { use(corr(arr_real(), arr_real(), Correlation::Kendall)); use(corr(arr_real(), arr_real(), Correlation::Spearman)); });
    call("empty.fir-process", J({3, 0}), [&] { FirFilterR f(rdata(3)); use(f(arr_real())); use(f(arr_real())); });
    call("empty.awgn", J({0}), [&] { use(awgn(arr_real(), 3)); });
    call("empty.firtype", J({0}), [&] { use(real_t(int(firtype(arr_real())))); });
    call("empty.polyphase", J({0, 3}), [&] { auto v = IResampler::polyphase(arr_real(), 3); for (auto& a : v) use(a); });
    call("empty.FIRDecimator-h", J({2, 0}), [&] { FIRDecimator d(2, arr_real()); use(d.process(rdata(4))); });
    call("empty.FIRInterpolator-h", J({2, 0}), [&] { FIRInterpolator d(2, arr_real()); use(d.process(rdata(4))); });
    call("empty.FIRRateConverter-h", J({2, 3, 0}), [&] { FIRRateConverter d(2, 3, arr_real()); use(d.process(rdata(6))); });
    call("empty.resample-h", J({8, 2, 3, 0}), [&] { use(resample(rdata(8), 2, 3, arr_real())); });
    call("empty.FftFilter", J({0}), [&] { FftFilter f{arr_real()}; use(f(rdata(8))); });
    call("empty.FirFilter", J({0}), [&] { FirFilterR f{arr_real()}; use(f(rdata(8))); });
    call("empty.HilbertFilter", J({0}), [&] { HilbertFilter f{arr_real()}; use(f(rdata(8))); });
    call("empty.PreambleDetector", J({0}), [&] { PreambleDetector d{arr_cmplx()}; use(real_t(d.frame_len())); });
    call("empty.iscola", J({0, -2}), [&] { use(real_t(iscola(arr_real(), -2))); use(real_t(iscola(arr_real(), 0))); });
    call("empty.welch-win", J({16, 0}), [&] { use(welch(rdata(16), arr_real()).pxx); });
    call("empty.mscohere-win", J({16, 0}), [&] { use(mscohere(rdata(16), rdata(16), arr_real())); });
    call("empty.stft-win", J({16, 0}), [&] { auto y = stft(rdata(16), arr_real(), -2, 4); for (auto& a : y) use(a); });
    call("empty.istft", J({0}), [&] { use(istft(std::vector<arr_cmplx>{}, 8)); use(istft(std::vector<arr_cmplx>{arr_cmplx()}, arr_real(), -1, 8)); });
    call("empty.sinad-psd", J({0}), [&] { use(sinad(arr_real(), SinadType::Psd)); });
    call("empty.sinad-time", J({0}), [&] { use(sinad(arr_real())); });
    call("empty.findpeaks-0", J({0, 0}), [&] { auto p = findpeaks(arr_real(), 0); g_sink = g_sink + p.pks.size(); });
    call("empty.medfilt", J({0, 3}), [&] { arr_real x; use(medfilt(x, 3)); });
    call("empty.hilbert", J({0}), [&] { use(hilbert(arr_real())); });
    call("empty.gccphat", J({0}), [&] { use(gccphat(arr_real(), arr_real()).tau); });
    call("empty.finddelay", J({0}), [&] { use(real_t(finddelay(arr_real(), arr_real()))); });
}

// ================================================================================================ random API call programs
// a pool of long-lived objects (plans, filters, converters, adaptive filters); every step picks one and feeds it a
// frame whose length is drawn from {0,1,2,3,n-1,n,n+1,2n} around the length the object expects, or a random one
static void sec_programs() {
    vh::Rng& g = *g_rng;
    const int rounds = g_thorough ? 40 : 4;
    for (int round = 0; round < rounds; ++round) {
        struct PlanObj { int n; std::optional<FftPlan> c; std::optional<FftPlanR> r; std::optional<IfftPlan> i; std::optional<IfftPlanR> ir; };
        std::vector<PlanObj> plans(6);
        for (auto& p : plans) {
            p.n = (g.next() % 3 == 0) ? (1 << g.range(0, 10)) : g.range(1, g_thorough ? 600 : 130);
            call("prog.plan.ctor", J({p.n}), [&] { p.c.emplace(p.n); p.r.emplace(p.n); p.i.emplace(p.n); });
            if (p.n % 2 == 0) call("prog.IfftPlanR.ctor", J({p.n}), [&] { p.ir.emplace(p.n); });
        }
        struct FirObj { int lh; std::optional<FirFilterR> fr; std::optional<FirFilterC> fc; std::optional<FftFilter> ff; };
        std::vector<FirObj> firs(4);
        for (auto& f : firs) { f.lh = g.range(1, 40); call("prog.fir.ctor", J({f.lh}), [&] { f.fr.emplace(rdata(f.lh)); f.fc.emplace(cdata(f.lh)); f.ff.emplace(rdata(f.lh)); }); }
        struct RsObj { int L, M, lh; std::optional<FIRDecimator> d; std::optional<FIRInterpolator> i; std::optional<FIRRateConverter> rc; std::optional<FIRResampler> rs; };
        std::vector<RsObj> rss(4);
        for (auto& r : rss) {
            r.L = g.range(1, 7); r.M = g.range(1, 7); r.lh = g.range(1, 60);
            call("prog.resampler.ctor", J({r.L, r.M, r.lh}), [&] { r.d.emplace(r.M, rdata(r.lh, 2)); r.i.emplace(r.L, rdata(r.lh, 2)); r.rc.emplace(r.L, r.M, rdata(r.lh, 2)); r.rs.emplace(r.L, r.M); });
        }
        struct AdObj { int len; std::optional<LmsFilterR> lr; std::optional<LmsFilterC> lc; std::optional<RlsFilterR> rr; std::optional<MedianFilter> mf; std::optional<DelayReal> dl; };
        std::vector<AdObj> ads(3);
        for (auto& a : ads) {
            a.len = g.range(1, 12);
            call("prog.adaptive.ctor", J({a.len}), [&] { a.lr.emplace(a.len, 0.01, g.coin() ? LmsType::LMS : LmsType::NLMS); a.lc.emplace(a.len, 0.01); a.rr.emplace(a.len); a.dl.emplace(a.len); });
            call("prog.MedianFilter.ctor", J({a.len}), [&] { a.mf.emplace(a.len); });
        }
        auto pick = [&](int expect) {
            const auto v = lens(expect);
            return (g.next() % 4 == 0) ? g.range(0, 3 * expect + 4) : v[g.next() % v.size()];
        };
        const int steps = g_thorough ? 2500 : 700;
        for (int st = 0; st < steps; ++st) {
            int shape = -1, r;
            switch (g.next() % 16) {
            case 0: { auto& p = plans[g.next() % plans.size()]; if (!p.c) break; const int l = pick(p.n);
                r = call("prog.FftPlan.solve", J({p.n, l}), [&] { auto y = p.c->solve(cdata(l)); use(y); shape = y.size(); }); guard("fftplan", {p.n, l}, r, {shape}); break; }
            case 1: { auto& p = plans[g.next() % plans.size()]; if (!p.r) break; const int l = pick(p.n);
                r = call("prog.FftPlanR.solve", J({p.n, l}), [&] { auto y = p.r->solve(rdata(l)); use(y); shape = y.size(); }); guard("rfftplan", {p.n, l}, r, {shape}); break; }
            case 2: { auto& p = plans[g.next() % plans.size()]; if (!p.i) break; const int l = pick(p.n);
                r = call("prog.IfftPlan.solve", J({p.n, l}), [&] { auto y = p.i->solve(cdata(l)); use(y); shape = y.size(); }); guard("ifftplan", {p.n, l}, r, {shape}); break; }
            case 3: { auto& p = plans[g.next() % plans.size()]; if (!p.ir) break; const int l = g.coin() ? pick(p.n) : pick(p.n / 2 + 1);
                r = call("prog.IfftPlanR.solve", J({p.n, l}), [&] { auto y = p.ir->solve(cdata(l)); use(y); shape = y.size(); }); guard("irfft", {l, p.n}, r, {shape}); break; }
            case 4: { auto& f = firs[g.next() % firs.size()]; if (!f.fr) break; const int l = pick(f.lh);
                r = call("prog.FirFilterR.process", J({f.lh, l}), [&] { auto y = f.fr->process(rdata(l)); use(y); shape = y.size(); }); guard("fir", {f.lh, l}, r, {shape}); break; }
            case 5: { auto& f = firs[g.next() % firs.size()]; if (!f.fc) break; const int l = pick(f.lh);
                r = call("prog.FirFilterC.process", J({f.lh, l}), [&] { auto y = f.fc->process(cdata(l)); use(y); shape = y.size(); }); guard("fir", {f.lh, l}, r, {shape}); break; }
            case 6: { auto& f = firs[g.next() % firs.size()]; if (!f.ff) break; const int l = pick(f.ff->block_size());
                call("prog.FftFilter.process", J({f.lh, l}), [&] { if (g.coin()) use(f.ff->process(rdata(l))); else use(f.ff->process(cdata(l))); }); break; }
            case 7: { auto& q = rss[g.next() % rss.size()]; if (!q.d) break; const int l = g.coin() ? q.M * g.range(0, 9) : pick(q.M);
                r = call("prog.FIRDecimator.process", J({q.M, q.lh, l}), [&] { auto y = q.d->process(rdata(l)); use(y); shape = y.size(); }); guard("decim", {q.M, q.lh, l}, r, {shape}); break; }
            case 8: { auto& q = rss[g.next() % rss.size()]; if (!q.i) break; const int l = pick(q.L);
                r = call("prog.FIRInterpolator.process", J({q.L, q.lh, l}), [&] { auto y = q.i->process(rdata(l)); use(y); shape = y.size(); }); guard("interp", {q.L, q.lh, l}, r, {shape}); break; }
            case 9: { auto& q = rss[g.next() % rss.size()]; if (!q.rc) break; const int l = g.coin() ? q.M * g.range(0, 9) : pick(q.M);
                r = call("prog.FIRRateConverter.process", J({q.L, q.M, q.lh, l}), [&] { auto y = q.rc->process(rdata(l)); use(y); shape = y.size(); }); guard("rateconv", {q.L, q.M, q.lh, l}, r, {shape}); break; }
            case 10: { auto& q = rss[g.next() % rss.size()]; if (!q.rs) break; const int l = g.coin() ? q.rs->decim_rate() * g.range(0, 9) : pick(q.M);
                call("prog.FIRResampler.process", J({q.L, q.M, l}), [&] { use(q.rs->process(rdata(l))); }); break; }
            case 11: { auto& a = ads[g.next() % ads.size()]; if (!a.lr) break; const int l = pick(a.len), d = (g.next() % 4) ? l : pick(l);
                r = call("prog.LmsFilterR.process", J({a.len, l, d}), [&] { auto y = a.lr->process(rdata(l), rdata(d)); use(y.e); shape = y.y.size(); }); guard("lms", {a.len, l, d}, r, {shape}); break; }
            case 12: { auto& a = ads[g.next() % ads.size()]; if (!a.lc) break; const int l = pick(a.len), d = (g.next() % 4) ? l : pick(l);
                r = call("prog.LmsFilterC.process", J({a.len, l, d}), [&] { auto y = a.lc->process(cdata(l), cdata(d)); use(y.e); shape = y.y.size(); }); guard("lms", {a.len, l, d}, r, {shape}); break; }
            case 13: { auto& a = ads[g.next() % ads.size()]; if (!a.rr) break; const int l = pick(a.len), d = (g.next() % 4) ? l : pick(l);
                r = call("prog.RlsFilterR.process", J({a.len, l, d}), [&] { auto y = a.rr->process(rdata(l), rdata(d)); use(y.e); shape = y.y.size(); }); guard("rls", {a.len, l, d}, r, {shape}); break; }
            case 14: { auto& a = ads[g.next() % ads.size()]; const int l = pick(a.len); r = 1;
                if (a.mf) r = call("prog.MedianFilter.process", J({a.len, l}), [&] { auto y = a.mf->process(rdata(l)); use(y); shape = y.size(); });
                guard("medianfilter", {a.len, l}, r, {shape}); break; }
            default: { auto& a = ads[g.next() % ads.size()]; if (!a.dl) break; const int l = pick(a.len);
                r = call("prog.Delay.process", J({a.len, l}), [&] { auto y = a.dl->process(rdata(l)); use(y); shape = y.size(); }); guard("delay", {a.len, l}, r, {shape}); break; }
            }
        }
        // one-shot functions on random lengths around each other
        for (int st = 0; st < (g_thorough ? 400 : 100); ++st) {
            const int n = g.range(0, 40), l2 = pick(n), w = g.range(1, 12);
            int shape = -1, r;
            r = call("prog.xcorr", J({n, l2}), [&] { auto y = xcorr(rdata(n), rdata(l2)); use(y); shape = y.size(); });
            guard("xcorr", {n, l2}, r, {shape});
            const int ov = g.range(-2, w + 1), nfft = g.coin() ? (1 << g.range(0, 6)) : g.range(1, 40), rg = int(g.next() % 3);
            int nseg = -1, fl = -1;
            r = call("prog.stft", J({n, w, ov, nfft, rg}), [&] { auto y = stft(rdata(n), rdata(w, 2), ov, nfft, StftRange(rg == 0 ? int(StftRange::Onesided) : rg == 1 ? int(StftRange::Centered) : int(StftRange::Twosided))); nseg = int(y.size()); fl = y.empty() ? 0 : y[0].size(); });
            guard("stft", {n, w, ov, nfft, rg}, r, {nseg, fl});
            r = call("prog.welch", J({n, w, ov, nfft}), [&] { auto y = welch(rdata(n), rdata(w, 2), ov, nfft); shape = y.pxx.size(); });
            guard("welch", {n, w, ov, nfft, 0}, r, {shape});
            const int p = g.range(1, 9), q = g.range(1, 9), lh = g.range(1, 50);
            r = call("prog.resample.h", J({n, p, q, lh}), [&] { auto y = resample(rdata(n), p, q, rdata(lh, 2)); use(y); shape = y.size(); });
            guard("resample", {n, p, q, lh}, r, {shape});
            const int f = g.range(1, 6), ph = g.range(-1, f);
            r = call("prog.downsample", J({n, f, ph}), [&] { auto y = downsample(rdata(n), f, ph); shape = y.size(); });
            guard("downsample", {n, f, ph}, r, {shape});
            r = call("prog.medfilt", J({n, w}), [&] { auto x = rdata(n); auto y = medfilt(x, w); shape = y.size(); });
            guard("medfilt", {n, w}, r, {shape});
        }
    }
}

// large arguments: the cost clause (every call must come back well inside the watchdog)
static void sec_large() {
    const int N = g_thorough ? (1 << 17) : (1 << 14);
    for (int n : {N, N + 1, N - 1, 65537 > N ? 4099 : 65537, 3 * 5 * 7 * 11 * 13}) {
        call("large.fft", J({n}), [&] { use(sum(fft(cdata(n)))); use(sum(fft(rdata(n)))); use(sum(ifft(cdata(n)))); if (n % 2 == 0) use(sum(irfft(cdata(n / 2 + 1), n))); });
    }
    call("large.xcorr", J({N}), [&] { use(sum(xcorr(rdata(N), rdata(N / 2)))); });
    call("large.sort-median", J({N}), [&] { auto s = sort(rdata(N)); use(s.first[0]); use(median(rdata(N))); use(corr(rdata(N / 16), rdata(N / 16), Correlation::Spearman)); });
    call("large.medfilt", J({N}), [&] { auto x = rdata(N); use(sum(medfilt(x, 9))); });
    call("large.resample", J({N}), [&] { use(sum(resample(rdata(N), 160, 147))); use(sum(resample(rdata(N), 1, 64))); use(sum(resample(rdata(N / 16), 16, 1))); });
    call("large.fftfilter", J({N}), [&] { FftFilter f(rdata(1001)); use(sum(f(rdata(N)))); FirFilterR g(rdata(64)); use(sum(g(rdata(N)))); });
    call("large.welch-stft", J({N}), [&] { use(sum(welch(rdata(N), 1024).pxx)); auto y = stft(rdata(N), 512); use(sum(istft(y, 512))); use(sum(mscohere(rdata(N), rdata(N), 256))); });
    call("large.snr", J({N}), [&] { auto x = rdata(N, 4); use(snr(x)); use(sinad(x)); use(thd(x).value); });
    call("large.hilbert-czt", J({N}), [&] { use(sum(hilbert(rdata(N)))); use(sum(czt(cdata(N / 8), N / 8 + 3, expj(-2 * pi / (N / 8 + 3))))); });
    call("large.slice", J({N}), [&] { auto x = rdata(N); x.slice(0, N, 3) = x.slice(N - 1, 0, -3); x.slice(1, N) = x.slice(0, N - 1); use(sum(x)); std::vector<int> idx(N); for (int i = 0; i < N; ++i) idx[i] = (i * 7919) % N; use(sum(x[idx])); });
    call("large.primes", J({N}), [&] { g_sink = g_sink + primes(2000000).size(); use(real_t(nextprime(4000000000u))); use(real_t(isprime(4294967291u))); g_sink = g_sink + factor(4294967295u).size(); });
}

// ================================================================================================ main
struct Section { const char* name; void (*fn)(); bool random = false; };   // random: re-run with further sub-seeds in the thorough tier
static const Section SECTIONS[] = {
    {"array.r", sec_array_ops<real_t>}, {"array.c", sec_array_ops<cmplx_t>}, {"idxlist.r", sec_idxlist<real_t>, true}, {"idxlist.c", sec_idxlist<cmplx_t>, true},
    {"print", sec_print}, {"slice.r", sec_slice<real_t>}, {"slice.c", sec_slice<cmplx_t>},
    {"fftplan", sec_fftplan}, {"fftfn", sec_fftfn}, {"czt", sec_czt},
    {"fir.r", sec_fir<real_t>, true}, {"fir.c", sec_fir<cmplx_t>, true}, {"fftfilter", sec_fftfilter, true}, {"fir1", sec_fir1},
    {"resample-tools", sec_resample_tools}, {"decim", sec_decim}, {"interp", sec_interp}, {"rateconv", sec_rateconv}, {"resample", sec_resample},
    {"math.r", sec_math_unary<real_t>}, {"math.c", sec_math_unary<cmplx_t>}, {"math2", sec_math_binary},
    {"utils.r", sec_utils_t<real_t>}, {"utils.c", sec_utils_t<cmplx_t>}, {"utils", sec_utils}, {"window", sec_window}, {"medfilt", sec_medfilt},
    {"stft", sec_stft}, {"spectrum", sec_spectrum}, {"snr", sec_snr}, {"adaptive.r", sec_adaptive<real_t>}, {"adaptive.c", sec_adaptive<cmplx_t>},
    {"delay.r", sec_delay<real_t>}, {"delay.c", sec_delay<cmplx_t>}, {"misc", sec_misc}, {"empty", sec_empty}, {"programs", sec_programs, true}, {"large", sec_large},
};

int main(int argc, char** argv) {
    vh::Args a(argc, argv);
    g_thorough = a.thorough;
    g_seed = a.seed;
    // --replay <section name> runs that section only; any other value (check.py hands over a replay FILE) runs
    // everything again: the call programs are a deterministic function of --seed, so the witness is reproduced
    std::string only;
    for (const auto& s : SECTIONS) if (a.replay == s.name) only = a.replay;
    long long died = 0;
    int idx = 0;
    const int passes = a.thorough ? 5 : 1;
    for (int pass = 0; pass < passes; ++pass)
    for (const auto& s : SECTIONS) {
        ++idx;
        if (!only.empty() && only != s.name) continue;
        if (pass > 0 && !s.random) continue;
        g_sh = static_cast<Shared*>(mmap(nullptr, sizeof(Shared), PROT_READ | PROT_WRITE, MAP_SHARED | MAP_ANONYMOUS, -1, 0));
        if (g_sh == MAP_FAILED) return 3;
        std::memset(g_sh, 0, sizeof(Shared));
        for (;;) {
            std::fflush(stdout);
            int fds[2];
            if (pipe(fds) != 0) return 3;
            const pid_t pid = fork();
            if (pid < 0) return 3;
            if (pid == 0) {
                close(fds[0]);
                c05_install();
                vh::Rng rng(a.seed * 1000003ULL + uint64_t(idx));
                g_rng = &rng;
                out = Out();
                out.max_samples = 1;
                g_idx = 0;
                g_resume = g_sh->ndied ? g_sh->died[g_sh->ndied - 1] : 0;
                s.fn();
                std::fflush(stdout);
                std::string st = "__cases " + std::to_string(out.n_cases) + "\n__fail " + std::to_string(out.n_fail) + "\n__oracle " + std::to_string(out.n_oracle) + "\n";
                for (auto& kv : out.stats) st += kv.first + " " + std::to_string(kv.second) + "\n";
                size_t off = 0;
                while (off < st.size()) { ssize_t w = write(fds[1], st.data() + off, st.size() - off); if (w <= 0) break; off += size_t(w); }
                close(fds[1]);
                std::_Exit(0);
            }
            close(fds[1]);
            std::string buf;
            char tmp[4096];
            ssize_t k;
            while ((k = read(fds[0], tmp, sizeof tmp)) > 0) buf.append(tmp, size_t(k));
            close(fds[0]);
            int status = 0;
            waitpid(pid, &status, 0);
            const bool clean = WIFEXITED(status) && WEXITSTATUS(status) == 0;
            if (!clean) {
                ++died;
                out.stat(std::string("section_died_") + s.name);
                ++out.n_fail;
                if (g_sh->ndied < 64 && g_sh->cur > 0 && !is_died(g_sh->cur)) { g_sh->died[g_sh->ndied++] = g_sh->cur; continue; }
                break;   // no progress possible
            }
            std::istringstream is(buf);
            std::string key; long long val;
            while (is >> key >> val) {
                if (key == "__cases") out.n_cases += val; else if (key == "__fail") out.n_fail += val; else if (key == "__oracle") out.n_oracle += val; else out.stats[key] += val;
            }
            break;
        }
        munmap(g_sh, sizeof(Shared));
        g_sh = nullptr;
        out.stat("sections_run");
    }
    out.stats["sections_died"] = died;
    out.stats["distinct_nontrivial"] = out.n_oracle;
    out.finish();
    return died ? 1 : 0;
}
