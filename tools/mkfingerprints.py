#!/usr/bin/env python3
"""mkfingerprints.py — record the normalised-source hashes of /repo's library (lib/, include/) in
baseline_fingerprints.json. Run on the CLEAN tree after the checks have been validated on it (all 20 quick + thorough
pass). check.py compares the tree under check with this baseline; any difference makes the quick tier search at
thorough depth (change-triggered deepening, DESIGN.md §12.4). Never run by a check."""
import json, os, subprocess, sys
HERE = os.path.dirname(os.path.abspath(__file__))
sys.path.insert(0, HERE)
import check  # noqa: E402

repo = os.environ.get("VERIF_REPO", "/repo")
dirty = subprocess.run(["git", "-C", repo, "status", "--porcelain", "--untracked-files=no"], text=True, stdout=subprocess.PIPE).stdout.strip()
if dirty:
    sys.exit("refusing: %s has uncommitted changes:\n%s" % (repo, dirty))
head = subprocess.run(["git", "-C", repo, "rev-parse", "--short", "HEAD"], text=True, stdout=subprocess.PIPE).stdout.strip()
fp = check.source_fingerprints(repo)
json.dump({"repo_head": head, "files": fp}, open(os.path.join(check.VERIF, "baseline_fingerprints.json"), "w"), indent=0, sort_keys=True)
print("baseline_fingerprints.json: %d files at %s" % (len(fp), head))
