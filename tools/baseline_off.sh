#!/bin/sh
# the repository's pinned test suite with the verification guard OFF (plain build of /repo/_build)
set -e
cmake --build /repo/_build -j16 >/dev/null
cd /repo/_build/tests && ./dsplib-test
