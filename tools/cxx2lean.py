#!/usr/bin/env python3
"""cxx2lean: translate loop-free C++ (clang-14 JSON AST) from /repo's working tree into Lean 4
definitions (DspVerif/Gen/*.lean).  Run on every check; the theorems in Props/ about the
generated definitions are then re-checked against what the code says *now*.

Supported subset (anything else raises Unsupported -> the GEN obligation fails):
  expressions: + - * / % unary-, comparisons, && || !, ?:, member access, literals, int<->real
               casts, calls to a fixed table (std::abs, sqrt, cos, ... abs2, conj), cmplx_t
               operators, constructor / braced-init of cmplx_t
  statements : declarations with initialiser, (compound) assignment to locals / fields,
               if / else, return, DSPLIB_THROW / DSPLIB_ASSERT (throw std::runtime_error)
Integers are typed from the AST: C++ `int` / and % become Int.tdiv / Int.tmod (C truncation).
"""
import json, os, subprocess, sys, hashlib, re

REPO = os.environ.get("VERIF_REPO", "/repo")
HERE = os.path.dirname(os.path.abspath(__file__))
GEN_DIR = os.path.join(HERE, "..", "lean", "DspVerif", "Gen")


class Unsupported(Exception):
    pass


# ------------------------------------------------------------------------------------------
# AST loading
_ast_cache = {}


def clang_ast(source_text, filt, extra_inc=()):
    """run clang on a tiny TU that includes the wanted header(s); return list of JSON docs"""
    key = (source_text, filt)
    if key in _ast_cache:
        return _ast_cache[key]
    work = os.environ.get("VERIF_WORK", "/tmp")
    os.makedirs(work, exist_ok=True)
    tu = os.path.join(work, "cxx2lean_tu_%s.cpp" % hashlib.sha1(source_text.encode()).hexdigest()[:10])
    with open(tu, "w") as f:
        f.write(source_text)
    defs_dir = os.environ.get("VERIF_DEFS_DIR", os.path.join(REPO, "_build"))
    cmd = ["clang++-14", "-std=gnu++17", "-fsyntax-only", "-DNDEBUG", "-I", os.path.join(REPO, "include"),
           "-I", defs_dir, "-I", os.path.join(REPO, "lib")]
    for i in extra_inc:
        cmd += ["-I", i]
    cmd += ["-Xclang", "-ast-dump=json", "-Xclang", "-ast-dump-filter=" + filt, tu]
    p = subprocess.run(cmd, capture_output=True, text=True)
    if p.returncode != 0 and not p.stdout.strip():
        raise Unsupported("clang failed on %s: %s" % (filt, p.stderr[:2000]))
    s = p.stdout
    dec = json.JSONDecoder()
    i = 0
    docs = []
    while i < len(s):
        while i < len(s) and s[i].isspace():
            i += 1
        if i >= len(s):
            break
        d, j = dec.raw_decode(s, i)
        docs.append(d)
        i = j
    os.unlink(tu)
    _ast_cache[key] = docs
    return docs


def find_all(node, pred, out=None):
    if out is None:
        out = []
    if pred(node):
        out.append(node)
    for c in node.get("inner", []) or []:
        find_all(c, pred, out)
    return out


def qt(n):
    return n.get("type", {}).get("qualType", "")


def strip_type(t):
    t = t.replace("const ", "").replace("volatile ", "").replace("&", "").strip()
    return t


REAL_T = {"double", "dsplib::real_t", "real_t", "float", "long double"}
INT_T = {"int", "unsigned int", "uint32_t", "int32_t", "size_t", "long", "unsigned long", "std::size_t",
         "std::vector::size_type", "size_type", "uint64_t", "int64_t", "unsigned short", "short"}
CX_T = {"dsplib::cmplx_t", "cmplx_t"}


def kind_of_type(t):
    t = strip_type(t)
    if t in REAL_T:
        return "real"
    if t in INT_T:
        return "int"
    if t in CX_T:
        return "cx"
    if t == "bool" or t == "_Bool":
        return "bool"
    return "other:" + t


# ------------------------------------------------------------------------------------------
class Tr:
    """expression / statement translator for one function body"""

    # name of free function or method -> (lean format, result kind); args substituted
    CALLS = {
        "abs": None, "sqrt": "Fn.sqrt", "cos": "Fn.cos", "sin": "Fn.sin", "exp": "Fn.exp", "log": "Fn.log",
        "log10": "Fn.log10", "atan": "Fn.atan", "pow": "Fn.pow", "floor": "Fn.floor", "round": "Fn.round",
        "tanh": "Fn.tanh", "fabs": "Fn.abs",
    }

    def __init__(self, this_name="self", fields=None, this_kind=None, renames=None, user_calls=None,
                 int_real_cast="Fn.ofInt", literals=None):
        self.this = this_name
        self.fields = fields or {}        # C++ field name -> lean field name
        self.this_kind = this_kind        # 'cx' or 'struct'
        self.renames = renames or {}
        self.user_calls = user_calls or {}  # name -> callable(args_strs, node) -> str
        self.int_real_cast = int_real_cast
        self.literals = literals if literals is not None else []   # collected floating literals

    # -------------------------------------------------------------- expressions
    def var(self, name):
        return self.renames.get(name, name.lstrip("_") if name.startswith("_") else name)

    def e(self, n):
        k = n.get("kind")
        m = getattr(self, "e_" + k, None)
        if m is None:
            raise Unsupported("expression kind %s" % k)
        return m(n)

    def passthru(self, n):
        inner = [c for c in n.get("inner", []) if c.get("kind") not in ("WarnUnusedResultAttr",)]
        if len(inner) != 1:
            raise Unsupported("%s with %d children" % (n.get("kind"), len(inner)))
        return self.e(inner[0])

    e_ParenExpr = passthru
    e_ExprWithCleanups = passthru
    e_MaterializeTemporaryExpr = passthru
    e_CXXBindTemporaryExpr = passthru
    e_ConstantExpr = passthru
    e_CXXFunctionalCastExpr = lambda self, n: self.cast(n)
    e_CStyleCastExpr = lambda self, n: self.cast(n)
    e_CXXStaticCastExpr = lambda self, n: self.cast(n)
    e_ImplicitCastExpr = lambda self, n: self.cast(n)

    def cast(self, n):
        ck = n.get("castKind")
        inner = n["inner"][0]
        if ck in ("LValueToRValue", "NoOp", "FunctionToPointerDecay", "UncheckedDerivedToBase", "DerivedToBase",
                  "ArrayToPointerDecay"):
            return self.e(inner)
        if ck == "IntegralToFloating":
            return "(%s %s)" % (self.int_real_cast, self.e(inner))
        if ck == "IntegralCast":
            # int <-> unsigned etc.: same mathematical value under the no-overflow obligations
            return self.e(inner)
        if ck == "FloatingCast":
            return self.e(inner)
        if ck == "IntegralToBoolean":
            return "(%s ≠ 0)" % self.e(inner)
        if ck == "ConstructorConversion":
            return self.e(inner)
        if ck == "FloatingToIntegral":
            raise Unsupported("float->int cast")
        raise Unsupported("cast kind %s" % ck)

    def e_IntegerLiteral(self, n):
        return "(%s : Int)" % n["value"]

    def e_CXXBoolLiteralExpr(self, n):
        return "True" if n["value"] else "False"

    def e_FloatingLiteral(self, n):
        v = n["value"]
        self.literals.append(v)
        f = float(v)
        if f == int(f) and abs(f) < 1e15:
            return "(Fn.ofInt (%d : Int))" % int(f)
        return "(%s)" % repr(f) if "e" not in repr(f) else "(%s)" % repr(f)

    def e_CXXThisExpr(self, n):
        return self.this

    def e_DeclRefExpr(self, n):
        ref = n.get("referencedDecl", {})
        name = ref.get("name")
        if ref.get("kind") in ("ParmVarDecl", "VarDecl"):
            return self.var(name)
        if ref.get("kind") == "EnumConstantDecl":
            return name
        raise Unsupported("DeclRefExpr to %s %s" % (ref.get("kind"), name))

    def e_MemberExpr(self, n):
        base = n["inner"][0]
        name = n["name"]
        lean_field = self.fields.get(name, name.lstrip("_").rstrip("_"))
        if base.get("kind") == "CXXThisExpr":
            return "%s.%s" % (self.this, lean_field)
        b = self.e(base)
        return "%s.%s" % (b, lean_field)

    def e_CXXDependentScopeMemberExpr(self, n):
        name = n.get("member") or n.get("name")
        lean_field = self.fields.get(name, name.lstrip("_").rstrip("_"))
        return "%s.%s" % (self.e(n["inner"][0]), lean_field)

    def e_UnaryOperator(self, n):
        op = n["opcode"]
        inner = n["inner"][0]
        if op == "*" and inner.get("kind") == "CXXThisExpr":
            return self.this
        a = self.e(inner)
        if op == "-":
            return "(-%s)" % a
        if op == "+":
            return a
        if op == "!":
            return "(¬ %s)" % a
        raise Unsupported("unary %s" % op)

    def e_BinaryOperator(self, n):
        op = n["opcode"]
        l, r = n["inner"]
        a, b = self.e(l), self.e(r)
        rk = kind_of_type(qt(n))
        lk = kind_of_type(qt(l))
        if op in ("+", "-", "*"):
            return "(%s %s %s)" % (a, op, b)
        if op == "/":
            if rk == "int":
                return "(Int.tdiv %s %s)" % (a, b)
            return "(%s / %s)" % (a, b)
        if op == "%":
            return "(Int.tmod %s %s)" % (a, b)
        if op in ("<", ">", "<=", ">="):
            return "(%s %s %s)" % (a, {"<": "<", ">": ">", "<=": "≤", ">=": "≥"}[op], b)
        if op == "==":
            return "(%s = %s)" % (a, b)
        if op == "!=":
            return "(%s ≠ %s)" % (a, b)
        if op == "&&":
            return "(%s ∧ %s)" % (a, b)
        if op == "||":
            return "(%s ∨ %s)" % (a, b)
        raise Unsupported("binary %s" % op)

    def e_ConditionalOperator(self, n):
        c, a, b = n["inner"]
        return "(if %s then %s else %s)" % (self.e(c), self.e(a), self.e(b))

    def callee_name(self, n):
        f = n["inner"][0]
        if f.get("kind") == "CXXDependentScopeMemberExpr":
            return f.get("member") or f.get("name")
        refs = find_all(f, lambda x: x.get("kind") == "DeclRefExpr" or x.get("kind") == "MemberExpr")
        if not refs:
            raise Unsupported("call without callee")
        r = refs[0]
        if r.get("kind") == "MemberExpr":
            return r["name"]
        return r["referencedDecl"]["name"]

    def e_CallExpr(self, n):
        name = self.callee_name(n)
        args = [self.e(a) for a in n["inner"][1:] if a.get("kind") != "CXXDefaultArgExpr"]
        if n["inner"][0].get("kind") == "CXXDependentScopeMemberExpr":
            args = [self.e(n["inner"][0]["inner"][0])] + args
        if name in self.user_calls:
            return self.user_calls[name](args, n)
        if name == "abs":
            k = kind_of_type(qt(n))
            if k == "int":
                return "(Int.ofNat (Int.natAbs %s))" % args[0]
            if k == "real":
                return "(Fn.abs %s)" % args[0]
            raise Unsupported("abs on %s" % qt(n))
        if name in ("min", "max") and len(args) == 2:
            k = kind_of_type(qt(n))
            # std::min(a,b) = (b < a) ? b : a ; std::max(a,b) = (a < b) ? b : a
            if name == "min":
                return "(if %s < %s then %s else %s)" % (args[1], args[0], args[1], args[0])
            return "(if %s < %s then %s else %s)" % (args[0], args[1], args[1], args[0])
        if name in self.CALLS and self.CALLS[name]:
            return "(%s %s)" % (self.CALLS[name], " ".join(args))
        raise Unsupported("call to %s" % name)

    def e_CXXMemberCallExpr(self, n):
        me = n["inner"][0]
        name = me["name"]
        base = me["inner"][0]
        obj = self.this if base.get("kind") == "CXXThisExpr" else self.e(base)
        args = [self.e(a) for a in n["inner"][1:] if a.get("kind") != "CXXDefaultArgExpr"]
        if name in self.user_calls:
            return self.user_calls[name]([obj] + args, n)
        if name in ("abs2", "conj") and kind_of_type(qt(base)).startswith("cx") or name in ("abs2", "conj"):
            return "(Cx.%s %s)" % (name, obj)
        raise Unsupported("member call %s" % name)

    def e_CXXOperatorCallExpr(self, n):
        name = self.callee_name(n)
        args = [self.e(a) for a in n["inner"][1:]]
        op = name.replace("operator", "")
        if op in ("+", "-", "*", "/") and len(args) == 2:
            return "(%s %s %s)" % (args[0], op, args[1])
        if op == "-" and len(args) == 1:
            return "(-%s)" % args[0]
        raise Unsupported("operator call %s/%d" % (name, len(args)))

    def e_CXXConstructExpr(self, n):
        k = kind_of_type(qt(n))
        args = [a for a in n.get("inner", []) if a.get("kind") != "CXXDefaultArgExpr"]
        if k == "cx":
            if len(args) == 2:
                return "(Cx.mk %s %s)" % (self.e(args[0]), self.e(args[1]))
            if len(args) == 1:
                ak = kind_of_type(qt(args[0]))
                if ak == "cx":
                    return self.e(args[0])   # copy
                return "(Cx.mk %s (Fn.ofInt 0))" % self.e(args[0])
            if len(args) == 0:
                return "(Cx.mk (Fn.ofInt 0) (Fn.ofInt 0))"
        raise Unsupported("construct %s/%d" % (qt(n), len(args)))

    def e_InitListExpr(self, n):
        k = kind_of_type(qt(n))
        if k == "cx":
            args = n.get("inner", [])
            if len(args) == 2:
                return "(Cx.mk %s %s)" % (self.e(args[0]), self.e(args[1]))
        raise Unsupported("init list %s" % qt(n))

    # -------------------------------------------------------------- statements
    # `rest` is a thunk producing the Lean text of the continuation.
    def is_throw(self, n):
        return bool(find_all(n, lambda x: x.get("kind") == "CXXThrowExpr"))

    def throw_msg(self, n):
        lits = find_all(n, lambda x: x.get("kind") == "StringLiteral")
        msgs = [json.loads(l["value"]) if l["value"].startswith('"') else l["value"] for l in lits]
        msgs = [m for m in msgs if m != "dsplib: "]
        return msgs[0] if msgs else "error"

    def stmts(self, lst, final, throws):
        """translate a statement list; `final` = Lean text used if control falls off the end"""
        if not lst:
            return final
        s, rest = lst[0], lst[1:]
        k = s.get("kind")
        cont = lambda: self.stmts(rest, final, throws)
        if k == "CompoundStmt":
            return self.stmts(list(s.get("inner", [])) + rest, final, throws)
        if k == "NullStmt":
            return cont()
        if k == "DeclStmt":
            out = None
            decls = s["inner"]
            text = ""
            for d in decls:
                if d.get("kind") != "VarDecl" or "inner" not in d:
                    raise Unsupported("declaration without initialiser")
                init = [c for c in d["inner"] if c.get("kind") not in ("FullComment",)][0]
                text += "let %s := %s\n" % (self.var(d["name"]), self.e(init))
            return text + cont()
        if k == "ReturnStmt":
            if not s.get("inner"):
                return final
            v = self.e(s["inner"][0])
            return ("(.ok %s)" % v) if throws else v
        if k in ("ExprWithCleanups",) and s.get("inner") and s["inner"][0].get("kind") == "CXXThrowExpr":
            return '(.error "%s")' % self.throw_msg(s)
        if k == "CXXThrowExpr":
            return '(.error "%s")' % self.throw_msg(s)
        if k == "IfStmt":
            parts = s["inner"]
            cond = self.e(parts[0])
            then = parts[1]
            els = parts[2] if len(parts) > 2 else None
            t = self.stmts([then] + rest, final, throws) if not self.ends(then) else self.stmts([then], final, throws)
            if els is not None:
                e = self.stmts([els] + rest, final, throws) if not self.ends(els) else self.stmts([els], final, throws)
            else:
                e = cont()
            return "if %s then\n%s\nelse\n%s" % (cond, indent(t), indent(e))
        if k in ("BinaryOperator", "CompoundAssignOperator") and (s["opcode"] == "=" or k == "CompoundAssignOperator"):
            lhs, rhs = s["inner"]
            r = self.e(rhs)
            if k == "CompoundAssignOperator":
                op = s["opcode"][:-1]
                cur = self.e(lhs)
                if op == "/" and kind_of_type(qt(s)) == "int":
                    r = "(Int.tdiv %s %s)" % (cur, r)
                elif op == "%":
                    r = "(Int.tmod %s %s)" % (cur, r)
                else:
                    r = "(%s %s %s)" % (cur, op, r)
            return self.assign(lhs, r) + cont()
        if k == "ExprWithCleanups":
            return self.stmts(list(s["inner"]) + rest, final, throws)
        if k == "CXXOperatorCallExpr" and self.callee_name(s) == "operator=":
            lhs, rhs = s["inner"][1], s["inner"][2]
            return self.assign(lhs, self.e(rhs)) + cont()
        raise Unsupported("statement kind %s" % k)

    def ends(self, s):
        """does statement s always leave the function (return / throw)?"""
        k = s.get("kind")
        if k in ("ReturnStmt", "CXXThrowExpr"):
            return True
        if k == "ExprWithCleanups":
            return any(self.ends(c) for c in s.get("inner", []))
        if k == "CompoundStmt":
            inner = s.get("inner", [])
            return bool(inner) and self.ends(inner[-1])
        if k == "IfStmt":
            parts = s["inner"]
            return len(parts) > 2 and self.ends(parts[1]) and self.ends(parts[2])
        return False

    def assign(self, lhs, r):
        k = lhs.get("kind")
        if k == "DeclRefExpr":
            return "let %s := %s\n" % (self.var(lhs["referencedDecl"]["name"]), r)
        if k == "MemberExpr":
            base = lhs["inner"][0]
            name = lhs["name"]
            f = self.fields.get(name, name.lstrip("_").rstrip("_"))
            if base.get("kind") == "CXXThisExpr":
                return "let %s := { %s with %s := %s }\n" % (self.this, self.this, f, r)
            if base.get("kind") == "DeclRefExpr":
                v = self.var(base["referencedDecl"]["name"])
                return "let %s := { %s with %s := %s }\n" % (v, v, f, r)
        if k == "UnaryOperator" and lhs["opcode"] == "*" and lhs["inner"][0].get("kind") == "CXXThisExpr":
            return "let %s := %s\n" % (self.this, r)
        raise Unsupported("assignment target %s" % k)


def indent(t, n=2):
    return "\n".join(" " * n + l for l in t.split("\n"))


def body_of(fn):
    for c in fn.get("inner", []):
        if c.get("kind") == "CompoundStmt":
            return c
    raise Unsupported("no body for %s" % fn.get("name"))


def params_of(fn):
    return [c for c in fn.get("inner", []) if c.get("kind") == "ParmVarDecl"]


def sha(s):
    return hashlib.sha256(s.encode()).hexdigest()[:16]


HEADER = "/-! GENERATED by tools/cxx2lean.py from %s — do not edit; regenerated on every check run. -/\n"

SCALAR_VARS = ("variable {α : Type} [Add α] [Sub α] [Mul α] [Div α] [Neg α] [LT α] [LE α] [Fn α]\n"
               "  [DecidableRel (· < · : α → α → Prop)] [DecidableRel (· ≤ · : α → α → Prop)]\n")

# ------------------------------------------------------------------------------------------
# unit: Cmplx  (include/dsplib/types.h)


def gen_cmplx():
    docs = clang_ast("#include <dsplib/types.h>\n", "cmplx_t")
    rec = [d for d in docs if d.get("kind") == "CXXRecordDecl" and d.get("inner")][0]
    methods = {}
    for m in rec["inner"]:
        if m.get("kind") == "CXXMethodDecl" and any(c.get("kind") == "CompoundStmt" for c in m.get("inner", [])):
            ps = params_of(m)
            sig = m["name"] + "(" + ",".join(kind_of_type(qt(p)) for p in ps) + ")"
            methods[sig] = m
    want = [
        ("operator+(cx)", "add", "Cx α", "Cx α"), ("operator-(cx)", "sub", "Cx α", "Cx α"),
        ("operator*(cx)", "mul", "Cx α", "Cx α"), ("operator/(cx)", "div", "Cx α", "Cx α"),
        ("operator+(real)", "addr", "α", "Cx α"), ("operator-(real)", "subr", "α", "Cx α"),
        ("operator*(real)", "mulr", "α", "Cx α"), ("operator/(real)", "divr", "α", "Cx α"),
        ("operator-()", "neg", None, "Cx α"), ("conj()", "conj", None, "Cx α"), ("abs2()", "abs2", None, "α"),
        ("operator+=(cx)", "addAssign", "Cx α", "Cx α"), ("operator-=(cx)", "subAssign", "Cx α", "Cx α"),
        ("operator*=(cx)", "mulAssign", "Cx α", "Cx α"), ("operator/=(cx)", "divAssign", "Cx α", "Cx α"),
        ("operator+=(real)", "addrAssign", "α", "Cx α"), ("operator-=(real)", "subrAssign", "α", "Cx α"),
        ("operator*=(real)", "mulrAssign", "α", "Cx α"), ("operator/=(real)", "divrAssign", "α", "Cx α"),
    ]
    out = [HEADER % "include/dsplib/types.h (struct cmplx_t and left-scalar operators)",
           "import DspVerif.Scalar\nnamespace Dsp\nnamespace Cx\n", SCALAR_VARS]
    # order matters: abs2 before div etc.
    order = ["abs2()", "conj()", "operator-()", "operator+(cx)", "operator-(cx)", "operator*(cx)", "operator/(cx)",
             "operator+(real)", "operator-(real)", "operator*(real)", "operator/(real)"]
    names = {w[0]: w for w in want}
    defs = []
    for sig in order + [w[0] for w in want if w[0] not in order]:
        _, lname, pty, rty = names[sig]
        if sig not in methods:
            raise Unsupported("cmplx_t::%s not found" % sig)
        m = methods[sig]
        tr = Tr(this_name="self")
        ps = params_of(m)
        body = tr.stmts([body_of(m)], "self", False)
        arg = "" if pty is None else " (%s : %s)" % (ps[0]["name"], pty)
        defs.append("def %s (self : Cx α)%s : %s :=\n%s\n" % (lname, arg, rty, indent(body)))
        if lname == "div":
            # instances needed by later bodies (compound operators use `*this + rhs`)
            defs.append("instance : Add (Cx α) := ⟨add⟩\ninstance : Sub (Cx α) := ⟨sub⟩\n"
                        "instance : Mul (Cx α) := ⟨mul⟩\ninstance : Div (Cx α) := ⟨div⟩\n"
                        "instance : Neg (Cx α) := ⟨neg⟩\n")
    out += defs
    # left-oriented scalar operators (free function templates)
    docs2 = clang_ast("#include <dsplib/types.h>\n", "dsplib::operator")
    left = {}
    for d in docs2:
        if d.get("kind") == "FunctionTemplateDecl":
            fns = [c for c in d.get("inner", []) if c.get("kind") == "FunctionDecl"]
            if not fns:
                continue
            f = fns[0]
            ps = params_of(f)
            if len(ps) == 2 and kind_of_type(qt(ps[1])) == "cx":
                left[d["name"]] = f
    # template bodies are dependent (unresolved operators): translate the pattern structurally
    out.append(gen_left_ops(left))
    out.append("end Cx\nend Dsp\n")
    return "\n".join(out)


def gen_left_ops(left):
    """left-oriented `T op cmplx_t` templates.  Bodies are dependent-typed in the AST, so the
    translation is by structural pattern: `rhs OP lhs`, `{lhs - rhs.re, -rhs.im}`, `cmplx_t(lhs) / rhs`."""
    res = []
    for op, lname in (("operator+", "radd"), ("operator-", "rsub"), ("operator*", "rmul"), ("operator/", "rdiv")):
        if op not in left:
            raise Unsupported("left %s missing" % op)
        f = left[op]
        ret = find_all(body_of(f), lambda x: x.get("kind") == "ReturnStmt")
        if len(ret) != 1:
            raise Unsupported("left %s: not a single return" % op)
        r = ret[0]["inner"][0]
        text = pattern_left(r)
        res.append("/-- `%s(const T& lhs, const cmplx_t& rhs)` -/\ndef %s (lhs : α) (rhs : Cx α) : Cx α :=\n  %s\n" % (op, lname, text))
    return "\n".join(res)


def pattern_left(n):
    k = n.get("kind")
    if k in ("ExprWithCleanups", "MaterializeTemporaryExpr", "ImplicitCastExpr", "ParenExpr"):
        return pattern_left(n["inner"][0])
    if k == "BinaryOperator" or (k == "CXXOperatorCallExpr"):
        if k == "BinaryOperator":
            a, b = n["inner"]
            op = n["opcode"]
        else:
            a, b = n["inner"][1], n["inner"][2]
            cal = find_all(n["inner"][0], lambda x: x.get("kind") in ("DeclRefExpr", "UnresolvedLookupExpr"))[0]
            op = (cal.get("name") or cal["referencedDecl"]["name"]).replace("operator", "")
        sa, sb = pattern_left(a), pattern_left(b)
        kinds = (leaf_kind(sa), leaf_kind(sb))
        if kinds == ("cx", "real"):
            return "(%s %s %s)" % ({"+": "addr", "-": "subr", "*": "mulr", "/": "divr"}[op], sa, sb)
        if kinds == ("cx", "cx"):
            return "(%s %s %s)" % (sa, op, sb)
        if kinds == ("real", "real"):
            return "(%s %s %s)" % (sa, op, sb)
        raise Unsupported("left-op pattern kinds %s" % (kinds,))
    if k == "DeclRefExpr":
        return n["referencedDecl"]["name"]
    if k in ("MemberExpr", "CXXDependentScopeMemberExpr"):
        name = n.get("name") or n.get("member")
        return "%s.%s" % (pattern_left(n["inner"][0]), name)
    if k == "UnaryOperator" and n["opcode"] == "-":
        return "(-%s)" % pattern_left(n["inner"][0])
    if k == "InitListExpr":
        a, b = n["inner"]
        return "(Cx.mk %s %s)" % (pattern_left(a), pattern_left(b))
    if k in ("CXXFunctionalCastExpr", "CXXUnresolvedConstructExpr", "CXXConstructExpr", "CXXTemporaryObjectExpr"):
        args = n.get("inner", [])
        if len(args) == 1:
            s = pattern_left(args[0])
            if leaf_kind(s) == "real":
                return "(Cx.mk %s (Fn.ofInt 0))" % s
            return s
    raise Unsupported("left-op pattern %s" % k)


def leaf_kind(s):
    if s == "lhs" or s.startswith("(lhs") or s.endswith(".re") or s.endswith(".im") or s.endswith(".re)") or s.endswith(".im)"):
        return "real"
    return "cx"


# ------------------------------------------------------------------------------------------
# unit: Slice  (include/dsplib/slice.h)

ARRAY_TU = "#include <dsplib/array.h>\n#include <dsplib/slice.h>\n"


def record(docs, name):
    for d in docs:
        if d.get("kind") == "ClassTemplateDecl" and d.get("name") == name:
            for c in d.get("inner", []):
                if c.get("kind") == "CXXRecordDecl" and c.get("inner"):
                    return c
    for d in docs:
        if d.get("kind") == "CXXRecordDecl" and d.get("name") == name and d.get("inner"):
            return d
    raise Unsupported("record %s not found" % name)


def gen_slice():
    docs = clang_ast(ARRAY_TU, "base_slice_t")
    rec = record(docs, "base_slice_t")
    ctors = [c for c in rec["inner"] if c.get("kind") == "CXXConstructorDecl" and len(params_of(c)) == 4]
    if len(ctors) != 1:
        raise Unsupported("base_slice_t(int,int,int,int) not found")
    ctor = ctors[0]
    fields = [c["name"] for c in rec["inner"] if c.get("kind") == "FieldDecl"]
    if sorted(fields) != sorted(["_i1", "_i2", "_m", "_n", "_nc"]):
        raise Unsupported("base_slice_t fields changed: %s" % fields)
    # default member initialisers must all be 0
    for c in rec["inner"]:
        if c.get("kind") == "FieldDecl":
            lits = find_all(c, lambda x: x.get("kind") == "IntegerLiteral")
            if [l["value"] for l in lits] != ["0"]:
                raise Unsupported("field %s default initialiser is not 0" % c["name"])
    for ci in [c for c in ctor["inner"] if c.get("kind") == "CXXCtorInitializer"]:
        if not find_all(ci, lambda x: x.get("kind") == "CXXDefaultInitExpr"):
            raise Unsupported("ctor initialiser list is not the default one")
    ps = [p["name"] for p in params_of(ctor)]
    tr = Tr(this_name="self", renames={p: p + "'" for p in ps})
    body = tr.stmts([body_of(ctor)], "(.ok self)", True)
    out = [HEADER % "include/dsplib/slice.h (base_slice_t constructor; slice copy-constructor argument lists)",
           "import DspVerif.Scalar\nnamespace Dsp\nnamespace Gen\n",
           "/-- the five `int` members of `base_slice_t` -/\nstructure BaseSlice where\n  i1 : Int := 0\n  i2 : Int := 0\n  m : Int := 0\n  n : Int := 0\n  nc : Int := 0\nderiving Repr, DecidableEq, Inhabited\n",
           "/-- `base_slice_t::base_slice_t(int n, int i1, int i2, int m)`; `.error` = the exception thrown -/\n"
           "def BaseSlice.ctor (%s : Int) : Except String BaseSlice :=\n  let self : BaseSlice := {}\n%s\n" % (" ".join(p + "'" for p in ps), indent(body))]
    # copy constructors: which expressions are passed to base_slice_t(n, i1, i2, m)
    for cls, tag in (("const_slice_t", "const"), ("slice_t", "mut")):
        d2 = clang_ast(ARRAY_TU, cls)
        r2 = record(d2, cls)
        k = 0
        for c in r2["inner"]:
            if c.get("kind") != "CXXConstructorDecl" or c.get("isImplicit"):
                continue
            cps = params_of(c)
            if len(cps) != 1:
                continue
            pty = strip_type(qt(cps[0]))
            src = "const" if "const_slice_t" in pty else "mut"
            inits = [ci for ci in c["inner"] if ci.get("kind") == "CXXCtorInitializer" and "baseInit" in ci]
            if len(inits) != 1:
                raise Unsupported("%s copy ctor: base initialiser not found" % cls)
            ce = find_all(inits[0], lambda x: x.get("kind") in ("CXXConstructExpr", "ParenListExpr"))[0]
            # what does rhs.size() return?  (read from the size() body of the source class)
            def size_field(a, n, src=src):
                scls = "const_slice_t" if src == "const" else "slice_t"
                sr = record(clang_ast(ARRAY_TU, scls), scls)
                sm = [m for m in sr["inner"] if m.get("kind") == "CXXMethodDecl" and m.get("name") == "size"]
                if len(sm) != 1:
                    raise Unsupported("%s::size() not found" % scls)
                return Tr(this_name=a[0]).stmts([body_of(sm[0])], "?", False)
            trc = Tr(this_name="self", user_calls={"size": size_field})
            args = [trc.e(a) for a in ce["inner"]]
            if len(args) != 4:
                raise Unsupported("%s copy ctor passes %d base arguments" % (cls, len(args)))
            out.append("/-- `%s(const %s& rhs)`: arguments handed to the base constructor -/\n"
                       "def copyArgs_%s_from_%s (rhs : BaseSlice) : Int × Int × Int × Int :=\n  (%s)\n" % (cls, pty, tag, src, ", ".join(args)))
            k += 1
        if k == 0:
            raise Unsupported("no copy constructor found in %s" % cls)
    out.append("end Gen\nend Dsp\n")
    return "\n".join(out)


# ------------------------------------------------------------------------------------------
# unit: Consts  (tables / thresholds / guard skeletons used by several models)


def int_literals(node):
    return [int(l["value"]) for l in find_all(node, lambda x: x.get("kind") == "IntegerLiteral")]


def fn_decl(docs, name, with_body=True):
    for d in docs:
        if d.get("kind") in ("FunctionDecl", "CXXMethodDecl") and d.get("name") == name:
            if not with_body or any(c.get("kind") == "CompoundStmt" for c in d.get("inner", [])):
                return d
    raise Unsupported("function %s not found" % name)


def gen_consts():
    out = [HEADER % "lib/primes.cpp (PRIMES), lib/fft/primes-fft.h (MAX_DFT_SIZE), lib/fft/fft.cpp (cache bypass sets), CMakeLists.txt (cache size)",
           "import DspVerif.Scalar\nnamespace Dsp\nnamespace Gen\n"]
    # PRIMES table
    docs = clang_ast('#include "primes.cpp"\n', "PRIMES")
    vd = [d for d in docs if d.get("kind") == "VarDecl" and d.get("name") == "PRIMES"]
    if len(vd) != 1:
        raise Unsupported("PRIMES table not found")
    tbl = int_literals([c for c in vd[0]["inner"] if c.get("kind") == "InitListExpr"][0])
    out.append("/-- `PRIMES` of lib/primes.cpp -/\ndef primesTable : List Nat := %s\n" % str(tbl).replace(" ", ""))
    # MAX_DFT_SIZE
    docs = clang_ast('#include "fft/primes-fft.h"\n', "MAX_DFT_SIZE")
    vd = [d for d in docs if d.get("kind") == "VarDecl" and d.get("name") == "MAX_DFT_SIZE"]
    if len(vd) != 1:
        raise Unsupported("MAX_DFT_SIZE not found")
    out.append("/-- `MAX_DFT_SIZE`: boundary for calculating a prime-length DFT directly instead of by CZT -/\ndef maxDftSize : Nat := %d\n" % int_literals(vd[0])[0])
    # bypass guards of the two plan factories (first `if` of the function)
    for fname, lname in (("create_fft_plan", "bypassC"), ("create_rfft_plan", "bypassR")):
        docs = clang_ast('#define DSPLIB_FFT_CACHE_SIZE 4\n#include "fft/fft.cpp"\n', fname)
        f = fn_decl(docs, fname)
        first = [c for c in body_of(f)["inner"]][0]
        if first.get("kind") != "IfStmt" or not Tr().ends(first["inner"][1]):
            raise Unsupported("%s: does not start with the small-size bypass" % fname)
        cond = Tr().e(first["inner"][0])
        out.append("/-- lengths for which `%s` bypasses the cache -/\ndef %s (n : Int) : Prop := %s\ninstance (n : Int) : Decidable (%s n) := by unfold %s; infer_instance\n" % (fname, lname, cond, lname, lname))
    # default cache size
    cm = open(os.path.join(REPO, "CMakeLists.txt")).read()
    m = re.search(r'set\(DSPLIB_FFT_CACHE_SIZE\s+"(\d+)"', cm)
    if not m:
        raise Unsupported("DSPLIB_FFT_CACHE_SIZE default not found in CMakeLists.txt")
    out.append("/-- default of the CMake option `DSPLIB_FFT_CACHE_SIZE` -/\ndef fftCacheSizeDefault : Nat := %s\n" % m.group(1))
    out.append("end Gen\nend Dsp\n")
    return "\n".join(out)


# ------------------------------------------------------------------------------------------
UNITS = {}


def unit(name, sources):
    def deco(f):
        UNITS[name] = (f, sources)
        return f
    return deco


unit("Cmplx", ["include/dsplib/types.h"])(gen_cmplx)
unit("Slice", ["include/dsplib/slice.h"])(gen_slice)
unit("Consts", ["lib/primes.cpp", "lib/fft/primes-fft.h", "lib/fft/fft.cpp", "CMakeLists.txt"])(gen_consts)


def source_sha(sources):
    h = hashlib.sha256()
    for s in sources:
        with open(os.path.join(REPO, s), "rb") as f:
            h.update(f.read())
    return h.hexdigest()[:16]


def run(units=None, out_dir=None, check_only=False):
    """regenerate units; returns dict unit -> {ok, changed, error, src_sha, out_sha}"""
    out_dir = out_dir or GEN_DIR
    os.makedirs(out_dir, exist_ok=True)
    res = {}
    for name in (units or list(UNITS)):
        f, sources = UNITS[name]
        path = os.path.join(out_dir, name + ".lean")
        info = {"sources": sources}
        try:
            info["src_sha"] = source_sha(sources)
            text = f()
            lines = text.split("\n")
            imps = [l for l in lines if l.startswith("import ")]
            text = "\n".join(imps + [l for l in lines if not l.startswith("import ")])
            old = open(path).read() if os.path.exists(path) else None
            info["changed"] = (old != text)
            info["out_sha"] = sha(text)
            if old != text and not check_only:
                with open(path, "w") as fh:
                    fh.write(text)
            info["ok"] = True
        except Unsupported as ex:
            info["ok"] = False
            info["error"] = "unsupported construct: %s" % ex
        except FileNotFoundError as ex:
            info["ok"] = False
            info["error"] = "source missing: %s" % ex
        res[name] = info
    return res


if __name__ == "__main__":
    import argparse
    ap = argparse.ArgumentParser()
    ap.add_argument("units", nargs="*")
    ap.add_argument("--check-only", action="store_true")
    a = ap.parse_args()
    r = run(a.units or None, check_only=a.check_only)
    print(json.dumps(r, indent=1))
    sys.exit(0 if all(v["ok"] for v in r.values()) else 3)
