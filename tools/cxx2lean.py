#!/usr/bin/env python3
"""cxx2lean: translate loop-free C++ (clang-14 JSON AST) from /repo's working tree into Lean 4
definitions (DspVerif/Gen/*.lean).  Run on every check; the theorems in Props/ about the
generated definitions are then re-checked against what the code says *now*.

Supported subset (anything else raises Unsupported -> the GEN obligation fails):
  expressions: + - * / % unary-, comparisons, && || !, ?:, member access, literals, int<->real
               casts, calls to a fixed table (std::abs, sqrt, cos, ... abs2, conj), cmplx_t
               operators, constructor / braced-init of cmplx_t
  statements : declarations with initialiser, (compound) assignment to locals / fields,
               if / else, return, DSPLIB_THROW / DSPLIB_ASSERT (throw std::runtime_error)
Integers are typed from the AST: C++ `int` / and % become Int.tdiv / Int.tmod (C truncation).
"""
import json, os, subprocess, sys, hashlib, re

REPO = os.environ.get("VERIF_REPO", "/repo")
HERE = os.path.dirname(os.path.abspath(__file__))
GEN_DIR = os.path.join(os.environ.get("VERIF_LEAN") or os.path.join(HERE, "..", "lean"), "DspVerif", "Gen")


class Unsupported(Exception):
    pass


# ------------------------------------------------------------------------------------------
# AST loading
_ast_cache = {}


def clang_ast(source_text, filt, extra_inc=()):
    """run clang on a tiny TU that includes the wanted header(s); return list of JSON docs"""
    key = (source_text, filt)
    if key in _ast_cache:
        return _ast_cache[key]
    # the TU lives in a directory of its own: `#include "x.cpp"` looks beside the TU first, and a stray
    # file of that name in a shared scratch directory must never be picked up instead of /repo's
    import tempfile, shutil
    base = os.environ.get("VERIF_WORK", "/tmp")
    os.makedirs(base, exist_ok=True)
    work = tempfile.mkdtemp(prefix="cxx2lean_tu.", dir=base)
    tu = os.path.join(work, "cxx2lean_tu_%s.cpp" % hashlib.sha1(source_text.encode()).hexdigest()[:10])
    with open(tu, "w") as f:
        f.write(source_text)
    defs_dir = os.environ.get("VERIF_DEFS_DIR", os.path.join(REPO, "_build"))
    cmd = ["clang++-14", "-std=gnu++17", "-fsyntax-only", "-DNDEBUG", "-I", os.path.join(REPO, "include"),
           "-I", defs_dir, "-I", os.path.join(REPO, "lib")]
    for i in extra_inc:
        cmd += ["-I", i]
    cmd += ["-Xclang", "-ast-dump=json", "-Xclang", "-ast-dump-filter=" + filt, tu]
    p = subprocess.run(cmd, capture_output=True, text=True)
    shutil.rmtree(work, ignore_errors=True)
    if p.returncode != 0:
        # a TU that does not compile (missing generated header, syntax error) gives a partial AST: never translate that
        raise Unsupported("clang failed on %s: %s" % (filt, p.stderr[:2000]))
    s = p.stdout
    dec = json.JSONDecoder()
    i = 0
    docs = []
    while i < len(s):
        while i < len(s) and s[i].isspace():
            i += 1
        if i >= len(s):
            break
        d, j = dec.raw_decode(s, i)
        docs.append(d)
        i = j
    _ast_cache[key] = docs
    return docs


def prefetch(pairs):
    """run clang for several (TU text, filter) pairs concurrently; results land in the cache"""
    from concurrent.futures import ThreadPoolExecutor
    todo = [p for p in dict.fromkeys(pairs) if p not in _ast_cache]
    if len(todo) < 2:
        return
    def one(p):
        try:
            clang_ast(*p)
        except Unsupported:
            pass          # reported when the unit asks for this AST itself
    with ThreadPoolExecutor(max_workers=min(8, len(todo))) as ex:
        list(ex.map(one, todo))


def find_all(node, pred, out=None):
    if out is None:
        out = []
    if pred(node):
        out.append(node)
    for c in node.get("inner", []) or []:
        find_all(c, pred, out)
    return out


def qt(n):
    return n.get("type", {}).get("qualType", "")


def strip_type(t):
    t = t.replace("const ", "").replace("volatile ", "").replace("&", "").strip()
    return t


REAL_T = {"double", "dsplib::real_t", "real_t", "float", "long double"}
INT_T = {"int", "unsigned int", "uint32_t", "int32_t", "size_t", "long", "unsigned long", "std::size_t",
         "std::vector::size_type", "size_type", "uint64_t", "int64_t", "unsigned short", "short"}
CX_T = {"dsplib::cmplx_t", "cmplx_t"}


def kind_of_type(t):
    t = strip_type(t)
    if t in REAL_T:
        return "real"
    if t in INT_T:
        return "int"
    if t in CX_T:
        return "cx"
    if t == "bool" or t == "_Bool":
        return "bool"
    return "other:" + t


# ------------------------------------------------------------------------------------------
class Tr:
    """expression / statement translator for one function body"""

    # name of free function or method -> (lean format, result kind); args substituted
    CALLS = {
        "abs": None, "sqrt": "Fn.sqrt", "cos": "Fn.cos", "sin": "Fn.sin", "exp": "Fn.exp", "log": "Fn.log",
        "log10": "Fn.log10", "atan": "Fn.atan", "pow": "Fn.pow", "floor": "Fn.floor", "round": "Fn.round",
        "tanh": "Fn.tanh", "fabs": "Fn.abs",
    }

    def __init__(self, this_name="self", fields=None, this_kind=None, renames=None, user_calls=None,
                 int_real_cast="Fn.ofInt", literals=None):
        self.this = this_name
        self.fields = fields or {}        # C++ field name -> lean field name
        self.this_kind = this_kind        # 'cx' or 'struct'
        self.renames = renames or {}
        self.user_calls = user_calls or {}  # name -> callable(args_strs, node) -> str
        self.int_real_cast = int_real_cast
        self.literals = literals if literals is not None else []   # collected floating literals

    # -------------------------------------------------------------- expressions
    def var(self, name):
        return self.renames.get(name, name.lstrip("_") if name.startswith("_") else name)

    def e(self, n):
        k = n.get("kind")
        m = getattr(self, "e_" + k, None)
        if m is None:
            raise Unsupported("expression kind %s" % k)
        return m(n)

    def passthru(self, n):
        inner = [c for c in n.get("inner", []) if c.get("kind") not in ("WarnUnusedResultAttr",)]
        if len(inner) != 1:
            raise Unsupported("%s with %d children" % (n.get("kind"), len(inner)))
        return self.e(inner[0])

    e_ParenExpr = passthru
    e_ExprWithCleanups = passthru
    e_MaterializeTemporaryExpr = passthru
    e_CXXBindTemporaryExpr = passthru
    e_ConstantExpr = passthru
    e_CXXFunctionalCastExpr = lambda self, n: self.cast(n)
    e_CStyleCastExpr = lambda self, n: self.cast(n)
    e_CXXStaticCastExpr = lambda self, n: self.cast(n)
    e_ImplicitCastExpr = lambda self, n: self.cast(n)

    def cast(self, n):
        ck = n.get("castKind")
        inner = n["inner"][0]
        if ck in ("LValueToRValue", "NoOp", "FunctionToPointerDecay", "UncheckedDerivedToBase", "DerivedToBase",
                  "ArrayToPointerDecay"):
            return self.e(inner)
        if ck == "IntegralToFloating":
            return "(%s %s)" % (self.int_real_cast, self.e(inner))
        if ck == "IntegralCast":
            # int <-> unsigned etc.: same mathematical value under the no-overflow obligations
            return self.e(inner)
        if ck == "FloatingCast":
            return self.e(inner)
        if ck == "IntegralToBoolean":
            return "(%s ≠ 0)" % self.e(inner)
        if ck == "ConstructorConversion":
            return self.e(inner)
        if ck == "FloatingToIntegral":
            raise Unsupported("float->int cast")
        raise Unsupported("cast kind %s" % ck)

    def e_IntegerLiteral(self, n):
        return "(%s : Int)" % n["value"]

    def e_CXXBoolLiteralExpr(self, n):
        return "True" if n["value"] else "False"

    def e_FloatingLiteral(self, n):
        v = n["value"]
        self.literals.append(v)
        f = float(v)
        d = dyadic(f)
        if d is not None:
            return d
        return "(%s)" % repr(f)

    def e_CXXThisExpr(self, n):
        return self.this

    def e_DeclRefExpr(self, n):
        ref = n.get("referencedDecl", {})
        name = ref.get("name")
        if ref.get("kind") in ("ParmVarDecl", "VarDecl"):
            return self.var(name)
        if ref.get("kind") == "EnumConstantDecl":
            return name
        raise Unsupported("DeclRefExpr to %s %s" % (ref.get("kind"), name))

    def e_MemberExpr(self, n):
        base = n["inner"][0]
        name = n["name"]
        lean_field = self.fields.get(name, name.lstrip("_").rstrip("_"))
        if base.get("kind") == "CXXThisExpr":
            return "%s.%s" % (self.this, lean_field)
        b = self.e(base)
        return "%s.%s" % (b, lean_field)

    def e_CXXDependentScopeMemberExpr(self, n):
        name = n.get("member") or n.get("name")
        lean_field = self.fields.get(name, name.lstrip("_").rstrip("_"))
        return "%s.%s" % (self.e(n["inner"][0]), lean_field)

    def e_UnaryOperator(self, n):
        op = n["opcode"]
        inner = n["inner"][0]
        if op == "*" and inner.get("kind") == "CXXThisExpr":
            return self.this
        a = self.e(inner)
        if op == "-":
            return "(-%s)" % a
        if op == "+":
            return a
        if op == "!":
            return "(¬ %s)" % a
        raise Unsupported("unary %s" % op)

    def e_BinaryOperator(self, n):
        op = n["opcode"]
        l, r = n["inner"]
        a, b = self.e(l), self.e(r)
        rk = kind_of_type(qt(n))
        lk = kind_of_type(qt(l))
        if op in ("+", "-", "*"):
            return "(%s %s %s)" % (a, op, b)
        if op == "/":
            if rk == "int":
                return "(Int.tdiv %s %s)" % (a, b)
            return "(%s / %s)" % (a, b)
        if op == "%":
            return "(Int.tmod %s %s)" % (a, b)
        if op in ("<", ">", "<=", ">="):
            return "(%s %s %s)" % (a, {"<": "<", ">": ">", "<=": "≤", ">=": "≥"}[op], b)
        if op == "==":
            return "(%s = %s)" % (a, b)
        if op == "!=":
            return "(%s ≠ %s)" % (a, b)
        if op == "&&":
            return "(%s ∧ %s)" % (a, b)
        if op == "||":
            return "(%s ∨ %s)" % (a, b)
        raise Unsupported("binary %s" % op)

    def e_ConditionalOperator(self, n):
        c, a, b = n["inner"]
        return "(if %s then %s else %s)" % (self.e(c), self.e(a), self.e(b))

    def callee_name(self, n):
        f = n["inner"][0]
        if f.get("kind") == "CXXDependentScopeMemberExpr":
            return f.get("member") or f.get("name")
        refs = find_all(f, lambda x: x.get("kind") == "DeclRefExpr" or x.get("kind") == "MemberExpr")
        if not refs:
            raise Unsupported("call without callee")
        r = refs[0]
        if r.get("kind") == "MemberExpr":
            return r["name"]
        return r["referencedDecl"]["name"]

    def e_CallExpr(self, n):
        name = self.callee_name(n)
        args = [self.e(a) for a in n["inner"][1:] if a.get("kind") != "CXXDefaultArgExpr"]
        if n["inner"][0].get("kind") == "CXXDependentScopeMemberExpr":
            args = [self.e(n["inner"][0]["inner"][0])] + args
        if name in self.user_calls:
            return self.user_calls[name](args, n)
        if name == "abs":
            k = kind_of_type(qt(n))
            if k == "int":
                return "(Int.ofNat (Int.natAbs %s))" % args[0]
            if k == "real":
                return "(Fn.abs %s)" % args[0]
            raise Unsupported("abs on %s" % qt(n))
        if name in ("min", "max") and len(args) == 2:
            k = kind_of_type(qt(n))
            # std::min(a,b) = (b < a) ? b : a ; std::max(a,b) = (a < b) ? b : a
            if name == "min":
                return "(if %s < %s then %s else %s)" % (args[1], args[0], args[1], args[0])
            return "(if %s < %s then %s else %s)" % (args[0], args[1], args[1], args[0])
        if name in self.CALLS and self.CALLS[name]:
            # libm functions take real arguments: an `int` argument (std::pow(10, x)) is promoted
            raw = [a for a in n["inner"][1:] if a.get("kind") != "CXXDefaultArgExpr"]
            args = [("(Fn.ofInt %s)" % s_) if kind_of_type(qt(r)) == "int" else s_ for s_, r in zip(args, raw)]
            return "(%s %s)" % (self.CALLS[name], " ".join(args))
        raise Unsupported("call to %s" % name)

    def e_CXXMemberCallExpr(self, n):
        me = n["inner"][0]
        name = me["name"]
        base = me["inner"][0]
        obj = self.this if base.get("kind") == "CXXThisExpr" else self.e(base)
        args = [self.e(a) for a in n["inner"][1:] if a.get("kind") != "CXXDefaultArgExpr"]
        if name in self.user_calls:
            return self.user_calls[name]([obj] + args, n)
        if name in ("abs2", "conj") and kind_of_type(qt(base)).startswith("cx") or name in ("abs2", "conj"):
            return "(Cx.%s %s)" % (name, obj)
        raise Unsupported("member call %s" % name)

    def e_CXXOperatorCallExpr(self, n):
        name = self.callee_name(n)
        args = [self.e(a) for a in n["inner"][1:]]
        op = name.replace("operator", "")
        if op in ("+", "-", "*", "/") and len(args) == 2:
            return "(%s %s %s)" % (args[0], op, args[1])
        if op == "-" and len(args) == 1:
            return "(-%s)" % args[0]
        raise Unsupported("operator call %s/%d" % (name, len(args)))

    def e_CXXConstructExpr(self, n):
        k = kind_of_type(qt(n))
        args = [a for a in n.get("inner", []) if a.get("kind") != "CXXDefaultArgExpr"]
        if k == "cx":
            if len(args) == 2:
                return "(Cx.mk %s %s)" % (self.e(args[0]), self.e(args[1]))
            if len(args) == 1:
                ak = kind_of_type(qt(args[0]))
                if ak == "cx":
                    return self.e(args[0])   # copy
                return "(Cx.mk %s (Fn.ofInt 0))" % self.e(args[0])
            if len(args) == 0:
                return "(Cx.mk (Fn.ofInt 0) (Fn.ofInt 0))"
        raise Unsupported("construct %s/%d" % (qt(n), len(args)))

    def e_InitListExpr(self, n):
        k = kind_of_type(qt(n))
        if k == "cx":
            args = n.get("inner", [])
            if len(args) == 2:
                return "(Cx.mk %s %s)" % (self.e(args[0]), self.e(args[1]))
        raise Unsupported("init list %s" % qt(n))

    # -------------------------------------------------------------- statements
    # `rest` is a thunk producing the Lean text of the continuation.
    def is_throw(self, n):
        return bool(find_all(n, lambda x: x.get("kind") == "CXXThrowExpr"))

    def throw_msg(self, n):
        lits = find_all(n, lambda x: x.get("kind") == "StringLiteral")
        msgs = [json.loads(l["value"]) if l["value"].startswith('"') else l["value"] for l in lits]
        msgs = [m for m in msgs if m != "dsplib: "]
        return msgs[0] if msgs else "error"

    def stmts(self, lst, final, throws):
        """translate a statement list; `final` = Lean text used if control falls off the end"""
        if not lst:
            return final
        s, rest = lst[0], lst[1:]
        k = s.get("kind")
        cont = lambda: self.stmts(rest, final, throws)
        if k == "CompoundStmt":
            return self.stmts(list(s.get("inner", [])) + rest, final, throws)
        if k == "NullStmt":
            return cont()
        if k == "DeclStmt":
            out = None
            decls = s["inner"]
            text = ""
            for d in decls:
                if d.get("kind") != "VarDecl" or "inner" not in d:
                    raise Unsupported("declaration without initialiser")
                init = [c for c in d["inner"] if c.get("kind") not in ("FullComment",)][0]
                text += "let %s := %s\n" % (self.var(d["name"]), self.e(init))
            return text + cont()
        if k == "ReturnStmt":
            if not s.get("inner"):
                return final
            v = self.e(s["inner"][0])
            return ("(.ok %s)" % v) if throws else v
        if k in ("ExprWithCleanups",) and s.get("inner") and s["inner"][0].get("kind") == "CXXThrowExpr":
            return '(.error "%s")' % self.throw_msg(s)
        if k == "CXXThrowExpr":
            return '(.error "%s")' % self.throw_msg(s)
        if k == "IfStmt":
            parts = s["inner"]
            cond = self.e(parts[0])
            then = parts[1]
            els = parts[2] if len(parts) > 2 else None
            t = self.stmts([then] + rest, final, throws) if not self.ends(then) else self.stmts([then], final, throws)
            if els is not None:
                e = self.stmts([els] + rest, final, throws) if not self.ends(els) else self.stmts([els], final, throws)
            else:
                e = cont()
            return "if %s then\n%s\nelse\n%s" % (cond, indent(t), indent(e))
        if k in ("BinaryOperator", "CompoundAssignOperator") and (s["opcode"] == "=" or k == "CompoundAssignOperator"):
            lhs, rhs = s["inner"]
            r = self.e(rhs)
            if k == "CompoundAssignOperator":
                op = s["opcode"][:-1]
                cur = self.e(lhs)
                if op == "/" and kind_of_type(qt(s)) == "int":
                    r = "(Int.tdiv %s %s)" % (cur, r)
                elif op == "%":
                    r = "(Int.tmod %s %s)" % (cur, r)
                else:
                    r = "(%s %s %s)" % (cur, op, r)
            return self.assign(lhs, r) + cont()
        if k == "ExprWithCleanups":
            return self.stmts(list(s["inner"]) + rest, final, throws)
        if k == "UnaryOperator" and s.get("opcode") in ("++", "--"):
            # `++x;` / `x++;` as a statement (value unused): x := x +/- 1
            tgt = s["inner"][0]
            one = "(1 : Int)" if kind_of_type(qt(tgt)) == "int" else "(Fn.ofInt (1 : Int))"
            r = "(%s %s %s)" % (self.e(tgt), "+" if s["opcode"] == "++" else "-", one)
            return self.assign(tgt, r) + cont()
        if k == "CXXOperatorCallExpr" and self.callee_name(s) == "operator=":
            lhs, rhs = s["inner"][1], s["inner"][2]
            return self.assign(lhs, self.e(rhs)) + cont()
        raise Unsupported("statement kind %s" % k)

    def ends(self, s):
        """does statement s always leave the function (return / throw)?"""
        k = s.get("kind")
        if k in ("ReturnStmt", "CXXThrowExpr"):
            return True
        if k == "ExprWithCleanups":
            return any(self.ends(c) for c in s.get("inner", []))
        if k == "CompoundStmt":
            inner = s.get("inner", [])
            return bool(inner) and self.ends(inner[-1])
        if k == "IfStmt":
            parts = s["inner"]
            return len(parts) > 2 and self.ends(parts[1]) and self.ends(parts[2])
        return False

    def assign(self, lhs, r):
        k = lhs.get("kind")
        if k == "DeclRefExpr":
            return "let %s := %s\n" % (self.var(lhs["referencedDecl"]["name"]), r)
        if k == "MemberExpr":
            base = lhs["inner"][0]
            name = lhs["name"]
            f = self.fields.get(name, name.lstrip("_").rstrip("_"))
            if base.get("kind") == "CXXThisExpr":
                return "let %s := { %s with %s := %s }\n" % (self.this, self.this, f, r)
            if base.get("kind") == "DeclRefExpr":
                v = self.var(base["referencedDecl"]["name"])
                return "let %s := { %s with %s := %s }\n" % (v, v, f, r)
        if k == "UnaryOperator" and lhs["opcode"] == "*" and lhs["inner"][0].get("kind") == "CXXThisExpr":
            return "let %s := %s\n" % (self.this, r)
        raise Unsupported("assignment target %s" % k)


def indent(t, n=2):
    return "\n".join(" " * n + l for l in t.split("\n"))


def body_of(fn):
    for c in fn.get("inner", []):
        if c.get("kind") == "CompoundStmt":
            return c
    raise Unsupported("no body for %s" % fn.get("name"))


def params_of(fn):
    return [c for c in fn.get("inner", []) if c.get("kind") == "ParmVarDecl"]


def sha(s):
    return hashlib.sha256(s.encode()).hexdigest()[:16]


HEADER = "/-! GENERATED by tools/cxx2lean.py from %s — do not edit; regenerated on every check run. -/\n"

SCALAR_VARS = ("variable {α : Type} [Add α] [Sub α] [Mul α] [Div α] [Neg α] [LT α] [LE α] [Fn α]\n"
               "  [DecidableRel (· < · : α → α → Prop)] [DecidableRel (· ≤ · : α → α → Prop)]\n")

# ------------------------------------------------------------------------------------------
# unit: Cmplx  (include/dsplib/types.h)


def gen_cmplx():
    docs = clang_ast("#include <dsplib/types.h>\n", "cmplx_t")
    rec = [d for d in docs if d.get("kind") == "CXXRecordDecl" and d.get("inner")][0]
    methods = {}
    for m in rec["inner"]:
        if m.get("kind") == "CXXMethodDecl" and any(c.get("kind") == "CompoundStmt" for c in m.get("inner", [])):
            ps = params_of(m)
            sig = m["name"] + "(" + ",".join(kind_of_type(qt(p)) for p in ps) + ")"
            methods[sig] = m
    want = [
        ("operator+(cx)", "add", "Cx α", "Cx α"), ("operator-(cx)", "sub", "Cx α", "Cx α"),
        ("operator*(cx)", "mul", "Cx α", "Cx α"), ("operator/(cx)", "div", "Cx α", "Cx α"),
        ("operator+(real)", "addr", "α", "Cx α"), ("operator-(real)", "subr", "α", "Cx α"),
        ("operator*(real)", "mulr", "α", "Cx α"), ("operator/(real)", "divr", "α", "Cx α"),
        ("operator-()", "neg", None, "Cx α"), ("conj()", "conj", None, "Cx α"), ("abs2()", "abs2", None, "α"),
        ("operator+=(cx)", "addAssign", "Cx α", "Cx α"), ("operator-=(cx)", "subAssign", "Cx α", "Cx α"),
        ("operator*=(cx)", "mulAssign", "Cx α", "Cx α"), ("operator/=(cx)", "divAssign", "Cx α", "Cx α"),
        ("operator+=(real)", "addrAssign", "α", "Cx α"), ("operator-=(real)", "subrAssign", "α", "Cx α"),
        ("operator*=(real)", "mulrAssign", "α", "Cx α"), ("operator/=(real)", "divrAssign", "α", "Cx α"),
    ]
    out = [HEADER % "include/dsplib/types.h (struct cmplx_t and left-scalar operators)",
           "import DspVerif.Scalar\nnamespace Dsp\nnamespace Cx\n", SCALAR_VARS]
    # order matters: abs2 before div etc.
    order = ["abs2()", "conj()", "operator-()", "operator+(cx)", "operator-(cx)", "operator*(cx)", "operator/(cx)",
             "operator+(real)", "operator-(real)", "operator*(real)", "operator/(real)"]
    names = {w[0]: w for w in want}
    defs = []
    for sig in order + [w[0] for w in want if w[0] not in order]:
        _, lname, pty, rty = names[sig]
        if sig not in methods:
            raise Unsupported("cmplx_t::%s not found" % sig)
        m = methods[sig]
        tr = Tr(this_name="self")
        ps = params_of(m)
        body = tr.stmts([body_of(m)], "self", False)
        arg = "" if pty is None else " (%s : %s)" % (ps[0]["name"], pty)
        defs.append("def %s (self : Cx α)%s : %s :=\n%s\n" % (lname, arg, rty, indent(body)))
        if lname == "div":
            # instances needed by later bodies (compound operators use `*this + rhs`)
            defs.append("instance : Add (Cx α) := ⟨add⟩\ninstance : Sub (Cx α) := ⟨sub⟩\n"
                        "instance : Mul (Cx α) := ⟨mul⟩\ninstance : Div (Cx α) := ⟨div⟩\n"
                        "instance : Neg (Cx α) := ⟨neg⟩\n")
    out += defs
    # left-oriented scalar operators (free function templates)
    docs2 = clang_ast("#include <dsplib/types.h>\n", "dsplib::operator")
    left = {}
    for d in docs2:
        if d.get("kind") == "FunctionTemplateDecl":
            fns = [c for c in d.get("inner", []) if c.get("kind") == "FunctionDecl"]
            if not fns:
                continue
            f = fns[0]
            ps = params_of(f)
            if len(ps) == 2 and kind_of_type(qt(ps[1])) == "cx":
                left[d["name"]] = f
    # template bodies are dependent (unresolved operators): translate the pattern structurally
    out.append(gen_left_ops(left))
    out.append("end Cx\nend Dsp\n")
    return "\n".join(out)


def gen_left_ops(left):
    """left-oriented `T op cmplx_t` templates.  Bodies are dependent-typed in the AST, so the
    translation is by structural pattern: `rhs OP lhs`, `{lhs - rhs.re, -rhs.im}`, `cmplx_t(lhs) / rhs`."""
    res = []
    for op, lname in (("operator+", "radd"), ("operator-", "rsub"), ("operator*", "rmul"), ("operator/", "rdiv")):
        if op not in left:
            raise Unsupported("left %s missing" % op)
        f = left[op]
        ret = find_all(body_of(f), lambda x: x.get("kind") == "ReturnStmt")
        if len(ret) != 1:
            raise Unsupported("left %s: not a single return" % op)
        r = ret[0]["inner"][0]
        text = pattern_left(r)
        res.append("/-- `%s(const T& lhs, const cmplx_t& rhs)` -/\ndef %s (lhs : α) (rhs : Cx α) : Cx α :=\n  %s\n" % (op, lname, text))
    return "\n".join(res)


def pattern_left(n):
    k = n.get("kind")
    if k in ("ExprWithCleanups", "MaterializeTemporaryExpr", "ImplicitCastExpr", "ParenExpr"):
        return pattern_left(n["inner"][0])
    if k == "BinaryOperator" or (k == "CXXOperatorCallExpr"):
        if k == "BinaryOperator":
            a, b = n["inner"]
            op = n["opcode"]
        else:
            a, b = n["inner"][1], n["inner"][2]
            cal = find_all(n["inner"][0], lambda x: x.get("kind") in ("DeclRefExpr", "UnresolvedLookupExpr"))[0]
            op = (cal.get("name") or cal["referencedDecl"]["name"]).replace("operator", "")
        sa, sb = pattern_left(a), pattern_left(b)
        kinds = (leaf_kind(sa), leaf_kind(sb))
        if kinds == ("cx", "real"):
            return "(%s %s %s)" % ({"+": "addr", "-": "subr", "*": "mulr", "/": "divr"}[op], sa, sb)
        if kinds == ("cx", "cx"):
            return "(%s %s %s)" % (sa, op, sb)
        if kinds == ("real", "real"):
            return "(%s %s %s)" % (sa, op, sb)
        raise Unsupported("left-op pattern kinds %s" % (kinds,))
    if k == "DeclRefExpr":
        return n["referencedDecl"]["name"]
    if k in ("MemberExpr", "CXXDependentScopeMemberExpr"):
        name = n.get("name") or n.get("member")
        return "%s.%s" % (pattern_left(n["inner"][0]), name)
    if k == "UnaryOperator" and n["opcode"] == "-":
        return "(-%s)" % pattern_left(n["inner"][0])
    if k == "InitListExpr":
        a, b = n["inner"]
        return "(Cx.mk %s %s)" % (pattern_left(a), pattern_left(b))
    if k in ("CXXFunctionalCastExpr", "CXXUnresolvedConstructExpr", "CXXConstructExpr", "CXXTemporaryObjectExpr"):
        args = n.get("inner", [])
        if len(args) == 1:
            s = pattern_left(args[0])
            if leaf_kind(s) == "real":
                return "(Cx.mk %s (Fn.ofInt 0))" % s
            return s
    raise Unsupported("left-op pattern %s" % k)


def leaf_kind(s):
    if s == "lhs" or s.startswith("(lhs") or s.endswith(".re") or s.endswith(".im") or s.endswith(".re)") or s.endswith(".im)"):
        return "real"
    return "cx"


# ------------------------------------------------------------------------------------------
# unit: Slice  (include/dsplib/slice.h)

ARRAY_TU = "#include <dsplib/array.h>\n#include <dsplib/slice.h>\n"


def record(docs, name):
    for d in docs:
        if d.get("kind") == "ClassTemplateDecl" and d.get("name") == name:
            for c in d.get("inner", []):
                if c.get("kind") == "CXXRecordDecl" and c.get("inner"):
                    return c
    for d in docs:
        if d.get("kind") == "CXXRecordDecl" and d.get("name") == name and d.get("inner"):
            return d
    raise Unsupported("record %s not found" % name)


def gen_slice():
    docs = clang_ast(ARRAY_TU, "base_slice_t")
    rec = record(docs, "base_slice_t")
    ctors = [c for c in rec["inner"] if c.get("kind") == "CXXConstructorDecl" and len(params_of(c)) == 4]
    if len(ctors) != 1:
        raise Unsupported("base_slice_t(int,int,int,int) not found")
    ctor = ctors[0]
    fields = [c["name"] for c in rec["inner"] if c.get("kind") == "FieldDecl"]
    if sorted(fields) != sorted(["_i1", "_i2", "_m", "_n", "_nc"]):
        raise Unsupported("base_slice_t fields changed: %s" % fields)
    # default member initialisers must all be 0
    for c in rec["inner"]:
        if c.get("kind") == "FieldDecl":
            lits = find_all(c, lambda x: x.get("kind") == "IntegerLiteral")
            if [l["value"] for l in lits] != ["0"]:
                raise Unsupported("field %s default initialiser is not 0" % c["name"])
    for ci in [c for c in ctor["inner"] if c.get("kind") == "CXXCtorInitializer"]:
        if not find_all(ci, lambda x: x.get("kind") == "CXXDefaultInitExpr"):
            raise Unsupported("ctor initialiser list is not the default one")
    ps = [p["name"] for p in params_of(ctor)]
    tr = Tr(this_name="self", renames={p: p + "'" for p in ps})
    body = tr.stmts([body_of(ctor)], "(.ok self)", True)
    out = [HEADER % "include/dsplib/slice.h (base_slice_t constructor; slice copy-constructor argument lists)",
           "import DspVerif.Scalar\nnamespace Dsp\nnamespace Gen\n",
           "/-- the five `int` members of `base_slice_t` -/\nstructure BaseSlice where\n  i1 : Int := 0\n  i2 : Int := 0\n  m : Int := 0\n  n : Int := 0\n  nc : Int := 0\nderiving Repr, DecidableEq, Inhabited\n",
           "/-- `base_slice_t::base_slice_t(int n, int i1, int i2, int m)`; `.error` = the exception thrown -/\n"
           "def BaseSlice.ctor (%s : Int) : Except String BaseSlice :=\n  let self : BaseSlice := {}\n%s\n" % (" ".join(p + "'" for p in ps), indent(body))]
    # copy constructors: which expressions are passed to base_slice_t(n, i1, i2, m)
    for cls, tag in (("const_slice_t", "const"), ("slice_t", "mut")):
        d2 = clang_ast(ARRAY_TU, cls)
        r2 = record(d2, cls)
        k = 0
        for c in r2["inner"]:
            if c.get("kind") != "CXXConstructorDecl" or c.get("isImplicit"):
                continue
            cps = params_of(c)
            if len(cps) != 1:
                continue
            pty = strip_type(qt(cps[0]))
            src = "const" if "const_slice_t" in pty else "mut"
            inits = [ci for ci in c["inner"] if ci.get("kind") == "CXXCtorInitializer" and "baseInit" in ci]
            if len(inits) != 1:
                raise Unsupported("%s copy ctor: base initialiser not found" % cls)
            ce = find_all(inits[0], lambda x: x.get("kind") in ("CXXConstructExpr", "ParenListExpr"))[0]
            # what does rhs.size() return?  (read from the size() body of the source class)
            def size_field(a, n, src=src):
                scls = "const_slice_t" if src == "const" else "slice_t"
                sr = record(clang_ast(ARRAY_TU, scls), scls)
                sm = [m for m in sr["inner"] if m.get("kind") == "CXXMethodDecl" and m.get("name") == "size"]
                if len(sm) != 1:
                    raise Unsupported("%s::size() not found" % scls)
                return Tr(this_name=a[0]).stmts([body_of(sm[0])], "?", False)
            trc = Tr(this_name="self", user_calls={"size": size_field})
            args = [trc.e(a) for a in ce["inner"]]
            if len(args) != 4:
                raise Unsupported("%s copy ctor passes %d base arguments" % (cls, len(args)))
            out.append("/-- `%s(const %s& rhs)`: arguments handed to the base constructor -/\n"
                       "def copyArgs_%s_from_%s (rhs : BaseSlice) : Int × Int × Int × Int :=\n  (%s)\n" % (cls, pty, tag, src, ", ".join(args)))
            k += 1
        if k == 0:
            raise Unsupported("no copy constructor found in %s" % cls)
    out.append("end Gen\nend Dsp\n")
    return "\n".join(out)


# ------------------------------------------------------------------------------------------
# unit: Consts  (tables / thresholds / guard skeletons used by several models)


def int_literals(node):
    return [int(l["value"]) for l in find_all(node, lambda x: x.get("kind") == "IntegerLiteral")]


def fn_decl(docs, name, with_body=True):
    for d in docs:
        if d.get("kind") in ("FunctionDecl", "CXXMethodDecl") and d.get("name") == name:
            if not with_body or any(c.get("kind") == "CompoundStmt" for c in d.get("inner", [])):
                return d
    raise Unsupported("function %s not found" % name)


def gen_consts():
    out = [HEADER % "lib/primes.cpp (PRIMES), lib/fft/primes-fft.h (MAX_DFT_SIZE), lib/fft/fft.cpp (cache bypass sets), CMakeLists.txt (cache size)",
           "import DspVerif.Scalar\nnamespace Dsp\nnamespace Gen\n"]
    # PRIMES table
    docs = clang_ast('#include "primes.cpp"\n', "PRIMES")
    vd = [d for d in docs if d.get("kind") == "VarDecl" and d.get("name") == "PRIMES"]
    if len(vd) != 1:
        raise Unsupported("PRIMES table not found")
    tbl = int_literals([c for c in vd[0]["inner"] if c.get("kind") == "InitListExpr"][0])
    out.append("/-- `PRIMES` of lib/primes.cpp -/\ndef primesTable : List Nat := %s\n" % str(tbl).replace(" ", ""))
    # MAX_DFT_SIZE
    docs = clang_ast('#include "fft/primes-fft.h"\n', "MAX_DFT_SIZE")
    vd = [d for d in docs if d.get("kind") == "VarDecl" and d.get("name") == "MAX_DFT_SIZE"]
    if len(vd) != 1:
        raise Unsupported("MAX_DFT_SIZE not found")
    out.append("/-- `MAX_DFT_SIZE`: boundary for calculating a prime-length DFT directly instead of by CZT -/\ndef maxDftSize : Nat := %d\n" % int_literals(vd[0])[0])
    # bypass guards of the two plan factories (first `if` of the function)
    for fname, lname in (("create_fft_plan", "bypassC"), ("create_rfft_plan", "bypassR")):
        docs = clang_ast('#define DSPLIB_FFT_CACHE_SIZE 4\n#include "fft/fft.cpp"\n', fname)
        f = fn_decl(docs, fname)
        first = [c for c in body_of(f)["inner"]][0]
        if first.get("kind") != "IfStmt" or not Tr().ends(first["inner"][1]):
            raise Unsupported("%s: does not start with the small-size bypass" % fname)
        cond = Tr().e(first["inner"][0])
        out.append("/-- lengths for which `%s` bypasses the cache -/\ndef %s (n : Int) : Prop := %s\ninstance (n : Int) : Decidable (%s n) := by unfold %s; infer_instance\n" % (fname, lname, cond, lname, lname))
    # default cache size
    cm = open(os.path.join(REPO, "CMakeLists.txt")).read()
    m = re.search(r'set\(DSPLIB_FFT_CACHE_SIZE\s+"(\d+)"', cm)
    if not m:
        raise Unsupported("DSPLIB_FFT_CACHE_SIZE default not found in CMakeLists.txt")
    out.append("/-- default of the CMake option `DSPLIB_FFT_CACHE_SIZE` -/\ndef fftCacheSizeDefault : Nat := %s\n" % m.group(1))
    out.append("end Gen\nend Dsp\n")
    return "\n".join(out)


# ------------------------------------------------------------------------------------------
# symbolic execution of straight-line kernels over small fixed arrays (small-fft.h, _dft_n3)


def dyadic(f):
    """exact Lean term for a float that is k/2^j with small j, else None"""
    for j in range(0, 12):
        v = f * (1 << j)
        if v == int(v) and abs(v) < 1e9:
            k = int(v)
            if j == 0:
                return "(Fn.ofInt (%d : Int))" % k
            return "((Fn.ofInt (%d : Int)) / (Fn.ofInt (%d : Int)))" % (k, 1 << j)
    return None


class SymExec:
    """cells: (array, index) -> ('cx', expr) | ('fields', re, im) | ('real', expr)"""

    def __init__(self, fname, in_name, in_kind, out_name, callee_map):
        self.fname = fname
        self.cells = {}
        self.sizes = {}
        self.kinds = {}           # array name -> 'cx' | 'real'
        self.scalars = {}         # local scalar name -> lean expr
        self.consts = {}          # loop variables -> int
        self.lines = []
        self.lits = []            # distinct non-dyadic literal magnitudes (as repr strings)
        self.in_name, self.in_kind, self.out_name = in_name, in_kind, out_name
        self.out_off = 0
        self.callee_map = callee_map
        self.fresh = 0
        self.kinds[in_name] = in_kind
        self.kinds[out_name] = "cx"

    def lit(self, v):
        f = float(v)
        d = dyadic(f)
        if d is not None:
            return d
        key = repr(abs(f))
        if key not in self.lits:
            self.lits.append(key)
        name = "c%d" % self.lits.index(key)
        return name if f > 0 else "(-%s)" % name

    def let(self, base, ty, expr):
        name = base
        k = 0
        while any(l.startswith("let %s " % name) for l in self.lines):
            k += 1
            name = "%s_%d" % (base, k)
        self.lines.append("let %s : %s := %s" % (name, ty, expr))
        return name

    # ---- integer constant evaluation (indices, loop counters)
    def cint(self, n):
        k = n.get("kind")
        if k == "IntegerLiteral":
            return int(n["value"])
        if k in ("ImplicitCastExpr", "ParenExpr"):
            return self.cint(n["inner"][0])
        if k == "DeclRefExpr":
            nm = n["referencedDecl"]["name"]
            if nm in self.consts:
                return self.consts[nm]
        if k == "BinaryOperator" and n["opcode"] in "+-*":
            a, b = self.cint(n["inner"][0]), self.cint(n["inner"][1])
            return {"+": a + b, "-": a - b, "*": a * b}[n["opcode"]]
        raise Unsupported("non-constant index in kernel %s (%s)" % (self.fname, k))

    # ---- lvalues
    def lval(self, n):
        """returns (array, index, field|None)"""
        k = n.get("kind")
        if k in ("ImplicitCastExpr", "ParenExpr"):
            return self.lval(n["inner"][0])
        if k == "MemberExpr":
            a, i, f = self.lval(n["inner"][0])
            if f is not None:
                raise Unsupported("nested member")
            return a, i, n["name"]
        if k == "ArraySubscriptExpr":
            base = find_all(n["inner"][0], lambda x: x.get("kind") == "DeclRefExpr")[0]["referencedDecl"]["name"]
            return base, self.cint(n["inner"][1]), None
        if k == "UnaryOperator" and n["opcode"] == "*":
            inner = n["inner"][0]
            if inner.get("kind") == "UnaryOperator" and inner["opcode"] == "++" and inner.get("isPostfix"):
                base = find_all(inner, lambda x: x.get("kind") == "DeclRefExpr")[0]["referencedDecl"]["name"]
                if base != self.out_name:
                    raise Unsupported("pointer increment on %s" % base)
                i = self.out_off
                self.out_off += 1
                return base, i, None
        raise Unsupported("lvalue kind %s in kernel %s" % (k, self.fname))

    def read(self, a, i, f):
        if a == self.in_name:
            base = "(%s %d)" % (a, i)
            if self.in_kind == "real":
                return base
            return base if f is None else "%s.%s" % (base, f)
        c = self.cells.get((a, i))
        if c is None:
            if a in self.sizes or a == self.out_name:
                c = ("fields", "(Fn.ofInt (0 : Int))", "(Fn.ofInt (0 : Int))") if self.kinds.get(a) == "cx" else ("real", "(Fn.ofInt (0 : Int))")
            else:
                raise Unsupported("read of unknown array %s" % a)
        if c[0] == "real":
            return c[1]
        if c[0] == "cx":
            return c[1] if f is None else "%s.%s" % (c[1], f)
        if f is None:
            return "(Cx.mk %s %s)" % (c[1], c[2])
        return c[1] if f == "re" else c[2]

    def write(self, a, i, f, expr):
        kind = self.kinds.get(a)
        if kind is None:
            raise Unsupported("write to unknown array %s" % a)
        if kind == "real":
            nm = self.let("%s_%d" % (a, i), "α", expr)
            self.cells[(a, i)] = ("real", nm)
            return
        if f is None:
            nm = self.let("%s_%d" % (a, i), "Cx α", expr)
            self.cells[(a, i)] = ("cx", nm)
            return
        nm = self.let("%s_%d_%s" % (a, i, f), "α", expr)
        cur = self.cells.get((a, i))
        if cur is None or cur[0] == "cx":
            base = cur[1] if cur else None
            re_ = ("%s.re" % base) if base else "(Fn.ofInt (0 : Int))"
            im_ = ("%s.im" % base) if base else "(Fn.ofInt (0 : Int))"
            cur = ("fields", re_, im_)
        self.cells[(a, i)] = ("fields", nm, cur[2]) if f == "re" else ("fields", cur[1], nm)

    # ---- expressions
    def e(self, n):
        k = n.get("kind")
        if k in ("ImplicitCastExpr", "ParenExpr", "ExprWithCleanups", "MaterializeTemporaryExpr", "CXXBindTemporaryExpr",
                 "CXXFunctionalCastExpr", "ConstantExpr"):
            ck = n.get("castKind")
            if ck == "IntegralToFloating":
                return "(Fn.ofInt (%d : Int))" % self.cint(n["inner"][0])
            return self.e(n["inner"][0])
        if k == "FloatingLiteral":
            return self.lit(n["value"])
        if k == "IntegerLiteral":
            return "(Fn.ofInt (%s : Int))" % n["value"]
        if k in ("ArraySubscriptExpr", "MemberExpr") or (k == "UnaryOperator" and n["opcode"] == "*"):
            return self.read(*self.lval(n))
        if k == "DeclRefExpr":
            nm = n["referencedDecl"]["name"]
            if nm in self.scalars:
                return self.scalars[nm]
            raise Unsupported("reference to %s in kernel" % nm)
        if k == "UnaryOperator" and n["opcode"] == "-":
            return "(-%s)" % self.e(n["inner"][0])
        if k == "UnaryOperator" and n["opcode"] == "+":
            return self.e(n["inner"][0])
        if k == "BinaryOperator" and n["opcode"] in ("+", "-", "*", "/"):
            return "(%s %s %s)" % (self.e(n["inner"][0]), n["opcode"], self.e(n["inner"][1]))
        if k == "CXXOperatorCallExpr":
            cal = find_all(n["inner"][0], lambda x: x.get("kind") == "DeclRefExpr")[0]["referencedDecl"]
            op = cal["name"].replace("operator", "")
            args = n["inner"][1:]
            if op in ("+", "-", "*", "/") and len(args) == 2:
                ka, kb = kind_of_type(qt(args[0])), kind_of_type(qt(args[1]))
                a, b = self.e(args[0]), self.e(args[1])
                if ka == "cx" and kb == "cx":
                    return "(%s %s %s)" % (a, op, b)
                if ka == "cx" and kb == "real":
                    return "(Cx.%s %s %s)" % ({"+": "addr", "-": "subr", "*": "mulr", "/": "divr"}[op], a, b)
                if ka == "real" and kb == "cx":
                    return "(Cx.%s %s %s)" % ({"+": "radd", "-": "rsub", "*": "rmul", "/": "rdiv"}[op], a, b)
            if op == "-" and len(args) == 1:
                return "(-%s)" % self.e(args[0])
            raise Unsupported("operator %s in kernel" % op)
        if k in ("CXXTemporaryObjectExpr", "CXXConstructExpr", "InitListExpr"):
            args = [a for a in n.get("inner", []) if a.get("kind") != "CXXDefaultArgExpr"]
            if kind_of_type(qt(n)) == "cx":
                if len(args) == 2:
                    return "(Cx.mk %s %s)" % (self.e(args[0]), self.e(args[1]))
                if len(args) == 1:
                    if kind_of_type(qt(args[0])) == "cx":
                        return self.e(args[0])
                    return "(Cx.mk %s (Fn.ofInt (0 : Int)))" % self.e(args[0])
        raise Unsupported("expression kind %s in kernel %s" % (k, self.fname))

    # ---- statements
    def stmt(self, s):
        k = s.get("kind")
        if k == "CompoundStmt":
            for c in s.get("inner", []):
                self.stmt(c)
            return
        if k in ("NullStmt",):
            return
        if k == "ExprWithCleanups":
            return self.stmt(s["inner"][0])
        if k == "DeclStmt":
            for d in s["inner"]:
                t = qt(d)
                m = re.match(r"(?:const )?(dsplib::cmplx_t|cmplx_t|dsplib::real_t|real_t|double)\[(\d+)\]", t)
                if m:
                    self.sizes[d["name"]] = int(m.group(2))
                    self.kinds[d["name"]] = "cx" if "cmplx" in m.group(1) else "real"
                    continue
                kt = kind_of_type(t)
                init = [c for c in d.get("inner", [])]
                if kt == "real" and init:
                    self.scalars[d["name"]] = self.let(d["name"], "α", self.e(init[0]))
                    continue
                if kt == "int" and init:
                    self.consts[d["name"]] = self.cint(init[0])
                    continue
                raise Unsupported("declaration of %s : %s in kernel" % (d.get("name"), t))
            return
        if k == "BinaryOperator" and s["opcode"] == "=":
            a, i, f = self.lval(s["inner"][0])
            self.write(a, i, f, self.e(s["inner"][1]))
            return
        if k == "CXXOperatorCallExpr":
            cal = find_all(s["inner"][0], lambda x: x.get("kind") == "DeclRefExpr")[0]["referencedDecl"]
            if cal["name"] == "operator=":
                rhs = self.e(s["inner"][2])    # evaluate before taking the (possibly post-incremented) target
                a, i, f = self.lval(s["inner"][1])
                self.write(a, i, f, rhs)
                return
        if k == "CallExpr":
            cal = find_all(s["inner"][0], lambda x: x.get("kind") == "DeclRefExpr")[0]["referencedDecl"]
            key = (cal["name"], "real" if re.search(r"\(const (dsplib::)?real_t", cal.get("type", {}).get("qualType", "")) or
                   "const double *" in cal.get("type", {}).get("qualType", "") else "cx")
            if key not in self.callee_map:
                raise Unsupported("call to %s in kernel" % (key,))
            lean_fn, n_in = self.callee_map[key]
            src = find_all(s["inner"][1], lambda x: x.get("kind") == "DeclRefExpr")[0]["referencedDecl"]["name"]
            dst = find_all(s["inner"][2], lambda x: x.get("kind") == "DeclRefExpr")[0]["referencedDecl"]["name"]
            reads = [self.read(src, i, None) for i in range(n_in)]
            lam = "fun i => " + " ".join("if i = %d then %s else" % (i, r) for i, r in enumerate(reads[:-1])) + " " + reads[-1]
            nm = self.let(dst, "Nat → Cx α", "%s (%s)" % (lean_fn, lam))
            for i in range(n_in):
                self.cells[(dst, i)] = ("cx", "(%s %d)" % (nm, i))
            return
        if k == "ForStmt":
            init, _, cond, inc, body = s["inner"]
            vd = init["inner"][0]
            var = vd["name"]
            self.consts[var] = self.cint(vd["inner"][0])
            if not (cond.get("kind") == "BinaryOperator" and cond["opcode"] == "<"):
                raise Unsupported("loop condition in kernel")
            hi = self.cint(cond["inner"][1])
            if not (inc.get("kind") == "UnaryOperator" and inc["opcode"] == "++"):
                raise Unsupported("loop increment in kernel")
            guard = 0
            while self.consts[var] < hi:
                self.stmt(body)
                self.consts[var] += 1
                guard += 1
                if guard > 64:
                    raise Unsupported("loop too long to unroll")
            del self.consts[var]
            return
        raise Unsupported("statement kind %s in kernel %s" % (k, self.fname))


def gen_kernel(method, lean_name, in_kind, n_out, callee_map):
    ps = params_of(method)
    se = SymExec(method["name"], ps[0]["name"], in_kind, ps[1]["name"], callee_map)
    se.stmt(body_of(method))
    outs = [se.read(ps[1]["name"], i, None) for i in range(n_out)]
    res = "fun k => " + " ".join("if k = %d then %s else" % (i, r) for i, r in enumerate(outs[:-1])) + " " + outs[-1]
    lit_params = "".join(" (c%d : α)" % i for i in range(len(se.lits)))
    in_ty = "Nat → Cx α" if in_kind == "cx" else "Nat → α"
    body = "\n".join("  " + l for l in se.lines + [res])
    text = "def %s%s (%s : %s) : Nat → Cx α :=\n%s\n" % (lean_name, lit_params, ps[0]["name"], in_ty, body)
    return text, se.lits


def gen_smallfft():
    out = [HEADER % "lib/fft/small-fft.h (_fft_n2/_n4/_n8, complex and real input), lib/fft/primes-fft.h (_dft_n3)",
           "import DspVerif.Gen.Cmplx\nnamespace Dsp\nnamespace Gen\n", SCALAR_VARS]
    tu = '#include "fft/small-fft.h"\n#include "fft/primes-fft.h"\n'
    recs = {}
    for cls in ("SmallFftPow2C", "SmallFftPow2R", "PrimesFftC"):
        recs[cls] = record(clang_ast(tu, cls), cls)

    def method(cls, name):
        ms = [m for m in recs[cls]["inner"] if m.get("kind") == "CXXMethodDecl" and m.get("name") == name and
              any(c.get("kind") == "CompoundStmt" for c in m.get("inner", []))]
        if len(ms) != 1:
            raise Unsupported("%s::%s not found" % (cls, name))
        return ms[0]

    all_lits = {}
    cmap = {}
    plan = [("SmallFftPow2C", "_fft_n2", "fft2", "cx", 2), ("SmallFftPow2C", "_fft_n4", "fft4", "cx", 4),
            ("SmallFftPow2C", "_fft_n8", "fft8", "cx", 8), ("SmallFftPow2R", "_fft_n2", "rfft2", "real", 2),
            ("SmallFftPow2R", "_fft_n4", "rfft4", "real", 4), ("SmallFftPow2R", "_fft_n8", "rfft8", "real", 8),
            ("PrimesFftC", "_dft_n3", "dft3", "cx", 3)]
    for cls, mname, lname, kind, n in plan:
        text, lits = gen_kernel(method(cls, mname), lname, kind, n, cmap)
        if lname in ("fft4", "rfft4") and lits:
            raise Unsupported("%s uses a non-dyadic literal" % lname)
        out.append("/-- `%s::%s` (symbolically executed; locals are `let`s in program order) -/\n%s" % (cls, mname, text))
        all_lits[lname] = lits
        cmap[(mname, kind)] = (lname, n)
    for lname, lits in all_lits.items():
        for i, l in enumerate(lits):
            out.append("/-- literal `c%d` of `%s` as written in the source -/\ndef %s_c%d [OfScientific α] : α := (%s : α)\n/-- … and as an exact rational (numerator, denominator) -/\ndef %s_c%d_rat : Int × Nat := (%s, %s)\n" % (
                i, lname, lname, i, l, lname, i, *rat_of(l)))
    out.append("end Gen\nend Dsp\n")
    return "\n".join(out)


def rat_of(lit):
    from fractions import Fraction
    fr = Fraction(lit)       # exact decimal value of the source text
    return str(fr.numerator), str(fr.denominator)


# ------------------------------------------------------------------------------------------
# unit: Dynamics  (dB conversions of lib/math.cpp, gain computers of the compressor and limiter)


def gen_dynamics():
    out = [HEADER % "lib/math.cpp (mag2db, db2mag, pow2db, db2pow), include/dsplib/math.h (abs2(real_t)), "
                    "include/dsplib/audio/compressor.h, limiter.h (_compute_gain)",
           "import DspVerif.Scalar\nnamespace Dsp\nnamespace Gen\n", SCALAR_VARS]
    tu = "#include <dsplib.h>\n"
    # scalar helpers
    docs = clang_ast('#include "math.cpp"\n', "dsplib::")

    def free_fn(name, first_param_kind):
        for d in docs:
            if d.get("kind") == "FunctionDecl" and d.get("name") == name and any(c.get("kind") == "CompoundStmt" for c in d.get("inner", [])):
                ps = params_of(d)
                if len(ps) == 1 and kind_of_type(qt(ps[0])) == first_param_kind:
                    return d
        raise Unsupported("%s(%s) not found" % (name, first_param_kind))

    for name in ("mag2db", "db2mag", "pow2db", "db2pow"):
        f = free_fn(name, "real")
        tr = Tr()
        body = tr.stmts([body_of(f)], "?", False)
        out.append("/-- `%s(real_t)` of lib/math.cpp -/\ndef %s (%s : α) : α :=\n%s\n" % (name, name, params_of(f)[0]["name"], indent(body)))
    f = free_fn("abs2", "real")
    out.append("/-- `abs2(const real_t&)` of include/dsplib/math.h -/\ndef abs2r (%s : α) : α :=\n%s\n" % (
        params_of(f)[0]["name"], indent(Tr().stmts([body_of(f)], "?", False))))
    calls = {"mag2db": lambda a, n: "(mag2db %s)" % a[0], "db2mag": lambda a, n: "(db2mag %s)" % a[0],
             "abs2": lambda a, n: "(abs2r %s)" % a[0], "eps": lambda a, n: "eps"}
    for cls, lname, fields in (("Compressor", "compressorGain", [("T_", "T", "α"), ("R_", "R", "Int"), ("W_", "W", "α")]),
                               ("Limiter", "limiterGain", [("T_", "T", "α"), ("W_", "W", "α")])):
        rec = record(clang_ast(tu, cls), cls)
        ms = [m for m in rec["inner"] if m.get("kind") == "CXXMethodDecl" and m.get("name") == "_compute_gain"]
        if len(ms) != 1:
            raise Unsupported("%s::_compute_gain not found" % cls)
        # field types must be what the signature below says (this is how `int R_` is exposed)
        ftypes = {c["name"]: kind_of_type(qt(c)) for c in rec["inner"] if c.get("kind") == "FieldDecl"}
        for cf, lf, lt in fields:
            want = "int" if lt == "Int" else "real"
            if ftypes.get(cf) != want:
                raise Unsupported("%s::%s has type kind %s, expected %s" % (cls, cf, ftypes.get(cf), want))
        tr = Tr(this_name="p", fields={cf: lf for cf, lf, _ in fields}, user_calls=calls)
        body = tr.stmts([body_of(ms[0])], "?", False)
        out.append("/-- parameters of `%s` read by its gain computer -/\nstructure %sParams (α : Type) where\n%s\n" % (
            cls, cls, "\n".join("  %s : %s" % (lf, lt) for _, lf, lt in fields)))
        out.append("/-- `%s::_compute_gain(real_t x)`: static gain in dB for input sample `x` (`eps` = `eps()`) -/\n"
                   "def %s (eps : α) (p : %sParams α) (%s : α) : α :=\n%s\n" % (cls, lname, cls, params_of(ms[0])[0]["name"], indent(body)))
    out.append("end Gen\nend Dsp\n")
    return "\n".join(out)


# ------------------------------------------------------------------------------------------
# unit: Awgn  (noise deviation formulas of lib/awgn.cpp)


def gen_awgn():
    out = [HEADER % "lib/awgn.cpp (per-component noise deviation of awgn for real and complex input)",
           "import DspVerif.Scalar\nnamespace Dsp\nnamespace Gen\n", SCALAR_VARS]
    docs = clang_ast('#include "awgn.cpp"\n', "dsplib::awgn")
    fns = [d for d in docs if d.get("kind") == "FunctionDecl" and d.get("name") == "awgn" and
           any(c.get("kind") == "CompoundStmt" for c in d.get("inner", []))]
    seen = set()
    for f in fns:
        ps = params_of(f)
        kind = "C" if "cmplx" in qt(ps[0]) or "base_array<dsplib::cmplx_t>" in qt(ps[0]) or "arr_cmplx" in qt(ps[0]) else "R"
        if kind in seen:
            continue
        seen.add(kind)
        # statements up to and including `real_t stddev = <expr of rms(arr), snr>;` (earlier local declarations become lets)
        stmts = body_of(f)["inner"]
        idx = None
        for i, st in enumerate(stmts):
            if st.get("kind") == "DeclStmt" and any(d.get("name") == "stddev" for d in st.get("inner", [])):
                idx = i
                break
        if idx is None:
            raise Unsupported("awgn(%s): no `stddev` declaration found" % kind)
        tr = Tr(user_calls={"rms": lambda a, n: "rmsArr"})
        body = tr.stmts(stmts[:idx + 1], "stddev", False)
        out.append("/-- `awgn(const arr_%s&, real_t snr)`: deviation of each noise component, given `rmsArr = rms(arr)` -/\n"
                   "def awgnSigma%s (rmsArr %s : α) : α :=\n%s\n" % ("cmplx" if kind == "C" else "real", kind, ps[1]["name"], indent(body)))
    if seen != {"R", "C"}:
        raise Unsupported("awgn overloads found: %s" % sorted(seen))
    out.append("end Gen\nend Dsp\n")
    return "\n".join(out)


# ------------------------------------------------------------------------------------------
# Steps: per-sample LOOP BODIES of the stateful processors as Lean step functions
#
#   for (int i = 0; i < n; ++i) { BODY }        -->   def step (p : Params) (s : State) (x_i : T) : State × out…
#
# members of the object (`this`, or a reference parameter such as `AgcImpl& agc`) that BODY (and the member
# functions it calls) only reads form the Params structure, those it writes the State structure; `x[i]` is the
# input sample, `out[i] = …` / `res.gain[i] = …` are the outputs.  Everything outside the subset raises
# Unsupported (the GEN obligation then fails: that is the intended alarm, never a guess).

LEAN_KEYWORDS = {"end", "at", "from", "in", "do", "then", "else", "if", "fun", "let", "have", "show", "with", "match",
                 "open", "by", "where", "def", "theorem", "instance", "class", "structure", "namespace", "section",
                 "variable", "universe", "import", "for", "return", "mut", "try", "catch", "Type", "Prop", "Sort", "this"}

JOIN = "\x00JOIN\x00"
FALLOFF = "\x00FALLOFF\x00"


def unwrap(n):
    """strip value-preserving wrappers"""
    while n.get("kind") in ("ParenExpr", "ExprWithCleanups", "MaterializeTemporaryExpr", "CXXBindTemporaryExpr", "ConstantExpr") or \
            (n.get("kind") == "ImplicitCastExpr" and n.get("castKind") in ("LValueToRValue", "NoOp", "FunctionToPointerDecay",
                                                                           "UncheckedDerivedToBase", "DerivedToBase")):
        n = n["inner"][0]
    return n


def has_exit(n):
    return bool(find_all(n, lambda x: x.get("kind") in ("ReturnStmt", "CXXThrowExpr", "BreakStmt", "ContinueStmt", "GotoStmt")))


def canon_type(t):
    """C++ type as written in the AST, canonicalised for the member-type tables"""
    t = t.replace("dsplib::", "")
    t = re.sub(r"\s+", " ", t).strip()
    return t


ARRAY_REAL_T = {"base_array<double>", "arr_real", "base_array<real_t>"}
ARRAY_CX_T = {"base_array<cmplx_t>", "arr_cmplx"}
# integer types with their width (bits) and signedness: emitted as comments and CHECKED against the unit's table
INT_WIDTH = {"int": (32, True), "unsigned int": (32, False), "uint32_t": (32, False), "int32_t": (32, True),
             "long": (64, True), "unsigned long": (64, False), "uint64_t": (64, False), "int64_t": (64, True),
             "size_t": (64, False), "short": (16, True), "unsigned short": (16, False), "uint16_t": (16, False),
             "long long": (64, True), "unsigned long long": (64, False)}


def lean_type_of(cxx, subobj_types=None):
    """Lean type of a data member / local of C++ type `cxx` (canonical); None = not representable"""
    t = canon_type(strip_type(cxx))
    k = kind_of_type(t)
    if k == "real":
        return "α"
    if k == "int":
        return "Int"
    if k == "cx":
        return "Cx α"
    if t in ARRAY_REAL_T:
        return "Array α"
    if t in ARRAY_CX_T:
        return "Array (Cx α)"
    if subobj_types and t in subobj_types:
        return subobj_types[t]
    return None


class StepTr(Tr):
    """statement / expression translator for a member function or a loop body of a stateful object.

    obj        : None (= `this`) or the name of the reference parameter that holds the object (`agc`)
    members    : C++ member name -> (lean field, lean type, C++ type)
    state      : set of C++ member names placed in the State structure `s` (all others: Params `p`);
                 `single` = True puts every member into one structure `self` (sub-objects such as MAFilter)
    methods    : member function name -> dict(lean=…, effect=bool, extern=callable|None): calls `this->m(args)`
    subobjs    : member name -> dict(ops={method name: lean step function}): calls `obj.member(args)` /
                 `obj.member.process(args)` on a member that is itself a generated state machine
    loop       : dict(var=loop variable, input=array parameter, sample=lean name of x[i],
                      outputs={C++ array name: lean cell name}) or None
    """

    def __init__(self, obj=None, members=None, state=None, single=False, methods=None, subobjs=None, loop=None,
                 user_calls=None, effect=True):
        super().__init__(this_name="self", user_calls=user_calls or {})
        self.obj = obj
        self.members = members or {}
        self.state = set(state or ())
        self.single = single
        self.methods = methods or {}
        self.subobjs = subobjs or {}
        self.loop = loop
        self.effect = effect           # does the function being translated write the state (returns (s, v))?
        self.pre = []                  # hoisted lets of effectful calls, flushed in front of the statement
        self.reads = set()             # members read
        self.writes = set()            # members written
        self.frames = []               # join frames: dict(decl=set, assigned=list)
        self.bound = {"self"} if single else {"p", "s"}   # lean names in scope
        self.cond_depth = 0
        self.n_effects = 0
        self.uses_eps = False
        self.cells_written = []
        self.in_loop = loop is not None

    # ---------------------------------------------------------------- names
    def var(self, name):
        v = super().var(name)
        if v in LEAN_KEYWORDS or v in ("p", "s", "self", "eps", "α"):
            v = v + "'"
        return v

    def svar(self):
        return "self" if self.single else "s"

    def is_obj(self, n):
        n = unwrap(n)
        if n.get("kind") == "UnaryOperator" and n.get("opcode") == "*":
            n = unwrap(n["inner"][0])
        if self.obj is None:
            return n.get("kind") == "CXXThisExpr"
        return n.get("kind") == "DeclRefExpr" and n.get("referencedDecl", {}).get("name") == self.obj and \
            n["referencedDecl"].get("kind") == "ParmVarDecl"

    def member_of_obj(self, n):
        """C++ member name if n is `obj.member` / `this->member`, else None"""
        n = unwrap(n)
        if n.get("kind") == "MemberExpr" and self.is_obj(n["inner"][0]):
            return n["name"]
        return None

    def mref(self, name, write=False):
        if name not in self.members:
            raise Unsupported("member %s is not in the unit's member table" % name)
        (self.writes if write else self.reads).add(name)
        f = self.members[name][0]
        if self.single:
            return "self.%s" % f
        return ("s.%s" if name in self.state else "p.%s") % f

    # ---------------------------------------------------------------- expressions
    def e_CXXThisExpr(self, n):
        raise Unsupported("`this` used as a value")

    def e_MemberExpr(self, n):
        m = self.member_of_obj(n)
        if m is not None:
            return self.mref(m)
        base = unwrap(n["inner"][0])
        if base.get("kind") == "DeclRefExpr" and kind_of_type(qt(base)) == "cx" and n["name"] in ("re", "im"):
            return "%s.%s" % (self.e(base), n["name"])
        raise Unsupported("member access %s on %s" % (n.get("name"), base.get("kind")))

    def e_DeclRefExpr(self, n):
        ref = n.get("referencedDecl", {})
        name = ref.get("name")
        if self.loop and name == self.loop["var"]:
            raise Unsupported("loop index `%s` used other than as x[%s] / out[%s]" % (name, name, name))
        if self.obj is not None and name == self.obj:
            raise Unsupported("object parameter `%s` used as a value" % name)
        if ref.get("kind") in ("ParmVarDecl", "VarDecl"):
            v = self.var(name)
            if v not in self.bound:
                raise Unsupported("reference to `%s`, which is not a local of the translated body" % name)
            return v
        raise Unsupported("DeclRefExpr to %s %s" % (ref.get("kind"), name))

    def e_BinaryOperator(self, n):
        op = n["opcode"]
        if op in ("&&", "||"):
            self.cond_depth += 1
            try:
                return super().e_BinaryOperator(n)
            finally:
                self.cond_depth -= 1
        if op in ("==", "!="):
            l, r = n["inner"]
            kl, kr = kind_of_type(qt(l)), kind_of_type(qt(r))
            if kl == "real" and kr == "real":
                # IEEE `==` on reals: a ≤ b ∧ b ≤ a (false on NaN, true for -0 == +0; no DecidableEq on the scalar)
                a, b = self.e(l), self.e(r)
                t = "(%s ≤ %s ∧ %s ≤ %s)" % (a, b, b, a)
                return t if op == "==" else "(¬ %s)" % t
            if not (kl == "int" and kr == "int"):
                raise Unsupported("%s on operands of type %s / %s" % (op, qt(l), qt(r)))
        if op == ",":
            raise Unsupported("comma operator")
        if op in ("=",) or op.endswith("=") and op not in ("<=", ">=", "==", "!="):
            raise Unsupported("assignment used as an expression")
        return super().e_BinaryOperator(n)

    def e_CompoundAssignOperator(self, n):
        raise Unsupported("compound assignment used as an expression")

    def e_UnaryOperator(self, n):
        if n["opcode"] in ("++", "--"):
            raise Unsupported("increment used as an expression")
        if n["opcode"] in ("*", "&"):
            raise Unsupported("pointer operation %s" % n["opcode"])
        return super().e_UnaryOperator(n)

    def e_ConditionalOperator(self, n):
        self.cond_depth += 1
        try:
            return super().e_ConditionalOperator(n)
        finally:
            self.cond_depth -= 1

    def cell(self, n):
        """classify `a[idx]` (CXXOperatorCallExpr operator[]): ('sample',) | ('out', cell) | ('member', name, idx) | None"""
        if n.get("kind") != "CXXOperatorCallExpr" or self.callee_name(n) != "operator[]":
            return None
        callee_t = qt(unwrap(n["inner"][0]))
        if not re.search(r"\((int|size_t|unsigned long)\)", callee_t):
            raise Unsupported("operator[] overload %s" % callee_t)
        base, idx = unwrap(n["inner"][1]), unwrap(n["inner"][2])
        is_loop_idx = (self.loop is not None and idx.get("kind") == "DeclRefExpr" and
                       idx["referencedDecl"].get("name") == self.loop["var"])
        m = self.member_of_obj(base)
        if m is not None:
            lt = self.members.get(m, (None, None, None))[1]
            if lt not in ("Array α", "Array (Cx α)"):
                raise Unsupported("subscript on member %s of type %s" % (m, self.members.get(m, (0, 0, "?"))[2]))
            return ("member", m, n["inner"][2])
        if not is_loop_idx:
            raise Unsupported("subscript of a non-member array with an index other than the loop variable")
        if base.get("kind") == "DeclRefExpr" and base["referencedDecl"].get("kind") == "ParmVarDecl":
            if base["referencedDecl"]["name"] != self.loop["input"]:
                raise Unsupported("subscript on parameter %s" % base["referencedDecl"]["name"])
            return ("sample",)
        name = None
        if base.get("kind") == "DeclRefExpr" and base["referencedDecl"].get("kind") == "VarDecl":
            name = base["referencedDecl"]["name"]
        elif base.get("kind") == "MemberExpr" and unwrap(base["inner"][0]).get("kind") == "DeclRefExpr" and \
                unwrap(base["inner"][0])["referencedDecl"].get("kind") == "VarDecl":
            name = base["name"]
        if name is None or name not in self.loop["outputs"]:
            raise Unsupported("subscript on %s, which is not an output array of the loop" % (name or base.get("kind")))
        return ("out", self.loop["outputs"][name])

    def arr_default(self, lt):
        return "(Fn.ofInt (0 : Int))" if lt == "Array α" else "(Cx.mk (Fn.ofInt (0 : Int)) (Fn.ofInt (0 : Int)))"

    def e_CXXOperatorCallExpr(self, n):
        name = self.callee_name(n)
        if name == "operator[]":
            c = self.cell(n)
            if c[0] == "sample":
                return self.loop["sample"]
            if c[0] == "out":
                if c[1] not in self.bound:
                    raise Unsupported("output cell %s read before it is written" % c[1])
                return c[1]
            lt = self.members[c[1]][1]
            return "(arrGet %s %s %s)" % (self.arr_default(lt), self.mref(c[1]), self.e(c[2]))
        if name == "operator()":
            m = self.member_of_obj(n["inner"][1])
            if m is not None and m in self.subobjs:
                return self.subobj_call(m, "operator()", n["inner"][2:])
            raise Unsupported("operator() on %s" % unwrap(n["inner"][1]).get("kind"))
        op = name.replace("operator", "")
        args = n["inner"][1:]
        if op in ("+", "-", "*", "/") and len(args) == 2:
            ka, kb = kind_of_type(qt(args[0])), kind_of_type(qt(args[1]))
            a, b = self.e(args[0]), self.e(args[1])
            if ka == "cx" and kb == "cx":
                return "(%s %s %s)" % (a, op, b)
            if ka == "cx" and kb == "real":
                return "(Cx.%s %s %s)" % ({"+": "addr", "-": "subr", "*": "mulr", "/": "divr"}[op], a, b)
            if ka == "real" and kb == "cx":
                return "(Cx.%s %s %s)" % ({"+": "radd", "-": "rsub", "*": "rmul", "/": "rdiv"}[op], a, b)
            raise Unsupported("operator%s on %s, %s" % (op, qt(args[0]), qt(args[1])))
        if op == "-" and len(args) == 1 and kind_of_type(qt(args[0])) == "cx":
            return "(-%s)" % self.e(args[0])
        raise Unsupported("operator call %s/%d" % (name, len(args)))

    def hoist(self, text):
        """an effectful call: evaluated exactly once, in front of the statement it occurs in"""
        if self.cond_depth:
            raise Unsupported("state-changing call inside a conditionally evaluated expression")
        self.n_effects += 1
        if self.n_effects > 1:
            raise Unsupported("more than one state-changing call in one statement (evaluation order)")
        return text

    def subobj_call(self, m, meth, arg_nodes):
        so = self.subobjs[m]
        if meth not in so["ops"]:
            raise Unsupported("call of %s on sub-object %s" % (meth, m))
        args = [self.e(a) for a in arg_nodes if a.get("kind") != "CXXDefaultArgExpr"]
        cur = self.mref(m)
        self.mref(m, write=True)
        self.hoist(None)
        r = "r_%s" % self.members[m][0]
        k = 0
        while r in self.bound:
            k += 1
            r = "r_%s_%d" % (self.members[m][0], k)
        self.bound.add(r)
        self.pre.append("let %s := %s %s %s\n" % (r, so["ops"][meth], cur, " ".join(args)))
        self.pre.append(self.set_member(m, "%s.1" % r))
        return "%s.2" % r

    def set_member(self, m, val):
        self.mref(m, write=True)
        self.note_assigned(self.svar())
        return "let %s := { %s with %s := %s }\n" % (self.svar(), self.svar(), self.members[m][0], val)

    def e_CXXMemberCallExpr(self, n):
        me = unwrap(n["inner"][0])
        name = me["name"]
        base = me["inner"][0]
        arg_nodes = [a for a in n["inner"][1:] if a.get("kind") != "CXXDefaultArgExpr"]
        m = self.member_of_obj(base)
        if m is not None and m in self.subobjs:
            return self.subobj_call(m, name, arg_nodes)
        if self.is_obj(base) and name in self.methods:
            md = self.methods[name]
            args = [self.e(a) for a in arg_nodes]
            if md.get("extern"):
                return md["extern"](self, args)
            for f in md.get("reads", ()):
                self.mref(f)
            if not md["effect"]:
                return "(%s p %s)" % (md["lean"], " ".join(args)) if not md.get("reads_state") else \
                    "(%s p s %s)" % (md["lean"], " ".join(args))
            for f in md.get("writes", ()):
                self.mref(f, write=True)
            self.hoist(None)
            r = "r_%s" % md["lean"]
            k = 0
            while r in self.bound:
                k += 1
                r = "r_%s_%d" % (md["lean"], k)
            self.bound.add(r)
            self.pre.append("let %s := %s p s %s\n" % (r, md["lean"], " ".join(args)))
            self.pre.append("let s := %s.1\n" % r)
            self.note_assigned("s")
            return "%s.2" % r
        if name in ("abs2", "conj") and kind_of_type(qt(unwrap(base))) == "cx":
            return "(Cx.%s %s)" % (name, self.e(base))
        raise Unsupported("member call %s" % name)

    # ---------------------------------------------------------------- statements
    def note_assigned(self, v):
        for fr in reversed(self.frames):
            if v in fr["decl"]:
                return
            if v not in fr["assigned"]:
                fr["assigned"].append(v)

    def declare(self, v):
        if self.frames:
            self.frames[-1]["decl"].add(v)
        self.bound.add(v)

    def flush(self):
        t = "".join(self.pre)
        self.pre = []
        self.n_effects = 0
        return t

    def local_type(self, d):
        lt = lean_type_of(qt(d))
        if lt not in ("α", "Int", "Cx α"):
            raise Unsupported("local `%s` of type %s" % (d.get("name"), qt(d)))
        return lt

    def assign(self, lhs, r):
        lhs = unwrap(lhs)
        k = lhs.get("kind")
        if k == "DeclRefExpr" and lhs["referencedDecl"].get("kind") == "VarDecl":
            if self.loop and lhs["referencedDecl"]["name"] == self.loop["var"]:
                raise Unsupported("assignment to the loop variable")
            v = self.var(lhs["referencedDecl"]["name"])
            if v not in self.bound:
                raise Unsupported("assignment to `%s`, which is not a local of the translated body" % v)
            self.note_assigned(v)
            return "let %s := %s\n" % (v, r)
        m = self.member_of_obj(lhs)
        if m is not None:
            if self.members.get(m, (0, "")) [1] not in ("α", "Int", "Cx α"):
                raise Unsupported("assignment to member %s of type %s" % (m, self.members.get(m, (0, 0, "?"))[2]))
            return self.set_member(m, r)
        if k == "CXXOperatorCallExpr":
            c = self.cell(lhs)
            if c is not None and c[0] == "out":
                if self.frames:
                    raise Unsupported("output cell %s written inside a branch" % c[1])
                if c[1] in self.bound:
                    raise Unsupported("output cell %s written twice" % c[1])
                self.bound.add(c[1])
                self.cells_written.append(c[1])
                ct = self.loop.get("cell_types", {}).get(c[1])
                return "let %s%s := %s\n" % (c[1], (" : %s" % ct) if ct else "", r)
            if c is not None and c[0] == "member":
                lt = self.members[c[1]][1]
                cur = self.mref(c[1])
                return self.set_member(c[1], "(arrSet %s %s %s)" % (cur, self.e(c[2]), r))
            if c is not None and c[0] == "sample":
                raise Unsupported("write to the input array")
        raise Unsupported("assignment target %s" % k)

    def stmts(self, lst, final, throws=False):
        if not lst:
            return final
        s, rest = lst[0], lst[1:]
        k = s.get("kind")
        cont = lambda: self.stmts(rest, final)
        if k == "CompoundStmt":
            # (scoping: a declaration inside a nested block shadows until the end of the enclosing list — names are
            #  unique in the translated bodies or the Lean shadowing coincides; nested plain blocks are rare)
            if any(c.get("kind") == "DeclStmt" for c in s.get("inner", [])) and rest:
                raise Unsupported("nested block with declarations")
            return self.stmts(list(s.get("inner", [])) + rest, final)
        if k == "NullStmt":
            return cont()
        if k == "DeclStmt":
            text = ""
            for d in s["inner"]:
                if d.get("kind") != "VarDecl" or "inner" not in d:
                    raise Unsupported("declaration without initialiser")
                if d.get("storageClass") == "static":
                    raise Unsupported("static local %s" % d.get("name"))
                init = [c for c in d["inner"] if c.get("kind") not in ("FullComment",)][0]
                lt = self.local_type(d)
                val = self.e(init)
                v = self.var(d["name"])
                text += self.flush() + "let %s : %s := %s\n" % (v, lt, val)
                self.declare(v)
            return text + cont()
        if k == "ReturnStmt":
            if self.in_loop:
                raise Unsupported("return inside the sample loop")
            if not s.get("inner"):
                return self.svar() if self.effect else "()"
            v = self.e(s["inner"][0])
            pre = self.flush()
            return pre + (("(%s, %s)" % (self.svar(), v)) if self.effect else v)
        if k in ("BreakStmt", "ContinueStmt", "GotoStmt", "CXXThrowExpr", "ForStmt", "WhileStmt", "DoStmt", "SwitchStmt",
                 "CXXForRangeStmt", "CXXTryStmt"):
            raise Unsupported("statement kind %s in a step body" % k)
        if k == "IfStmt":
            parts = s["inner"]
            if s.get("hasInit") or s.get("hasVar") or len(parts) not in (2, 3):
                raise Unsupported("if with init-statement / condition variable")
            cond = self.e(parts[0])
            pre = self.flush()
            then = parts[1]
            els = parts[2] if len(parts) > 2 else None
            if has_exit(s):
                bound0 = set(self.bound)
                t = self.stmts([then] + rest, final) if not self.ends(then) else self.stmts([then], final)
                self.bound = set(bound0)
                if els is not None:
                    e = self.stmts([els] + rest, final) if not self.ends(els) else self.stmts([els], final)
                else:
                    e = cont()
                self.bound = set(bound0)
                return pre + "if %s then\n%s\nelse\n%s" % (cond, indent(t), indent(e))
            # no exit inside: join the branches on the variables they assign
            bound0 = set(self.bound)
            res = []
            for br in (then, els):
                self.frames.append({"decl": set(), "assigned": []})
                txt = self.stmts([br], JOIN) if br is not None else JOIN
                fr = self.frames.pop()
                self.bound = set(bound0)
                res.append((txt, fr["assigned"]))
            vs = []
            for _, a in res:
                for v in a:
                    if v not in vs:
                        vs.append(v)
            if not vs:
                return pre + cont()       # branches without effect (cannot happen for well-formed code; kept exact)
            for v in vs:
                if v not in bound0:
                    raise Unsupported("`%s` is assigned in a branch but not defined before the `if`" % v)
                self.note_assigned(v)
            tup = vs[0] if len(vs) == 1 else "(%s)" % ", ".join(vs)
            t, e = res[0][0].replace(JOIN, tup), res[1][0].replace(JOIN, tup)
            if len(vs) == 1:
                text = "let %s := (if %s then\n%s\n  else\n%s)\n" % (vs[0], cond, indent(t, 4), indent(e, 4))
            else:
                j = "j_%d" % self.fresh_join()
                text = "let %s := (if %s then\n%s\n  else\n%s)\n" % (j, cond, indent(t, 4), indent(e, 4))
                for i, v in enumerate(vs):
                    proj = ".2" * i + (".1" if i < len(vs) - 1 else "")
                    text += "let %s := %s%s\n" % (v, j, proj)
            return pre + text + cont()
        if k in ("BinaryOperator", "CompoundAssignOperator") and (s.get("opcode") == "=" or k == "CompoundAssignOperator"):
            lhs, rhs = s["inner"]
            r = self.e(rhs)
            if k == "CompoundAssignOperator":
                op = s["opcode"][:-1]
                if op not in ("+", "-", "*", "/", "%"):
                    raise Unsupported("compound assignment %s" % s["opcode"])
                kl, kr = kind_of_type(qt(lhs)), kind_of_type(qt(rhs))
                ck = kind_of_type(s.get("computeResultType", {}).get("qualType", qt(s)))
                cur = self.e(lhs)
                if kl == "int" and ck == "real":
                    raise Unsupported("compound assignment computing in floating point into an integer")
                if kl == "real" and kr == "int":
                    r = "(Fn.ofInt %s)" % r
                elif kl != kr:
                    raise Unsupported("compound assignment on %s / %s" % (qt(lhs), qt(rhs)))
                if op == "/" and kl == "int":
                    r = "(Int.tdiv %s %s)" % (cur, r)
                elif op == "%":
                    r = "(Int.tmod %s %s)" % (cur, r)
                else:
                    r = "(%s %s %s)" % (cur, op, r)
            a = self.assign(lhs, r)
            return self.flush_before(a) + cont()
        if k == "ExprWithCleanups":
            return self.stmts(list(s["inner"]) + rest, final)
        if k == "UnaryOperator" and s.get("opcode") in ("++", "--"):
            tgt = s["inner"][0]
            if kind_of_type(qt(tgt)) != "int":
                raise Unsupported("++/-- on %s" % qt(tgt))
            r = "(%s %s (1 : Int))" % (self.e(tgt), "+" if s["opcode"] == "++" else "-")
            a = self.assign(tgt, r)
            return self.flush_before(a) + cont()
        if k == "CXXOperatorCallExpr":
            nm = self.callee_name(s)
            if nm == "operator=":
                lhs, rhs = s["inner"][1], s["inner"][2]
                r = self.e(rhs)
                a = self.assign(lhs, r)
                return self.flush_before(a) + cont()
            if nm in ("operator+=", "operator-=", "operator*=", "operator/="):
                lhs, rhs = s["inner"][1], s["inner"][2]
                op = nm[len("operator")]
                kl, kr = kind_of_type(qt(lhs)), kind_of_type(qt(rhs))
                if kl != "cx":
                    raise Unsupported("%s on %s" % (nm, qt(lhs)))
                cur, r = self.e(lhs), self.e(rhs)
                fn = {"+": "add", "-": "sub", "*": "mul", "/": "div"}[op] + ("r" if kr == "real" else "") + "Assign"
                if kr not in ("cx", "real"):
                    raise Unsupported("%s with %s" % (nm, qt(rhs)))
                a = self.assign(lhs, "(Cx.%s %s %s)" % (fn, cur, r))
                return self.flush_before(a) + cont()
        raise Unsupported("statement kind %s" % k)

    def flush_before(self, a):
        # hoisted lets of the right-hand side come first, then the assignment itself (which may carry its own
        # `let s := …` produced by set_member — those were appended to the text `a`, not to self.pre)
        return self.flush() + a

    _join = 0

    def fresh_join(self):
        self._join += 1
        return self._join


def check_members(rec, table, what):
    """the data members of `rec` must be exactly those of `table` (name -> canonical C++ type)"""
    got = {c["name"]: canon_type(qt(c)) for c in rec["inner"] if c.get("kind") == "FieldDecl"}
    for n, t in table.items():
        if n not in got:
            raise Unsupported("%s: member %s not found" % (what, n))
        if got[n] != t:
            raise Unsupported("%s: member %s has C++ type `%s`, the unit expects `%s`" % (what, n, got[n], t))
    for n in got:
        if n not in table:
            raise Unsupported("%s: unexpected new member %s : %s" % (what, n, got[n]))
    return [n for n in (c["name"] for c in rec["inner"] if c.get("kind") == "FieldDecl")]


def width_note(cxx):
    t = canon_type(strip_type(cxx))
    if t in INT_WIDTH:
        w, sg = INT_WIDTH[t]
        return " (%d-bit %s)" % (w, "signed" if sg else "unsigned")
    return ""


def struct_text(name, doc, fields):
    """fields: list of (lean field, lean type, C++ decl text)"""
    if not fields:
        return "/-- %s (none) -/\nstructure %s (α : Type) where\n  mk ::\n" % (doc, name)
    return "/-- %s -/\nstructure %s (α : Type) where\n%s\n" % (
        doc, name, "\n".join("  /-- `%s`%s -/\n  %s : %s" % (c, width_note(c.rsplit(" ", 1)[0]), f, t) for f, t, c in fields))


def loop_skeleton(fn, obj=None):
    """`fn` must be: declarations; ONE canonical `for (int i = 0; i < n; ++i)` over the whole input array; return.
    Returns (loop variable, input parameter name, body node)."""
    arrs = [p for p in params_of(fn) if canon_type(strip_type(qt(p))) in ARRAY_REAL_T | ARRAY_CX_T]
    if len(arrs) != 1:
        raise Unsupported("%s: expected exactly one array parameter" % fn.get("name"))
    xin = arrs[0]["name"]
    stmts = [c for c in body_of(fn).get("inner", [])]
    fors = [c for c in stmts if c.get("kind") == "ForStmt"]
    if len(fors) != 1:
        raise Unsupported("%s: expected exactly one sample loop, found %d" % (fn.get("name"), len(fors)))
    f = fors[0]
    sizes = {}   # locals initialised with x.size()

    def is_size(n):
        n = unwrap(n)
        if n.get("kind") == "CXXMemberCallExpr" and len(n["inner"]) == 1:
            me = unwrap(n["inner"][0])
            b = unwrap(me["inner"][0])
            return me.get("name") == "size" and b.get("kind") == "DeclRefExpr" and b["referencedDecl"].get("name") == xin
        if n.get("kind") == "DeclRefExpr" and n["referencedDecl"].get("name") in sizes:
            return True
        if n.get("kind") == "ImplicitCastExpr" and n.get("castKind") == "IntegralCast":
            return is_size(n["inner"][0])
        return False

    touches_obj = lambda n: bool(find_all(n, lambda x: x.get("kind") == "CXXThisExpr" or (
        obj is not None and x.get("kind") == "DeclRefExpr" and x.get("referencedDecl", {}).get("name") == obj)))
    seen_for = False
    for c in stmts:
        k = c.get("kind")
        if c is f:
            seen_for = True
            continue
        if k == "DeclStmt" and not seen_for:
            if touches_obj(c):
                raise Unsupported("%s: a declaration outside the sample loop touches the object" % fn.get("name"))
            calls = find_all(c, lambda x: x.get("kind") in ("CallExpr", "CXXOperatorCallExpr", "CXXMemberCallExpr"))
            for d in c["inner"]:
                if d.get("kind") == "VarDecl" and d.get("inner") and is_size(d["inner"][0]) and "const" in qt(d):
                    sizes[d["name"]] = True
                    calls = [x for x in calls if not is_size(x)]
            if calls:
                raise Unsupported("%s: call in a declaration outside the sample loop" % fn.get("name"))
            continue
        if k == "ReturnStmt" and seen_for and c is stmts[-1]:
            if touches_obj(c) or find_all(c, lambda x: x.get("kind") in ("CallExpr", "CXXMemberCallExpr", "CXXOperatorCallExpr")):
                raise Unsupported("%s: the return statement computes" % fn.get("name"))
            continue
        raise Unsupported("%s: statement %s outside the sample loop" % (fn.get("name"), k))
    init, condvar, cond, inc, body = f["inner"]
    if condvar and condvar.get("kind"):
        raise Unsupported("loop condition variable")
    if not (init.get("kind") == "DeclStmt" and len(init["inner"]) == 1 and kind_of_type(qt(init["inner"][0])) == "int"
            and init["inner"][0].get("inner") and unwrap(init["inner"][0]["inner"][0]).get("kind") == "IntegerLiteral"
            and unwrap(init["inner"][0]["inner"][0])["value"] == "0"):
        raise Unsupported("%s: sample loop does not start with `int i = 0`" % fn.get("name"))
    var = init["inner"][0]["name"]
    isvar = lambda n: unwrap(n).get("kind") == "DeclRefExpr" and unwrap(n)["referencedDecl"].get("name") == var
    if not (cond.get("kind") == "BinaryOperator" and cond["opcode"] == "<" and isvar(cond["inner"][0]) and is_size(cond["inner"][1])):
        raise Unsupported("%s: sample loop condition is not `%s < %s.size()`" % (fn.get("name"), var, xin))
    if not (inc.get("kind") == "UnaryOperator" and inc["opcode"] == "++" and isvar(inc["inner"][0])):
        raise Unsupported("%s: sample loop increment is not `++%s`" % (fn.get("name"), var))
    return var, xin, body


def methods_named(rec, name, with_body=True):
    return [m for m in rec["inner"] if m.get("kind") == "CXXMethodDecl" and m.get("name") == name and
            (not with_body or any(c.get("kind") == "CompoundStmt" for c in m.get("inner", [])))]


def forwards_to(rec, name, target):
    """`T name(const T& x) { return this->target(x); }`"""
    ms = [m for m in methods_named(rec, name) if len(params_of(m)) == 1 and
          canon_type(strip_type(qt(params_of(m)[0]))) not in ARRAY_REAL_T | ARRAY_CX_T and "base_array" not in qt(params_of(m)[0])]
    if len(ms) != 1:
        raise Unsupported("%s(const T&) not found" % name)
    b = body_of(ms[0]).get("inner", [])
    if len(b) != 1 or b[0].get("kind") != "ReturnStmt":
        raise Unsupported("%s does not simply forward to %s" % (name, target))
    c = unwrap(b[0]["inner"][0])
    if c.get("kind") != "CXXMemberCallExpr" or unwrap(c["inner"][0]).get("name") != target or \
            unwrap(unwrap(c["inner"][0])["inner"][0]).get("kind") != "CXXThisExpr" or len(c["inner"]) != 2:
        raise Unsupported("%s does not simply forward to %s" % (name, target))
    a = unwrap(c["inner"][1])
    if not (a.get("kind") == "DeclRefExpr" and a["referencedDecl"].get("name") == params_of(ms[0])[0]["name"]):
        raise Unsupported("%s does not pass its argument to %s" % (name, target))


STEPS_HEAD = ("namespace Dsp\nnamespace Gen\n", SCALAR_VARS)


# ------------------------------------------------------------------------------------------
# unit: StepsBase  (array element access, dsplib::sum / max / min on scalars, abs2(cmplx_t))


def gen_steps_base():
    prefetch([("#include <dsplib/array.h>\n", "base_array::operator[]"), ('#include "math.cpp"\n', "dsplib::sum"),
              ("#include <dsplib/math.h>\n", "dsplib::max"), ("#include <dsplib/math.h>\n", "dsplib::min"),
              ("#include <dsplib/math.h>\n", "dsplib::abs2")])
    out = [HEADER % "include/dsplib/array.h (base_array::operator[](int)), lib/math.cpp (sum(arr_real)), "
                    "include/dsplib/math.h (max / min of two scalars, abs2(cmplx_t))",
           "import DspVerif.Gen.Cmplx\n" + STEPS_HEAD[0], STEPS_HEAD[1]]
    # --- operator[](int): index resolution
    docs = clang_ast("#include <dsplib/array.h>\n", "base_array::operator[]")
    ops = [d for d in docs if d.get("kind") == "CXXMethodDecl" and d.get("name") == "operator[]" and
           len(params_of(d)) == 1 and kind_of_type(qt(params_of(d)[0])) == "int" and canon_type(qt(params_of(d)[0])) == "int"]
    if len(ops) != 2:
        raise Unsupported("base_array::operator[](int): expected the const and the non-const overload, found %d" % len(ops))
    texts = []
    for m in ops:
        b = [c for c in body_of(m).get("inner", [])]
        if not (len(b) in (2, 3) and b[0].get("kind") == "DeclStmt" and len(b[0]["inner"]) == 1 and b[-1].get("kind") == "ReturnStmt"):
            raise Unsupported("base_array::operator[](int): body shape")
        for mid in b[1:-1]:   # the assert (NDEBUG: `((void)0)`)
            if find_all(mid, lambda x: x.get("kind") in ("CallExpr", "CXXMemberCallExpr", "CXXOperatorCallExpr", "BinaryOperator",
                                                          "UnaryOperator", "CompoundAssignOperator")):
                raise Unsupported("base_array::operator[](int): statement with effect between index and return")
        idx = b[0]["inner"][0]
        ret = unwrap(b[-1]["inner"][0])
        if not (ret.get("kind") == "ArraySubscriptExpr" and unwrap(ret["inner"][0]).get("kind") == "MemberExpr" and
                unwrap(ret["inner"][0]).get("name") == "_vec" and unwrap(ret["inner"][1]).get("kind") == "DeclRefExpr" and
                unwrap(ret["inner"][1])["referencedDecl"].get("name") == idx["name"]):
            raise Unsupported("base_array::operator[](int): does not return _vec[%s]" % idx["name"])
        pn = params_of(m)[0]["name"]
        tr = Tr(user_calls={"size": lambda a, n: "size"}, renames={pn: "i"})
        tr.e_CXXOperatorCallExpr = lambda n, tr=tr: _dep_plus(tr, n)
        texts.append(tr.e([c for c in idx["inner"] if c.get("kind") != "FullComment"][0]))
    if texts[0] != texts[1]:
        raise Unsupported("base_array::operator[](int): const and non-const overloads resolve the index differently")
    out.append("/-- `base_array<T>::operator[](int i)` (both overloads): the position in `_vec` that index `i` denotes,\n"
               "`size` = `_vec.size()` -/\ndef arrIdx (size i : Int) : Int :=\n  %s\n" % texts[0])
    out.append("/-- read `a[i]` through `base_array::operator[](int)`; outside `0 ≤ idx < size` the C++ is undefined\n"
               "(an `assert`), the value here is `dflt` -/\n"
               "def arrGet {β : Type} (dflt : β) (a : Array β) (i : Int) : β :=\n  a.getD (arrIdx (Int.ofNat a.size) i).toNat dflt\n")
    out.append("/-- write `a[i] = v` through `base_array::operator[](int)` -/\n"
               "def arrSet {β : Type} (a : Array β) (i : Int) (v : β) : Array β :=\n  a.setIfInBounds (arrIdx (Int.ofNat a.size) i).toNat v\n")
    # --- sum(const arr_real&)
    docs = clang_ast('#include "math.cpp"\n', "dsplib::sum")
    fs = [d for d in docs if d.get("kind") == "FunctionDecl" and d.get("name") == "sum" and len(params_of(d)) == 1 and
          canon_type(strip_type(qt(params_of(d)[0]))) in ARRAY_REAL_T and any(c.get("kind") == "CompoundStmt" for c in d.get("inner", []))]
    if len(fs) != 1:
        raise Unsupported("sum(const arr_real&) not found")
    b = body_of(fs[0]).get("inner", [])
    an = params_of(fs[0])[0]["name"]
    ok = len(b) == 1 and b[0].get("kind") == "ReturnStmt"
    if ok:
        c = unwrap(b[0]["inner"][0])
        ok = c.get("kind") == "CallExpr" and Tr().callee_name(c) == "accumulate" and len(c["inner"]) == 4
    if ok:
        for a, nm in ((c["inner"][1], "begin"), (c["inner"][2], "end")):
            a = unwrap(a)
            ok = ok and a.get("kind") == "CXXMemberCallExpr" and unwrap(a["inner"][0]).get("name") == nm and \
                unwrap(unwrap(a["inner"][0])["inner"][0]).get("kind") == "DeclRefExpr" and \
                unwrap(unwrap(a["inner"][0])["inner"][0])["referencedDecl"].get("name") == an
    if not ok:
        raise Unsupported("sum(const arr_real&) is not `return std::accumulate(arr.begin(), arr.end(), init)`")
    if kind_of_type(qt(c["inner"][3])) != "real":
        raise Unsupported("sum(const arr_real&): the accumulator is not real_t")
    init = Tr().e(c["inner"][3])
    out.append("/-- `sum(const arr_real&)` of lib/math.cpp: `std::accumulate(begin, end, init)` = left fold with `+` -/\n"
               "def sumR (arr : Array α) : α :=\n  arr.foldl (fun acc v => acc + v) %s\n" % init)
    # --- max / min of two scalars (templates; the bodies are dependent, translated structurally)
    for name in ("max", "min"):
        docs = clang_ast("#include <dsplib/math.h>\n", "dsplib::" + name)
        ts = [d for d in docs if d.get("kind") == "FunctionTemplateDecl" and d.get("name") == name]
        ts = [t for t in ts for f in [[c for c in t["inner"] if c.get("kind") == "FunctionDecl"][0]] if len(params_of(f)) == 2]
        if len(ts) != 1:
            raise Unsupported("template %s(const T1&, const T2&) not found" % name)
        f = [c for c in ts[0]["inner"] if c.get("kind") == "FunctionDecl"][0]
        if canon_type(qt(f)) != "auto (const T1 &, const T2 &) -> decltype(v1 + v2)":
            raise Unsupported("template %s: signature %s" % (name, qt(f)))
        body = Tr().stmts([body_of(f)], "?", False)
        ps = [p["name"] for p in params_of(f)]
        out.append("/-- `dsplib::%s(const T1& v1, const T2& v2)` of include/dsplib/math.h at `T1 = T2 = real_t` -/\n"
                   "def %sRR (%s : α) : α :=\n%s\n" % (name, name, " ".join(ps), indent(body)))
    # --- abs2(const cmplx_t&)
    docs = clang_ast("#include <dsplib/math.h>\n", "dsplib::abs2")
    fs = [d for d in docs if d.get("kind") == "FunctionDecl" and d.get("name") == "abs2" and len(params_of(d)) == 1 and
          kind_of_type(qt(params_of(d)[0])) == "cx" and any(c.get("kind") == "CompoundStmt" for c in d.get("inner", []))]
    if len(fs) != 1:
        raise Unsupported("abs2(const cmplx_t&) not found")
    out.append("/-- `abs2(const cmplx_t&)` of include/dsplib/math.h -/\ndef abs2c (%s : Cx α) : α :=\n%s\n" % (
        params_of(fs[0])[0]["name"], indent(Tr().stmts([body_of(fs[0])], "?", False))))
    out.append("end Gen\nend Dsp\n")
    return "\n".join(out)


def _dep_plus(tr, n):
    """`_vec.size() + i` inside the class template (dependent operator+)"""
    cal = find_all(n["inner"][0], lambda x: x.get("kind") in ("DeclRefExpr", "UnresolvedLookupExpr"))
    nm = (cal[0].get("name") or cal[0].get("referencedDecl", {}).get("name")) if cal else None
    if nm == "operator+" and len(n["inner"]) == 3:
        return "(%s + %s)" % (tr.e(n["inner"][1]), tr.e(n["inner"][2]))
    raise Unsupported("dependent operator %s" % nm)


# signatures by which a call of `max` / `min` is recognised as the dsplib scalar template at real_t
DSPLIB_MINMAX_SIG = "auto (const double &, const double &) -> decltype(v1 + v2)"


def steps_user_calls():
    def callee_sig(n):
        return canon_type(qt(unwrap(n["inner"][0])))

    def mm(name):
        def h(a, n):
            if callee_sig(n) == DSPLIB_MINMAX_SIG and len(a) == 2:
                return "(%sRR %s %s)" % (name, a[0], a[1])
            raise Unsupported("call of %s with signature %s" % (name, callee_sig(n)))
        return h

    def abs2(a, n):
        sig = callee_sig(n)
        if re.match(r"real_t \(const (real_t|double) &\)", sig):
            return "(abs2r %s)" % a[0]
        if re.match(r"real_t \(const cmplx_t &\)", sig):
            return "(abs2c %s)" % a[0]
        raise Unsupported("call of abs2 with signature %s" % sig)

    def sum_(a, n):
        if callee_sig(n) == "real_t (const arr_real &)":
            return "(sumR %s)" % a[0]
        raise Unsupported("call of sum with signature %s" % callee_sig(n))

    def one_real(lean):
        def h(a, n):
            if callee_sig(n) == "real_t (real_t)":
                return "(%s %s)" % (lean, a[0])
            raise Unsupported("call of %s with signature %s" % (lean, callee_sig(n)))
        return h

    return {"max": mm("max"), "min": mm("min"), "abs2": abs2, "sum": sum_, "db2mag": one_real("db2mag"),
            "mag2db": one_real("mag2db"), "pow2db": one_real("pow2db"), "db2pow": one_real("db2pow")}


class EpsCall:
    """`eps()` is a parameter `eps : α` of every generated function that uses it (as in Gen/Dynamics)"""

    def __init__(self):
        self.used = False

    def __call__(self, a, n):
        if a:
            raise Unsupported("eps(v) with an argument")
        self.used = True
        return "eps"


def gen_processor(cls, rec, lean, table, entry, outputs, methods_spec, obj=None, subobjs=None, subobj_types=None,
                  cxx_name=None):
    """one stateful processor: Params / State structures, helper member functions, step function(s).

    rec          : CXXRecordDecl holding the data members
    table        : member name -> canonical C++ type (CHECKED)
    entry        : list of (FunctionDecl / CXXMethodDecl with the sample loop, lean name suffix, sample lean type, out types)
    methods_spec : member function name -> ("translate",) | ("extern", callable(tr, args) -> str, [members read])
    """
    cxx_name = cxx_name or cls
    order = check_members(rec, table, cxx_name)
    members = {}
    for m in order:
        lt = lean_type_of(table[m], subobj_types)
        if lt is None:
            raise Unsupported("%s::%s: C++ type %s has no Lean counterpart" % (cls, m, table[m]))
        members[m] = (m.lstrip("_").rstrip("_"), lt, "%s %s" % (table[m], m))
    P, S = "%sStepParams" % cls, "%sStepState" % cls

    def translate_all(state):
        """returns (texts, reads, writes, uses_eps)"""
        reads, writes = set(), set()
        texts = []
        eps = EpsCall()
        calls = steps_user_calls()
        calls["eps"] = eps
        mtab = {}
        # helper member functions first (callees), in the order of the spec
        for mname, spec in methods_spec.items():
            if spec[0] == "extern":
                def ext(tr, args, spec=spec):
                    for f in spec[2]:
                        tr.mref(f)
                    return spec[1](tr, args)
                mtab[mname] = {"extern": ext}
                continue
            ms = methods_named(rec, mname)
            if len(ms) != 1:
                raise Unsupported("%s::%s not found (or overloaded)" % (cls, mname))
            m = ms[0]
            # a first pass decides whether the function writes the state
            probe = StepTr(obj=None, members=members, state=state, methods=mtab, subobjs=subobjs, user_calls=calls, effect=True)
            for p_ in params_of(m):
                probe.declare(probe.var(p_["name"]))
            probe.stmts([body_of(m)], FALLOFF)
            effect = bool(probe.writes)
            tr = StepTr(obj=None, members=members, state=state, methods=mtab, subobjs=subobjs, user_calls=calls, effect=effect)
            ps = []
            for p_ in params_of(m):
                lt = lean_type_of(qt(p_))
                if lt not in ("α", "Int", "Cx α"):
                    raise Unsupported("%s::%s parameter %s : %s" % (cls, mname, p_["name"], qt(p_)))
                tr.declare(tr.var(p_["name"]))
                ps.append("(%s : %s)" % (tr.var(p_["name"]), lt))
            rt = lean_type_of(m["type"]["qualType"].split("(")[0])
            void = m["type"]["qualType"].split("(")[0].strip() == "void"
            if rt not in ("α", "Int", "Cx α") and not void:
                raise Unsupported("%s::%s returns %s" % (cls, mname, m["type"]["qualType"]))
            body = tr.stmts([body_of(m)], "s" if (void and effect) else FALLOFF)
            if FALLOFF in body:
                raise Unsupported("%s::%s: control can reach the end without a return" % (cls, mname))
            reads |= tr.reads
            writes |= tr.writes
            reads_state = any(x in state for x in tr.reads)
            lname = "%s%s" % (lean, "".join(w.capitalize() for w in mname.strip("_").split("_")))
            ret = ("%s α" % S if void else "%s α × %s" % (S, rt)) if effect else rt
            sarg = " (s : %s α)" % S if (effect or reads_state) else ""
            texts.append(("method", mname, lname, "(p : %s α)%s %s" % (P, sarg, " ".join(ps)), ret, body, tr))
            mtab[mname] = {"lean": lname + (" eps" if False else ""), "effect": effect, "reads": sorted(tr.reads),
                           "writes": sorted(tr.writes), "reads_state": reads_state, "tr": tr}
        for fn, suffix, sample_t, out_ts in entry:
            var, xin, body = loop_skeleton(fn, obj)
            cells = {o: "%s_%s" % (o, var) for o in outputs}
            sample = "%s_%s" % (xin, var)
            tr = StepTr(obj=obj, members=members, state=state, methods=mtab, subobjs=subobjs, user_calls=calls, effect=True,
                        loop={"var": var, "input": xin, "sample": sample, "outputs": cells,
                              "cell_types": {cells[o]: t for o, t in zip(outputs, out_ts)}})
            tr.bound.add(sample)
            names = set(d["name"] for d in find_all(body, lambda x: x.get("kind") == "VarDecl"))
            if names & (set(cells.values()) | {sample}):
                raise Unsupported("a local of the loop body is named like a generated cell")
            res = "(s, %s)" % ", ".join(cells[o] for o in outputs)
            text = tr.stmts([body], res)
            if sorted(tr.cells_written) != sorted(cells.values()):
                raise Unsupported("%s: the loop body writes the output cells %s, expected %s" % (
                    fn.get("name"), sorted(tr.cells_written), sorted(cells.values())))
            reads |= tr.reads
            writes |= tr.writes
            texts.append(("loop", fn, suffix, (sample, sample_t, out_ts, xin, var), None, text, tr))
        return texts, reads, writes, eps

    texts, reads, writes, eps = translate_all(set(members))        # pass 1: everything in the state, to find the writes
    state = set(writes)
    texts, reads2, writes2, eps = translate_all(state)             # pass 2: the real split
    if writes2 != writes:
        raise Unsupported("%s: unstable state split" % cls)
    used = reads2 | writes2
    out = []
    out.append(struct_text(P, "members of `%s` that the per-sample code only reads (C++ declarations CHECKED against the translator's table)" % cxx_name,
                           [members[m] for m in order if m in used and m not in state]))
    out.append(struct_text(S, "members of `%s` that the per-sample code writes" % cxx_name, [members[m] for m in order if m in state]))
    unused = [m for m in order if m not in used]
    eps_arg = " (eps : α)" if eps.used else ""
    for kind, a, b, c, d, body, tr in texts:
        if kind == "method":
            # callers pass `eps` along when the unit uses it anywhere (uniform signatures)
            out.append("/-- `%s::%s(%s)`%s -/\ndef %s%s %s : %s :=\n%s\n" % (
                cxx_name, a, ", ".join(qt(p_) for p_ in params_of(methods_named(rec, a)[0])),
                ": members after the call and the value returned" if tr.effect else "", b, eps_arg, c, d, indent(body)))
        else:
            sample, sample_t, out_ts, xin, var = c
            fn = a
            out.append("/-- loop body of `%s(%s)`: `%s` = `%s[%s]`; result = (members written, %s) -/\n"
                       "def %sStep%s%s (p : %s α) (s : %s α) (%s : %s) : %s α × %s :=\n%s\n" % (
                           (cls + "::" if obj is None else "") + fn["name"], ", ".join(qt(p_) for p_ in params_of(fn)),
                           sample, xin, var, ", ".join("`%s[%s]`" % (o, var) for o in outputs),
                           lean, b, eps_arg, P, S, sample, sample_t, S, " × ".join(out_ts), indent(body)))
    return out, eps.used, unused


def fix_method_calls(text, names, eps_used):
    """insert the `eps` argument in calls of the unit's own helper functions"""
    if not eps_used:
        return text
    for n in names:
        text = re.sub(r"(?<![A-Za-z0-9_])%s p " % re.escape(n), "%s eps p " % n, text)
    return text


# ------------------------------------------------------------------------------------------
# unit: StepsDyn  (sample loops of Compressor, Limiter, NoiseGate, Agc; MAFilter<real_t>::process)

DYN_TU = "#include <dsplib.h>\n"


def gen_steps_dyn():
    prefetch([(DYN_TU, "Compressor"), (DYN_TU, "Limiter"), (DYN_TU, "NoiseGate")] +
             [('#include "agc.cpp"\n', f) for f in ("MAFilter", "AgcImpl", "dsplib::_process", "dsplib::Agc", "Agc::process")])
    out = [HEADER % "include/dsplib/audio/compressor.h, limiter.h, noise-gate.h (loop bodies of `process`, `_smooth_gain`), "
                    "lib/agc.cpp (loop body of `_process`, real and complex), lib/ma-filter.h (`MAFilter<real_t>::process(const T&)`)",
           "import DspVerif.Gen.Dynamics\nimport DspVerif.Gen.StepsBase\n" + STEPS_HEAD[0], STEPS_HEAD[1]]

    def gain_extern(lname, fields):
        def f(tr, args):
            tr.user_calls["eps"]([], None)
            return "(%s eps { %s } %s)" % (lname, ", ".join("%s := %s" % (lf, tr.mref(cf)) for cf, lf in fields), args[0])
        return f

    for cls, lean, table, mspec in (
        ("Compressor", "compressor",
         {"T_": "const real_t", "R_": "const int", "W_": "const real_t", "wA_": "real_t", "wR_": "real_t", "gs_": "real_t"},
         {"_compute_gain": ("extern", gain_extern("compressorGain", [("T_", "T"), ("R_", "R"), ("W_", "W")]), ["T_", "R_", "W_"])}),
        ("Limiter", "limiter",
         {"T_": "const real_t", "W_": "const real_t", "wA_": "const real_t", "wR_": "const real_t", "gs_": "real_t"},
         {"_compute_gain": ("extern", gain_extern("limiterGain", [("T_", "T"), ("W_", "W")]), ["T_", "W_"])}),
        ("NoiseGate", "noiseGate",
         {"tlin_": "const real_t", "wA_": "const real_t", "wR_": "const real_t", "tH_": "const int", "cA_": "int", "lg_": "real_t"},
         {"_smooth_gain": ("translate",)}),
    ):
        rec = record(clang_ast(DYN_TU, cls), cls)
        ms = [m for m in methods_named(rec, "process") if len(params_of(m)) == 1]
        if len(ms) != 1:
            raise Unsupported("%s::process(const arr_real&) not found" % cls)
        if canon_type(strip_type(qt(params_of(ms[0])[0]))) not in ARRAY_REAL_T:
            raise Unsupported("%s::process takes %s" % (cls, qt(params_of(ms[0])[0])))
        texts, eps_used, unused = gen_processor(cls, rec, lean, table, [(ms[0], "", "α", ["α", "α"])], ["gain", "out"], mspec)
        names = [lean + "".join(w.capitalize() for w in k.strip("_").split("_")) for k, v in mspec.items() if v[0] == "translate"]
        out += [fix_method_calls(t, names, eps_used) for t in texts]

    # --- MAFilter<real_t>::process(const T&): every data member in ONE structure (it is a sub-object of AgcImpl)
    docs = clang_ast('#include "agc.cpp"\n', "MAFilter")
    tmpl = [d for d in docs if d.get("kind") == "ClassTemplateDecl" and d.get("name") == "MAFilter"]
    if len(tmpl) != 1:
        raise Unsupported("class template MAFilter not found")
    specs = [c for c in tmpl[0]["inner"] if c.get("kind") == "ClassTemplateSpecializationDecl" and
             [canon_type(qt(a)) for a in c.get("inner", []) if a.get("kind") == "TemplateArgument"] == ["double"] and
             any(x.get("kind") == "FieldDecl" for x in c.get("inner", []))]
    if len(specs) != 1:
        raise Unsupported("instantiation MAFilter<double> not found")
    rec = specs[0]
    table = {"_buf": "base_array<double>", "_n": "int", "_pos": "int", "_accum": "double"}
    order = check_members(rec, table, "MAFilter<real_t>")
    members = {m: (m.lstrip("_"), lean_type_of(table[m]), "%s %s" % (table[m], m)) for m in order}
    ms = [m for m in methods_named(rec, "process") if len(params_of(m)) == 1 and kind_of_type(qt(params_of(m)[0])) == "real"]
    if len(ms) != 1:
        raise Unsupported("MAFilter<real_t>::process(const real_t&) not found")
    forwards_to(rec, "operator()", "process")
    tr = StepTr(members=members, single=True, user_calls=steps_user_calls(), effect=True)
    pn = tr.var(params_of(ms[0])[0]["name"])
    tr.declare(pn)
    body = tr.stmts([body_of(ms[0])], FALLOFF)
    if FALLOFF in body:
        raise Unsupported("MAFilter::process: control can reach the end without a return")
    out.append(struct_text("MAFilterState", "data members of `MAFilter<real_t>` (lib/ma-filter.h; C++ declarations CHECKED)",
                           [members[m] for m in order]))
    out.append("/-- `MAFilter<real_t>::process(const real_t& %s)` (also `operator()(const real_t&)`, which forwards to it):\n"
               "new members and the returned average -/\n"
               "def maFilterStep (self : MAFilterState α) (%s : α) : MAFilterState α × α :=\n%s\n" % (pn, pn, indent(body)))

    # --- Agc: `_process<T>(AgcImpl&, const base_array<T>&)`, T = real_t and T = cmplx_t
    rec = record(clang_ast('#include "agc.cpp"\n', "AgcImpl"), "AgcImpl")
    table = {"trise": "real_t", "tfall": "real_t", "max_gain": "real_t", "target": "real_t", "gain": "real_t", "maflt": "MAFilterR"}
    docs = clang_ast('#include "agc.cpp"\n', "dsplib::_process")
    tmpl = [d for d in docs if d.get("kind") == "FunctionTemplateDecl" and d.get("name") == "_process"]
    if len(tmpl) != 1:
        raise Unsupported("function template _process (lib/agc.cpp) not found")
    inst = {}
    for f in [c for c in tmpl[0]["inner"] if c.get("kind") == "FunctionDecl"]:
        ta = [canon_type(qt(a)) for a in f.get("inner", []) if a.get("kind") == "TemplateArgument"]
        if ta in (["double"], ["cmplx_t"]) and any(c.get("kind") == "CompoundStmt" for c in f.get("inner", [])):
            inst[ta[0]] = f
    if sorted(inst) != ["cmplx_t", "double"]:
        raise Unsupported("_process: instantiations found %s, expected real_t and cmplx_t" % sorted(inst))
    for f in inst.values():
        ps = params_of(f)
        if not (len(ps) == 2 and canon_type(strip_type(qt(ps[0]))) == "AgcImpl" and "&" in qt(ps[0]) and "const" not in qt(ps[0])):
            raise Unsupported("_process: first parameter is not `AgcImpl&`")
    # which entry points use which instantiation: Agc::process(arr_real) / (arr_cmplx) must forward to _process(*_d, x)
    texts, eps_used, unused = gen_processor(
        "Agc", rec, "agc", table,
        [(inst["double"], "R", "α", ["α", "α"]), (inst["cmplx_t"], "C", "Cx α", ["α", "Cx α"])], ["gain", "out"], {},
        obj=params_of(inst["double"])[0]["name"],
        subobjs={"maflt": {"ops": {"operator()": "maFilterStep", "process": "maFilterStep"}}},
        subobj_types={"MAFilterR": "MAFilterState α"}, cxx_name="AgcImpl")
    # the two public entry points hand the whole input to `_process(*_d, x)`
    arec = record(clang_ast('#include "agc.cpp"\n', "dsplib::Agc"), "Agc")
    docs = clang_ast('#include "agc.cpp"\n', "Agc::process")
    seen = set()
    for d in docs:
        if d.get("kind") != "CXXMethodDecl" or d.get("name") != "process" or not any(c.get("kind") == "CompoundStmt" for c in d.get("inner", [])):
            continue
        ps = params_of(d)
        b = body_of(d).get("inner", [])
        okf = len(ps) == 1 and len(b) == 1 and b[0].get("kind") == "ReturnStmt"
        if okf:
            calls = find_all(b[0], lambda x: x.get("kind") == "CallExpr")
            okf = len(calls) == 1 and Tr().callee_name(calls[0]) == "_process" and len(calls[0]["inner"]) == 3
        if okf:
            a0, a1 = calls[0]["inner"][1], unwrap(calls[0]["inner"][2])
            okf = a1.get("kind") == "DeclRefExpr" and a1["referencedDecl"].get("name") == ps[0]["name"] and \
                [m.get("name") for m in find_all(a0, lambda x: x.get("kind") == "MemberExpr")] == ["_d"] and \
                not find_all(a0, lambda x: x.get("kind") in ("CallExpr", "CXXMemberCallExpr")) and \
                len(find_all(b[0], lambda x: x.get("kind") in ("CXXOperatorCallExpr", "BinaryOperator", "UnaryOperator"))) == 1
        if not okf:
            raise Unsupported("Agc::process(%s) is not `return _process(*_d, x)`" % (qt(ps[0]) if ps else ""))
        seen.add(canon_type(strip_type(qt(ps[0]))))
    if seen != {"arr_real", "arr_cmplx"}:
        raise Unsupported("Agc::process overloads found: %s" % sorted(seen))
    if params_of(inst["double"])[0]["name"] != params_of(inst["cmplx_t"])[0]["name"]:
        raise Unsupported("_process: parameter names differ between instantiations")
    out += texts
    out.append("end Gen\nend Dsp\n")
    return "\n".join(out)


# ------------------------------------------------------------------------------------------
UNITS = {}


def unit(name, sources):
    def deco(f):
        UNITS[name] = (f, sources)
        return f
    return deco


unit("Cmplx", ["include/dsplib/types.h"])(gen_cmplx)
unit("Slice", ["include/dsplib/slice.h"])(gen_slice)
unit("SmallFft", ["lib/fft/small-fft.h", "lib/fft/primes-fft.h"])(gen_smallfft)
unit("Dynamics", ["lib/math.cpp", "include/dsplib/math.h", "include/dsplib/audio/compressor.h", "include/dsplib/audio/limiter.h"])(gen_dynamics)
unit("Awgn", ["lib/awgn.cpp"])(gen_awgn)
unit("Consts", ["lib/primes.cpp", "lib/fft/primes-fft.h", "lib/fft/fft.cpp", "CMakeLists.txt"])(gen_consts)
unit("StepsBase", ["include/dsplib/array.h", "lib/math.cpp", "include/dsplib/math.h"])(gen_steps_base)
unit("StepsDyn", ["include/dsplib/audio/compressor.h", "include/dsplib/audio/limiter.h", "include/dsplib/audio/noise-gate.h",
                  "lib/agc.cpp", "lib/ma-filter.h", "include/dsplib/agc.h"])(gen_steps_dyn)


def source_sha(sources):
    h = hashlib.sha256()
    for s in sources:
        with open(os.path.join(REPO, s), "rb") as f:
            h.update(f.read())
    return h.hexdigest()[:16]


def run(units=None, out_dir=None, check_only=False):
    """regenerate units; returns dict unit -> {ok, changed, error, src_sha, out_sha}"""
    out_dir = out_dir or GEN_DIR
    os.makedirs(out_dir, exist_ok=True)
    res = {}
    for name in (units or list(UNITS)):
        f, sources = UNITS[name]
        path = os.path.join(out_dir, name + ".lean")
        info = {"sources": sources}
        try:
            info["src_sha"] = source_sha(sources)
            text = f()
            lines = text.split("\n")
            imps = [l for l in lines if l.startswith("import ")]
            text = "\n".join(imps + [l for l in lines if not l.startswith("import ")])
            old = open(path).read() if os.path.exists(path) else None
            info["changed"] = (old != text)
            info["out_sha"] = sha(text)
            if old != text and not check_only:
                with open(path, "w") as fh:
                    fh.write(text)
            info["ok"] = True
        except Unsupported as ex:
            info["ok"] = False
            info["error"] = "unsupported construct: %s" % ex
        except FileNotFoundError as ex:
            info["ok"] = False
            info["error"] = "source missing: %s" % ex
        res[name] = info
    return res


if __name__ == "__main__":
    import argparse
    ap = argparse.ArgumentParser()
    ap.add_argument("units", nargs="*")
    ap.add_argument("--check-only", action="store_true")
    a = ap.parse_args()
    r = run(a.units or None, check_only=a.check_only)
    print(json.dumps(r, indent=1))
    sys.exit(0 if all(v["ok"] for v in r.values()) else 3)
