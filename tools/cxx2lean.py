#!/usr/bin/env python3
"""cxx2lean: translate loop-free C++ (clang-14 JSON AST) from /repo's working tree into Lean 4
definitions (DspVerif/Gen/*.lean).  Run on every check; the theorems in Props/ about the
generated definitions are then re-checked against what the code says *now*.

Supported subset (anything else raises Unsupported -> the GEN obligation fails):
  expressions: + - * / % unary-, comparisons, && || !, ?:, member access, literals, int<->real
               casts, calls to a fixed table (std::abs, sqrt, cos, ... abs2, conj), cmplx_t
               operators, constructor / braced-init of cmplx_t
  statements : declarations with initialiser, (compound) assignment to locals / fields,
               if / else, return, DSPLIB_THROW / DSPLIB_ASSERT (throw std::runtime_error)
Integers are typed from the AST: C++ `int` / and % become Int.tdiv / Int.tmod (C truncation).
"""
import json, os, subprocess, sys, hashlib, re

REPO = os.environ.get("VERIF_REPO", "/repo")
HERE = os.path.dirname(os.path.abspath(__file__))
GEN_DIR = os.path.join(os.environ.get("VERIF_LEAN") or os.path.join(HERE, "..", "lean"), "DspVerif", "Gen")


class Unsupported(Exception):
    pass


# ------------------------------------------------------------------------------------------
# AST loading
_ast_cache = {}


def clang_ast(source_text, filt, extra_inc=()):
    """run clang on a tiny TU that includes the wanted header(s); return list of JSON docs"""
    key = (source_text, filt)
    if key in _ast_cache:
        return _ast_cache[key]
    work = os.environ.get("VERIF_WORK", "/tmp")
    os.makedirs(work, exist_ok=True)
    tu = os.path.join(work, "cxx2lean_tu_%s.cpp" % hashlib.sha1(source_text.encode()).hexdigest()[:10])
    with open(tu, "w") as f:
        f.write(source_text)
    defs_dir = os.environ.get("VERIF_DEFS_DIR", os.path.join(REPO, "_build"))
    cmd = ["clang++-14", "-std=gnu++17", "-fsyntax-only", "-DNDEBUG", "-I", os.path.join(REPO, "include"),
           "-I", defs_dir, "-I", os.path.join(REPO, "lib")]
    for i in extra_inc:
        cmd += ["-I", i]
    cmd += ["-Xclang", "-ast-dump=json", "-Xclang", "-ast-dump-filter=" + filt, tu]
    p = subprocess.run(cmd, capture_output=True, text=True)
    if p.returncode != 0 and not p.stdout.strip():
        raise Unsupported("clang failed on %s: %s" % (filt, p.stderr[:2000]))
    s = p.stdout
    dec = json.JSONDecoder()
    i = 0
    docs = []
    while i < len(s):
        while i < len(s) and s[i].isspace():
            i += 1
        if i >= len(s):
            break
        d, j = dec.raw_decode(s, i)
        docs.append(d)
        i = j
    os.unlink(tu)
    _ast_cache[key] = docs
    return docs


def find_all(node, pred, out=None):
    if out is None:
        out = []
    if pred(node):
        out.append(node)
    for c in node.get("inner", []) or []:
        find_all(c, pred, out)
    return out


def qt(n):
    return n.get("type", {}).get("qualType", "")


def strip_type(t):
    t = t.replace("const ", "").replace("volatile ", "").replace("&", "").strip()
    return t


REAL_T = {"double", "dsplib::real_t", "real_t", "float", "long double"}
INT_T = {"int", "unsigned int", "uint32_t", "int32_t", "size_t", "long", "unsigned long", "std::size_t",
         "std::vector::size_type", "size_type", "uint64_t", "int64_t", "unsigned short", "short"}
CX_T = {"dsplib::cmplx_t", "cmplx_t"}


def kind_of_type(t):
    t = strip_type(t)
    if t in REAL_T:
        return "real"
    if t in INT_T:
        return "int"
    if t in CX_T:
        return "cx"
    if t == "bool" or t == "_Bool":
        return "bool"
    return "other:" + t


# ------------------------------------------------------------------------------------------
class Tr:
    """expression / statement translator for one function body"""

    # name of free function or method -> (lean format, result kind); args substituted
    CALLS = {
        "abs": None, "sqrt": "Fn.sqrt", "cos": "Fn.cos", "sin": "Fn.sin", "exp": "Fn.exp", "log": "Fn.log",
        "log10": "Fn.log10", "atan": "Fn.atan", "pow": "Fn.pow", "floor": "Fn.floor", "round": "Fn.round",
        "tanh": "Fn.tanh", "fabs": "Fn.abs",
    }

    def __init__(self, this_name="self", fields=None, this_kind=None, renames=None, user_calls=None,
                 int_real_cast="Fn.ofInt", literals=None):
        self.this = this_name
        self.fields = fields or {}        # C++ field name -> lean field name
        self.this_kind = this_kind        # 'cx' or 'struct'
        self.renames = renames or {}
        self.user_calls = user_calls or {}  # name -> callable(args_strs, node) -> str
        self.int_real_cast = int_real_cast
        self.literals = literals if literals is not None else []   # collected floating literals

    # -------------------------------------------------------------- expressions
    def var(self, name):
        return self.renames.get(name, name.lstrip("_") if name.startswith("_") else name)

    def e(self, n):
        k = n.get("kind")
        m = getattr(self, "e_" + k, None)
        if m is None:
            raise Unsupported("expression kind %s" % k)
        return m(n)

    def passthru(self, n):
        inner = [c for c in n.get("inner", []) if c.get("kind") not in ("WarnUnusedResultAttr",)]
        if len(inner) != 1:
            raise Unsupported("%s with %d children" % (n.get("kind"), len(inner)))
        return self.e(inner[0])

    e_ParenExpr = passthru
    e_ExprWithCleanups = passthru
    e_MaterializeTemporaryExpr = passthru
    e_CXXBindTemporaryExpr = passthru
    e_ConstantExpr = passthru
    e_CXXFunctionalCastExpr = lambda self, n: self.cast(n)
    e_CStyleCastExpr = lambda self, n: self.cast(n)
    e_CXXStaticCastExpr = lambda self, n: self.cast(n)
    e_ImplicitCastExpr = lambda self, n: self.cast(n)

    def cast(self, n):
        ck = n.get("castKind")
        inner = n["inner"][0]
        if ck in ("LValueToRValue", "NoOp", "FunctionToPointerDecay", "UncheckedDerivedToBase", "DerivedToBase",
                  "ArrayToPointerDecay"):
            return self.e(inner)
        if ck == "IntegralToFloating":
            return "(%s %s)" % (self.int_real_cast, self.e(inner))
        if ck == "IntegralCast":
            # int <-> unsigned etc.: same mathematical value under the no-overflow obligations
            return self.e(inner)
        if ck == "FloatingCast":
            return self.e(inner)
        if ck == "IntegralToBoolean":
            return "(%s ≠ 0)" % self.e(inner)
        if ck == "ConstructorConversion":
            return self.e(inner)
        if ck == "FloatingToIntegral":
            raise Unsupported("float->int cast")
        raise Unsupported("cast kind %s" % ck)

    def e_IntegerLiteral(self, n):
        return "(%s : Int)" % n["value"]

    def e_CXXBoolLiteralExpr(self, n):
        return "True" if n["value"] else "False"

    def e_FloatingLiteral(self, n):
        v = n["value"]
        self.literals.append(v)
        f = float(v)
        d = dyadic(f)
        if d is not None:
            return d
        return "(%s)" % repr(f)

    def e_CXXThisExpr(self, n):
        return self.this

    def e_DeclRefExpr(self, n):
        ref = n.get("referencedDecl", {})
        name = ref.get("name")
        if ref.get("kind") in ("ParmVarDecl", "VarDecl"):
            return self.var(name)
        if ref.get("kind") == "EnumConstantDecl":
            return name
        raise Unsupported("DeclRefExpr to %s %s" % (ref.get("kind"), name))

    def e_MemberExpr(self, n):
        base = n["inner"][0]
        name = n["name"]
        lean_field = self.fields.get(name, name.lstrip("_").rstrip("_"))
        if base.get("kind") == "CXXThisExpr":
            return "%s.%s" % (self.this, lean_field)
        b = self.e(base)
        return "%s.%s" % (b, lean_field)

    def e_CXXDependentScopeMemberExpr(self, n):
        name = n.get("member") or n.get("name")
        lean_field = self.fields.get(name, name.lstrip("_").rstrip("_"))
        return "%s.%s" % (self.e(n["inner"][0]), lean_field)

    def e_UnaryOperator(self, n):
        op = n["opcode"]
        inner = n["inner"][0]
        if op == "*" and inner.get("kind") == "CXXThisExpr":
            return self.this
        a = self.e(inner)
        if op == "-":
            return "(-%s)" % a
        if op == "+":
            return a
        if op == "!":
            return "(¬ %s)" % a
        raise Unsupported("unary %s" % op)

    def e_BinaryOperator(self, n):
        op = n["opcode"]
        l, r = n["inner"]
        a, b = self.e(l), self.e(r)
        rk = kind_of_type(qt(n))
        lk = kind_of_type(qt(l))
        if op in ("+", "-", "*"):
            return "(%s %s %s)" % (a, op, b)
        if op == "/":
            if rk == "int":
                return "(Int.tdiv %s %s)" % (a, b)
            return "(%s / %s)" % (a, b)
        if op == "%":
            return "(Int.tmod %s %s)" % (a, b)
        if op in ("<", ">", "<=", ">="):
            return "(%s %s %s)" % (a, {"<": "<", ">": ">", "<=": "≤", ">=": "≥"}[op], b)
        if op == "==":
            return "(%s = %s)" % (a, b)
        if op == "!=":
            return "(%s ≠ %s)" % (a, b)
        if op == "&&":
            return "(%s ∧ %s)" % (a, b)
        if op == "||":
            return "(%s ∨ %s)" % (a, b)
        raise Unsupported("binary %s" % op)

    def e_ConditionalOperator(self, n):
        c, a, b = n["inner"]
        return "(if %s then %s else %s)" % (self.e(c), self.e(a), self.e(b))

    def callee_name(self, n):
        f = n["inner"][0]
        if f.get("kind") == "CXXDependentScopeMemberExpr":
            return f.get("member") or f.get("name")
        refs = find_all(f, lambda x: x.get("kind") == "DeclRefExpr" or x.get("kind") == "MemberExpr")
        if not refs:
            raise Unsupported("call without callee")
        r = refs[0]
        if r.get("kind") == "MemberExpr":
            return r["name"]
        return r["referencedDecl"]["name"]

    def e_CallExpr(self, n):
        name = self.callee_name(n)
        args = [self.e(a) for a in n["inner"][1:] if a.get("kind") != "CXXDefaultArgExpr"]
        if n["inner"][0].get("kind") == "CXXDependentScopeMemberExpr":
            args = [self.e(n["inner"][0]["inner"][0])] + args
        if name in self.user_calls:
            return self.user_calls[name](args, n)
        if name == "abs":
            k = kind_of_type(qt(n))
            if k == "int":
                return "(Int.ofNat (Int.natAbs %s))" % args[0]
            if k == "real":
                return "(Fn.abs %s)" % args[0]
            raise Unsupported("abs on %s" % qt(n))
        if name in ("min", "max") and len(args) == 2:
            k = kind_of_type(qt(n))
            # std::min(a,b) = (b < a) ? b : a ; std::max(a,b) = (a < b) ? b : a
            if name == "min":
                return "(if %s < %s then %s else %s)" % (args[1], args[0], args[1], args[0])
            return "(if %s < %s then %s else %s)" % (args[0], args[1], args[1], args[0])
        if name in self.CALLS and self.CALLS[name]:
            # libm functions take real arguments: an `int` argument (std::pow(10, x)) is promoted
            raw = [a for a in n["inner"][1:] if a.get("kind") != "CXXDefaultArgExpr"]
            args = [("(Fn.ofInt %s)" % s_) if kind_of_type(qt(r)) == "int" else s_ for s_, r in zip(args, raw)]
            return "(%s %s)" % (self.CALLS[name], " ".join(args))
        raise Unsupported("call to %s" % name)

    def e_CXXMemberCallExpr(self, n):
        me = n["inner"][0]
        name = me["name"]
        base = me["inner"][0]
        obj = self.this if base.get("kind") == "CXXThisExpr" else self.e(base)
        args = [self.e(a) for a in n["inner"][1:] if a.get("kind") != "CXXDefaultArgExpr"]
        if name in self.user_calls:
            return self.user_calls[name]([obj] + args, n)
        if name in ("abs2", "conj") and kind_of_type(qt(base)).startswith("cx") or name in ("abs2", "conj"):
            return "(Cx.%s %s)" % (name, obj)
        raise Unsupported("member call %s" % name)

    def e_CXXOperatorCallExpr(self, n):
        name = self.callee_name(n)
        args = [self.e(a) for a in n["inner"][1:]]
        op = name.replace("operator", "")
        if op in ("+", "-", "*", "/") and len(args) == 2:
            return "(%s %s %s)" % (args[0], op, args[1])
        if op == "-" and len(args) == 1:
            return "(-%s)" % args[0]
        raise Unsupported("operator call %s/%d" % (name, len(args)))

    def e_CXXConstructExpr(self, n):
        k = kind_of_type(qt(n))
        args = [a for a in n.get("inner", []) if a.get("kind") != "CXXDefaultArgExpr"]
        if k == "cx":
            if len(args) == 2:
                return "(Cx.mk %s %s)" % (self.e(args[0]), self.e(args[1]))
            if len(args) == 1:
                ak = kind_of_type(qt(args[0]))
                if ak == "cx":
                    return self.e(args[0])   # copy
                return "(Cx.mk %s (Fn.ofInt 0))" % self.e(args[0])
            if len(args) == 0:
                return "(Cx.mk (Fn.ofInt 0) (Fn.ofInt 0))"
        raise Unsupported("construct %s/%d" % (qt(n), len(args)))

    def e_InitListExpr(self, n):
        k = kind_of_type(qt(n))
        if k == "cx":
            args = n.get("inner", [])
            if len(args) == 2:
                return "(Cx.mk %s %s)" % (self.e(args[0]), self.e(args[1]))
        raise Unsupported("init list %s" % qt(n))

    # -------------------------------------------------------------- statements
    # `rest` is a thunk producing the Lean text of the continuation.
    def is_throw(self, n):
        return bool(find_all(n, lambda x: x.get("kind") == "CXXThrowExpr"))

    def throw_msg(self, n):
        lits = find_all(n, lambda x: x.get("kind") == "StringLiteral")
        msgs = [json.loads(l["value"]) if l["value"].startswith('"') else l["value"] for l in lits]
        msgs = [m for m in msgs if m != "dsplib: "]
        return msgs[0] if msgs else "error"

    def stmts(self, lst, final, throws):
        """translate a statement list; `final` = Lean text used if control falls off the end"""
        if not lst:
            return final
        s, rest = lst[0], lst[1:]
        k = s.get("kind")
        cont = lambda: self.stmts(rest, final, throws)
        if k == "CompoundStmt":
            return self.stmts(list(s.get("inner", [])) + rest, final, throws)
        if k == "NullStmt":
            return cont()
        if k == "DeclStmt":
            out = None
            decls = s["inner"]
            text = ""
            for d in decls:
                if d.get("kind") != "VarDecl" or "inner" not in d:
                    raise Unsupported("declaration without initialiser")
                init = [c for c in d["inner"] if c.get("kind") not in ("FullComment",)][0]
                text += "let %s := %s\n" % (self.var(d["name"]), self.e(init))
            return text + cont()
        if k == "ReturnStmt":
            if not s.get("inner"):
                return final
            v = self.e(s["inner"][0])
            return ("(.ok %s)" % v) if throws else v
        if k in ("ExprWithCleanups",) and s.get("inner") and s["inner"][0].get("kind") == "CXXThrowExpr":
            return '(.error "%s")' % self.throw_msg(s)
        if k == "CXXThrowExpr":
            return '(.error "%s")' % self.throw_msg(s)
        if k == "IfStmt":
            parts = s["inner"]
            cond = self.e(parts[0])
            then = parts[1]
            els = parts[2] if len(parts) > 2 else None
            t = self.stmts([then] + rest, final, throws) if not self.ends(then) else self.stmts([then], final, throws)
            if els is not None:
                e = self.stmts([els] + rest, final, throws) if not self.ends(els) else self.stmts([els], final, throws)
            else:
                e = cont()
            return "if %s then\n%s\nelse\n%s" % (cond, indent(t), indent(e))
        if k in ("BinaryOperator", "CompoundAssignOperator") and (s["opcode"] == "=" or k == "CompoundAssignOperator"):
            lhs, rhs = s["inner"]
            r = self.e(rhs)
            if k == "CompoundAssignOperator":
                op = s["opcode"][:-1]
                cur = self.e(lhs)
                if op == "/" and kind_of_type(qt(s)) == "int":
                    r = "(Int.tdiv %s %s)" % (cur, r)
                elif op == "%":
                    r = "(Int.tmod %s %s)" % (cur, r)
                else:
                    r = "(%s %s %s)" % (cur, op, r)
            return self.assign(lhs, r) + cont()
        if k == "ExprWithCleanups":
            return self.stmts(list(s["inner"]) + rest, final, throws)
        if k == "UnaryOperator" and s.get("opcode") in ("++", "--"):
            # `++x;` / `x++;` as a statement (value unused): x := x +/- 1
            tgt = s["inner"][0]
            one = "(1 : Int)" if kind_of_type(qt(tgt)) == "int" else "(Fn.ofInt (1 : Int))"
            r = "(%s %s %s)" % (self.e(tgt), "+" if s["opcode"] == "++" else "-", one)
            return self.assign(tgt, r) + cont()
        if k == "CXXOperatorCallExpr" and self.callee_name(s) == "operator=":
            lhs, rhs = s["inner"][1], s["inner"][2]
            return self.assign(lhs, self.e(rhs)) + cont()
        raise Unsupported("statement kind %s" % k)

    def ends(self, s):
        """does statement s always leave the function (return / throw)?"""
        k = s.get("kind")
        if k in ("ReturnStmt", "CXXThrowExpr"):
            return True
        if k == "ExprWithCleanups":
            return any(self.ends(c) for c in s.get("inner", []))
        if k == "CompoundStmt":
            inner = s.get("inner", [])
            return bool(inner) and self.ends(inner[-1])
        if k == "IfStmt":
            parts = s["inner"]
            return len(parts) > 2 and self.ends(parts[1]) and self.ends(parts[2])
        return False

    def assign(self, lhs, r):
        k = lhs.get("kind")
        if k == "DeclRefExpr":
            return "let %s := %s\n" % (self.var(lhs["referencedDecl"]["name"]), r)
        if k == "MemberExpr":
            base = lhs["inner"][0]
            name = lhs["name"]
            f = self.fields.get(name, name.lstrip("_").rstrip("_"))
            if base.get("kind") == "CXXThisExpr":
                return "let %s := { %s with %s := %s }\n" % (self.this, self.this, f, r)
            if base.get("kind") == "DeclRefExpr":
                v = self.var(base["referencedDecl"]["name"])
                return "let %s := { %s with %s := %s }\n" % (v, v, f, r)
        if k == "UnaryOperator" and lhs["opcode"] == "*" and lhs["inner"][0].get("kind") == "CXXThisExpr":
            return "let %s := %s\n" % (self.this, r)
        raise Unsupported("assignment target %s" % k)


def indent(t, n=2):
    return "\n".join(" " * n + l for l in t.split("\n"))


def body_of(fn):
    for c in fn.get("inner", []):
        if c.get("kind") == "CompoundStmt":
            return c
    raise Unsupported("no body for %s" % fn.get("name"))


def params_of(fn):
    return [c for c in fn.get("inner", []) if c.get("kind") == "ParmVarDecl"]


def sha(s):
    return hashlib.sha256(s.encode()).hexdigest()[:16]


HEADER = "/-! GENERATED by tools/cxx2lean.py from %s — do not edit; regenerated on every check run. -/\n"

SCALAR_VARS = ("variable {α : Type} [Add α] [Sub α] [Mul α] [Div α] [Neg α] [LT α] [LE α] [Fn α]\n"
               "  [DecidableRel (· < · : α → α → Prop)] [DecidableRel (· ≤ · : α → α → Prop)]\n")

# ------------------------------------------------------------------------------------------
# unit: Cmplx  (include/dsplib/types.h)


def gen_cmplx():
    docs = clang_ast("#include <dsplib/types.h>\n", "cmplx_t")
    rec = [d for d in docs if d.get("kind") == "CXXRecordDecl" and d.get("inner")][0]
    methods = {}
    for m in rec["inner"]:
        if m.get("kind") == "CXXMethodDecl" and any(c.get("kind") == "CompoundStmt" for c in m.get("inner", [])):
            ps = params_of(m)
            sig = m["name"] + "(" + ",".join(kind_of_type(qt(p)) for p in ps) + ")"
            methods[sig] = m
    want = [
        ("operator+(cx)", "add", "Cx α", "Cx α"), ("operator-(cx)", "sub", "Cx α", "Cx α"),
        ("operator*(cx)", "mul", "Cx α", "Cx α"), ("operator/(cx)", "div", "Cx α", "Cx α"),
        ("operator+(real)", "addr", "α", "Cx α"), ("operator-(real)", "subr", "α", "Cx α"),
        ("operator*(real)", "mulr", "α", "Cx α"), ("operator/(real)", "divr", "α", "Cx α"),
        ("operator-()", "neg", None, "Cx α"), ("conj()", "conj", None, "Cx α"), ("abs2()", "abs2", None, "α"),
        ("operator+=(cx)", "addAssign", "Cx α", "Cx α"), ("operator-=(cx)", "subAssign", "Cx α", "Cx α"),
        ("operator*=(cx)", "mulAssign", "Cx α", "Cx α"), ("operator/=(cx)", "divAssign", "Cx α", "Cx α"),
        ("operator+=(real)", "addrAssign", "α", "Cx α"), ("operator-=(real)", "subrAssign", "α", "Cx α"),
        ("operator*=(real)", "mulrAssign", "α", "Cx α"), ("operator/=(real)", "divrAssign", "α", "Cx α"),
    ]
    out = [HEADER % "include/dsplib/types.h (struct cmplx_t and left-scalar operators)",
           "import DspVerif.Scalar\nnamespace Dsp\nnamespace Cx\n", SCALAR_VARS]
    # order matters: abs2 before div etc.
    order = ["abs2()", "conj()", "operator-()", "operator+(cx)", "operator-(cx)", "operator*(cx)", "operator/(cx)",
             "operator+(real)", "operator-(real)", "operator*(real)", "operator/(real)"]
    names = {w[0]: w for w in want}
    defs = []
    for sig in order + [w[0] for w in want if w[0] not in order]:
        _, lname, pty, rty = names[sig]
        if sig not in methods:
            raise Unsupported("cmplx_t::%s not found" % sig)
        m = methods[sig]
        tr = Tr(this_name="self")
        ps = params_of(m)
        body = tr.stmts([body_of(m)], "self", False)
        arg = "" if pty is None else " (%s : %s)" % (ps[0]["name"], pty)
        defs.append("def %s (self : Cx α)%s : %s :=\n%s\n" % (lname, arg, rty, indent(body)))
        if lname == "div":
            # instances needed by later bodies (compound operators use `*this + rhs`)
            defs.append("instance : Add (Cx α) := ⟨add⟩\ninstance : Sub (Cx α) := ⟨sub⟩\n"
                        "instance : Mul (Cx α) := ⟨mul⟩\ninstance : Div (Cx α) := ⟨div⟩\n"
                        "instance : Neg (Cx α) := ⟨neg⟩\n")
    out += defs
    # left-oriented scalar operators (free function templates)
    docs2 = clang_ast("#include <dsplib/types.h>\n", "dsplib::operator")
    left = {}
    for d in docs2:
        if d.get("kind") == "FunctionTemplateDecl":
            fns = [c for c in d.get("inner", []) if c.get("kind") == "FunctionDecl"]
            if not fns:
                continue
            f = fns[0]
            ps = params_of(f)
            if len(ps) == 2 and kind_of_type(qt(ps[1])) == "cx":
                left[d["name"]] = f
    # template bodies are dependent (unresolved operators): translate the pattern structurally
    out.append(gen_left_ops(left))
    out.append("end Cx\nend Dsp\n")
    return "\n".join(out)


def gen_left_ops(left):
    """left-oriented `T op cmplx_t` templates.  Bodies are dependent-typed in the AST, so the
    translation is by structural pattern: `rhs OP lhs`, `{lhs - rhs.re, -rhs.im}`, `cmplx_t(lhs) / rhs`."""
    res = []
    for op, lname in (("operator+", "radd"), ("operator-", "rsub"), ("operator*", "rmul"), ("operator/", "rdiv")):
        if op not in left:
            raise Unsupported("left %s missing" % op)
        f = left[op]
        ret = find_all(body_of(f), lambda x: x.get("kind") == "ReturnStmt")
        if len(ret) != 1:
            raise Unsupported("left %s: not a single return" % op)
        r = ret[0]["inner"][0]
        text = pattern_left(r)
        res.append("/-- `%s(const T& lhs, const cmplx_t& rhs)` -/\ndef %s (lhs : α) (rhs : Cx α) : Cx α :=\n  %s\n" % (op, lname, text))
    return "\n".join(res)


def pattern_left(n):
    k = n.get("kind")
    if k in ("ExprWithCleanups", "MaterializeTemporaryExpr", "ImplicitCastExpr", "ParenExpr"):
        return pattern_left(n["inner"][0])
    if k == "BinaryOperator" or (k == "CXXOperatorCallExpr"):
        if k == "BinaryOperator":
            a, b = n["inner"]
            op = n["opcode"]
        else:
            a, b = n["inner"][1], n["inner"][2]
            cal = find_all(n["inner"][0], lambda x: x.get("kind") in ("DeclRefExpr", "UnresolvedLookupExpr"))[0]
            op = (cal.get("name") or cal["referencedDecl"]["name"]).replace("operator", "")
        sa, sb = pattern_left(a), pattern_left(b)
        kinds = (leaf_kind(sa), leaf_kind(sb))
        if kinds == ("cx", "real"):
            return "(%s %s %s)" % ({"+": "addr", "-": "subr", "*": "mulr", "/": "divr"}[op], sa, sb)
        if kinds == ("cx", "cx"):
            return "(%s %s %s)" % (sa, op, sb)
        if kinds == ("real", "real"):
            return "(%s %s %s)" % (sa, op, sb)
        raise Unsupported("left-op pattern kinds %s" % (kinds,))
    if k == "DeclRefExpr":
        return n["referencedDecl"]["name"]
    if k in ("MemberExpr", "CXXDependentScopeMemberExpr"):
        name = n.get("name") or n.get("member")
        return "%s.%s" % (pattern_left(n["inner"][0]), name)
    if k == "UnaryOperator" and n["opcode"] == "-":
        return "(-%s)" % pattern_left(n["inner"][0])
    if k == "InitListExpr":
        a, b = n["inner"]
        return "(Cx.mk %s %s)" % (pattern_left(a), pattern_left(b))
    if k in ("CXXFunctionalCastExpr", "CXXUnresolvedConstructExpr", "CXXConstructExpr", "CXXTemporaryObjectExpr"):
        args = n.get("inner", [])
        if len(args) == 1:
            s = pattern_left(args[0])
            if leaf_kind(s) == "real":
                return "(Cx.mk %s (Fn.ofInt 0))" % s
            return s
    raise Unsupported("left-op pattern %s" % k)


def leaf_kind(s):
    if s == "lhs" or s.startswith("(lhs") or s.endswith(".re") or s.endswith(".im") or s.endswith(".re)") or s.endswith(".im)"):
        return "real"
    return "cx"


# ------------------------------------------------------------------------------------------
# unit: Slice  (include/dsplib/slice.h)

ARRAY_TU = "#include <dsplib/array.h>\n#include <dsplib/slice.h>\n"


def record(docs, name):
    for d in docs:
        if d.get("kind") == "ClassTemplateDecl" and d.get("name") == name:
            for c in d.get("inner", []):
                if c.get("kind") == "CXXRecordDecl" and c.get("inner"):
                    return c
    for d in docs:
        if d.get("kind") == "CXXRecordDecl" and d.get("name") == name and d.get("inner"):
            return d
    raise Unsupported("record %s not found" % name)


def gen_slice():
    docs = clang_ast(ARRAY_TU, "base_slice_t")
    rec = record(docs, "base_slice_t")
    ctors = [c for c in rec["inner"] if c.get("kind") == "CXXConstructorDecl" and len(params_of(c)) == 4]
    if len(ctors) != 1:
        raise Unsupported("base_slice_t(int,int,int,int) not found")
    ctor = ctors[0]
    fields = [c["name"] for c in rec["inner"] if c.get("kind") == "FieldDecl"]
    if sorted(fields) != sorted(["_i1", "_i2", "_m", "_n", "_nc"]):
        raise Unsupported("base_slice_t fields changed: %s" % fields)
    # default member initialisers must all be 0
    for c in rec["inner"]:
        if c.get("kind") == "FieldDecl":
            lits = find_all(c, lambda x: x.get("kind") == "IntegerLiteral")
            if [l["value"] for l in lits] != ["0"]:
                raise Unsupported("field %s default initialiser is not 0" % c["name"])
    for ci in [c for c in ctor["inner"] if c.get("kind") == "CXXCtorInitializer"]:
        if not find_all(ci, lambda x: x.get("kind") == "CXXDefaultInitExpr"):
            raise Unsupported("ctor initialiser list is not the default one")
    ps = [p["name"] for p in params_of(ctor)]
    tr = Tr(this_name="self", renames={p: p + "'" for p in ps})
    body = tr.stmts([body_of(ctor)], "(.ok self)", True)
    out = [HEADER % "include/dsplib/slice.h (base_slice_t constructor; slice copy-constructor argument lists)",
           "import DspVerif.Scalar\nnamespace Dsp\nnamespace Gen\n",
           "/-- the five `int` members of `base_slice_t` -/\nstructure BaseSlice where\n  i1 : Int := 0\n  i2 : Int := 0\n  m : Int := 0\n  n : Int := 0\n  nc : Int := 0\nderiving Repr, DecidableEq, Inhabited\n",
           "/-- `base_slice_t::base_slice_t(int n, int i1, int i2, int m)`; `.error` = the exception thrown -/\n"
           "def BaseSlice.ctor (%s : Int) : Except String BaseSlice :=\n  let self : BaseSlice := {}\n%s\n" % (" ".join(p + "'" for p in ps), indent(body))]
    # copy constructors: which expressions are passed to base_slice_t(n, i1, i2, m)
    for cls, tag in (("const_slice_t", "const"), ("slice_t", "mut")):
        d2 = clang_ast(ARRAY_TU, cls)
        r2 = record(d2, cls)
        k = 0
        for c in r2["inner"]:
            if c.get("kind") != "CXXConstructorDecl" or c.get("isImplicit"):
                continue
            cps = params_of(c)
            if len(cps) != 1:
                continue
            pty = strip_type(qt(cps[0]))
            src = "const" if "const_slice_t" in pty else "mut"
            inits = [ci for ci in c["inner"] if ci.get("kind") == "CXXCtorInitializer" and "baseInit" in ci]
            if len(inits) != 1:
                raise Unsupported("%s copy ctor: base initialiser not found" % cls)
            ce = find_all(inits[0], lambda x: x.get("kind") in ("CXXConstructExpr", "ParenListExpr"))[0]
            # what does rhs.size() return?  (read from the size() body of the source class)
            def size_field(a, n, src=src):
                scls = "const_slice_t" if src == "const" else "slice_t"
                sr = record(clang_ast(ARRAY_TU, scls), scls)
                sm = [m for m in sr["inner"] if m.get("kind") == "CXXMethodDecl" and m.get("name") == "size"]
                if len(sm) != 1:
                    raise Unsupported("%s::size() not found" % scls)
                return Tr(this_name=a[0]).stmts([body_of(sm[0])], "?", False)
            trc = Tr(this_name="self", user_calls={"size": size_field})
            args = [trc.e(a) for a in ce["inner"]]
            if len(args) != 4:
                raise Unsupported("%s copy ctor passes %d base arguments" % (cls, len(args)))
            out.append("/-- `%s(const %s& rhs)`: arguments handed to the base constructor -/\n"
                       "def copyArgs_%s_from_%s (rhs : BaseSlice) : Int × Int × Int × Int :=\n  (%s)\n" % (cls, pty, tag, src, ", ".join(args)))
            k += 1
        if k == 0:
            raise Unsupported("no copy constructor found in %s" % cls)
    out.append("end Gen\nend Dsp\n")
    return "\n".join(out)


# ------------------------------------------------------------------------------------------
# unit: Consts  (tables / thresholds / guard skeletons used by several models)


def int_literals(node):
    return [int(l["value"]) for l in find_all(node, lambda x: x.get("kind") == "IntegerLiteral")]


def fn_decl(docs, name, with_body=True):
    for d in docs:
        if d.get("kind") in ("FunctionDecl", "CXXMethodDecl") and d.get("name") == name:
            if not with_body or any(c.get("kind") == "CompoundStmt" for c in d.get("inner", [])):
                return d
    raise Unsupported("function %s not found" % name)


def gen_consts():
    out = [HEADER % "lib/primes.cpp (PRIMES), lib/fft/primes-fft.h (MAX_DFT_SIZE), lib/fft/fft.cpp (cache bypass sets), CMakeLists.txt (cache size)",
           "import DspVerif.Scalar\nnamespace Dsp\nnamespace Gen\n"]
    # PRIMES table
    docs = clang_ast('#include "primes.cpp"\n', "PRIMES")
    vd = [d for d in docs if d.get("kind") == "VarDecl" and d.get("name") == "PRIMES"]
    if len(vd) != 1:
        raise Unsupported("PRIMES table not found")
    tbl = int_literals([c for c in vd[0]["inner"] if c.get("kind") == "InitListExpr"][0])
    out.append("/-- `PRIMES` of lib/primes.cpp -/\ndef primesTable : List Nat := %s\n" % str(tbl).replace(" ", ""))
    # MAX_DFT_SIZE
    docs = clang_ast('#include "fft/primes-fft.h"\n', "MAX_DFT_SIZE")
    vd = [d for d in docs if d.get("kind") == "VarDecl" and d.get("name") == "MAX_DFT_SIZE"]
    if len(vd) != 1:
        raise Unsupported("MAX_DFT_SIZE not found")
    out.append("/-- `MAX_DFT_SIZE`: boundary for calculating a prime-length DFT directly instead of by CZT -/\ndef maxDftSize : Nat := %d\n" % int_literals(vd[0])[0])
    # bypass guards of the two plan factories (first `if` of the function)
    for fname, lname in (("create_fft_plan", "bypassC"), ("create_rfft_plan", "bypassR")):
        docs = clang_ast('#define DSPLIB_FFT_CACHE_SIZE 4\n#include "fft/fft.cpp"\n', fname)
        f = fn_decl(docs, fname)
        first = [c for c in body_of(f)["inner"]][0]
        if first.get("kind") != "IfStmt" or not Tr().ends(first["inner"][1]):
            raise Unsupported("%s: does not start with the small-size bypass" % fname)
        cond = Tr().e(first["inner"][0])
        out.append("/-- lengths for which `%s` bypasses the cache -/\ndef %s (n : Int) : Prop := %s\ninstance (n : Int) : Decidable (%s n) := by unfold %s; infer_instance\n" % (fname, lname, cond, lname, lname))
    # default cache size
    cm = open(os.path.join(REPO, "CMakeLists.txt")).read()
    m = re.search(r'set\(DSPLIB_FFT_CACHE_SIZE\s+"(\d+)"', cm)
    if not m:
        raise Unsupported("DSPLIB_FFT_CACHE_SIZE default not found in CMakeLists.txt")
    out.append("/-- default of the CMake option `DSPLIB_FFT_CACHE_SIZE` -/\ndef fftCacheSizeDefault : Nat := %s\n" % m.group(1))
    out.append("end Gen\nend Dsp\n")
    return "\n".join(out)


# ------------------------------------------------------------------------------------------
# symbolic execution of straight-line kernels over small fixed arrays (small-fft.h, _dft_n3)


def dyadic(f):
    """exact Lean term for a float that is k/2^j with small j, else None"""
    for j in range(0, 12):
        v = f * (1 << j)
        if v == int(v) and abs(v) < 1e9:
            k = int(v)
            if j == 0:
                return "(Fn.ofInt (%d : Int))" % k
            return "((Fn.ofInt (%d : Int)) / (Fn.ofInt (%d : Int)))" % (k, 1 << j)
    return None


class SymExec:
    """cells: (array, index) -> ('cx', expr) | ('fields', re, im) | ('real', expr)"""

    def __init__(self, fname, in_name, in_kind, out_name, callee_map):
        self.fname = fname
        self.cells = {}
        self.sizes = {}
        self.kinds = {}           # array name -> 'cx' | 'real'
        self.scalars = {}         # local scalar name -> lean expr
        self.consts = {}          # loop variables -> int
        self.lines = []
        self.lits = []            # distinct non-dyadic literal magnitudes (as repr strings)
        self.in_name, self.in_kind, self.out_name = in_name, in_kind, out_name
        self.out_off = 0
        self.callee_map = callee_map
        self.fresh = 0
        self.kinds[in_name] = in_kind
        self.kinds[out_name] = "cx"

    def lit(self, v):
        f = float(v)
        d = dyadic(f)
        if d is not None:
            return d
        key = repr(abs(f))
        if key not in self.lits:
            self.lits.append(key)
        name = "c%d" % self.lits.index(key)
        return name if f > 0 else "(-%s)" % name

    def let(self, base, ty, expr):
        name = base
        k = 0
        while any(l.startswith("let %s " % name) for l in self.lines):
            k += 1
            name = "%s_%d" % (base, k)
        self.lines.append("let %s : %s := %s" % (name, ty, expr))
        return name

    # ---- integer constant evaluation (indices, loop counters)
    def cint(self, n):
        k = n.get("kind")
        if k == "IntegerLiteral":
            return int(n["value"])
        if k in ("ImplicitCastExpr", "ParenExpr"):
            return self.cint(n["inner"][0])
        if k == "DeclRefExpr":
            nm = n["referencedDecl"]["name"]
            if nm in self.consts:
                return self.consts[nm]
        if k == "BinaryOperator" and n["opcode"] in "+-*":
            a, b = self.cint(n["inner"][0]), self.cint(n["inner"][1])
            return {"+": a + b, "-": a - b, "*": a * b}[n["opcode"]]
        raise Unsupported("non-constant index in kernel %s (%s)" % (self.fname, k))

    # ---- lvalues
    def lval(self, n):
        """returns (array, index, field|None)"""
        k = n.get("kind")
        if k in ("ImplicitCastExpr", "ParenExpr"):
            return self.lval(n["inner"][0])
        if k == "MemberExpr":
            a, i, f = self.lval(n["inner"][0])
            if f is not None:
                raise Unsupported("nested member")
            return a, i, n["name"]
        if k == "ArraySubscriptExpr":
            base = find_all(n["inner"][0], lambda x: x.get("kind") == "DeclRefExpr")[0]["referencedDecl"]["name"]
            return base, self.cint(n["inner"][1]), None
        if k == "UnaryOperator" and n["opcode"] == "*":
            inner = n["inner"][0]
            if inner.get("kind") == "UnaryOperator" and inner["opcode"] == "++" and inner.get("isPostfix"):
                base = find_all(inner, lambda x: x.get("kind") == "DeclRefExpr")[0]["referencedDecl"]["name"]
                if base != self.out_name:
                    raise Unsupported("pointer increment on %s" % base)
                i = self.out_off
                self.out_off += 1
                return base, i, None
        raise Unsupported("lvalue kind %s in kernel %s" % (k, self.fname))

    def read(self, a, i, f):
        if a == self.in_name:
            base = "(%s %d)" % (a, i)
            if self.in_kind == "real":
                return base
            return base if f is None else "%s.%s" % (base, f)
        c = self.cells.get((a, i))
        if c is None:
            if a in self.sizes or a == self.out_name:
                c = ("fields", "(Fn.ofInt (0 : Int))", "(Fn.ofInt (0 : Int))") if self.kinds.get(a) == "cx" else ("real", "(Fn.ofInt (0 : Int))")
            else:
                raise Unsupported("read of unknown array %s" % a)
        if c[0] == "real":
            return c[1]
        if c[0] == "cx":
            return c[1] if f is None else "%s.%s" % (c[1], f)
        if f is None:
            return "(Cx.mk %s %s)" % (c[1], c[2])
        return c[1] if f == "re" else c[2]

    def write(self, a, i, f, expr):
        kind = self.kinds.get(a)
        if kind is None:
            raise Unsupported("write to unknown array %s" % a)
        if kind == "real":
            nm = self.let("%s_%d" % (a, i), "α", expr)
            self.cells[(a, i)] = ("real", nm)
            return
        if f is None:
            nm = self.let("%s_%d" % (a, i), "Cx α", expr)
            self.cells[(a, i)] = ("cx", nm)
            return
        nm = self.let("%s_%d_%s" % (a, i, f), "α", expr)
        cur = self.cells.get((a, i))
        if cur is None or cur[0] == "cx":
            base = cur[1] if cur else None
            re_ = ("%s.re" % base) if base else "(Fn.ofInt (0 : Int))"
            im_ = ("%s.im" % base) if base else "(Fn.ofInt (0 : Int))"
            cur = ("fields", re_, im_)
        self.cells[(a, i)] = ("fields", nm, cur[2]) if f == "re" else ("fields", cur[1], nm)

    # ---- expressions
    def e(self, n):
        k = n.get("kind")
        if k in ("ImplicitCastExpr", "ParenExpr", "ExprWithCleanups", "MaterializeTemporaryExpr", "CXXBindTemporaryExpr",
                 "CXXFunctionalCastExpr", "ConstantExpr"):
            ck = n.get("castKind")
            if ck == "IntegralToFloating":
                return "(Fn.ofInt (%d : Int))" % self.cint(n["inner"][0])
            return self.e(n["inner"][0])
        if k == "FloatingLiteral":
            return self.lit(n["value"])
        if k == "IntegerLiteral":
            return "(Fn.ofInt (%s : Int))" % n["value"]
        if k in ("ArraySubscriptExpr", "MemberExpr") or (k == "UnaryOperator" and n["opcode"] == "*"):
            return self.read(*self.lval(n))
        if k == "DeclRefExpr":
            nm = n["referencedDecl"]["name"]
            if nm in self.scalars:
                return self.scalars[nm]
            raise Unsupported("reference to %s in kernel" % nm)
        if k == "UnaryOperator" and n["opcode"] == "-":
            return "(-%s)" % self.e(n["inner"][0])
        if k == "UnaryOperator" and n["opcode"] == "+":
            return self.e(n["inner"][0])
        if k == "BinaryOperator" and n["opcode"] in ("+", "-", "*", "/"):
            return "(%s %s %s)" % (self.e(n["inner"][0]), n["opcode"], self.e(n["inner"][1]))
        if k == "CXXOperatorCallExpr":
            cal = find_all(n["inner"][0], lambda x: x.get("kind") == "DeclRefExpr")[0]["referencedDecl"]
            op = cal["name"].replace("operator", "")
            args = n["inner"][1:]
            if op in ("+", "-", "*", "/") and len(args) == 2:
                ka, kb = kind_of_type(qt(args[0])), kind_of_type(qt(args[1]))
                a, b = self.e(args[0]), self.e(args[1])
                if ka == "cx" and kb == "cx":
                    return "(%s %s %s)" % (a, op, b)
                if ka == "cx" and kb == "real":
                    return "(Cx.%s %s %s)" % ({"+": "addr", "-": "subr", "*": "mulr", "/": "divr"}[op], a, b)
                if ka == "real" and kb == "cx":
                    return "(Cx.%s %s %s)" % ({"+": "radd", "-": "rsub", "*": "rmul", "/": "rdiv"}[op], a, b)
            if op == "-" and len(args) == 1:
                return "(-%s)" % self.e(args[0])
            raise Unsupported("operator %s in kernel" % op)
        if k in ("CXXTemporaryObjectExpr", "CXXConstructExpr", "InitListExpr"):
            args = [a for a in n.get("inner", []) if a.get("kind") != "CXXDefaultArgExpr"]
            if kind_of_type(qt(n)) == "cx":
                if len(args) == 2:
                    return "(Cx.mk %s %s)" % (self.e(args[0]), self.e(args[1]))
                if len(args) == 1:
                    if kind_of_type(qt(args[0])) == "cx":
                        return self.e(args[0])
                    return "(Cx.mk %s (Fn.ofInt (0 : Int)))" % self.e(args[0])
        raise Unsupported("expression kind %s in kernel %s" % (k, self.fname))

    # ---- statements
    def stmt(self, s):
        k = s.get("kind")
        if k == "CompoundStmt":
            for c in s.get("inner", []):
                self.stmt(c)
            return
        if k in ("NullStmt",):
            return
        if k == "ExprWithCleanups":
            return self.stmt(s["inner"][0])
        if k == "DeclStmt":
            for d in s["inner"]:
                t = qt(d)
                m = re.match(r"(?:const )?(dsplib::cmplx_t|cmplx_t|dsplib::real_t|real_t|double)\[(\d+)\]", t)
                if m:
                    self.sizes[d["name"]] = int(m.group(2))
                    self.kinds[d["name"]] = "cx" if "cmplx" in m.group(1) else "real"
                    continue
                kt = kind_of_type(t)
                init = [c for c in d.get("inner", [])]
                if kt == "real" and init:
                    self.scalars[d["name"]] = self.let(d["name"], "α", self.e(init[0]))
                    continue
                if kt == "int" and init:
                    self.consts[d["name"]] = self.cint(init[0])
                    continue
                raise Unsupported("declaration of %s : %s in kernel" % (d.get("name"), t))
            return
        if k == "BinaryOperator" and s["opcode"] == "=":
            a, i, f = self.lval(s["inner"][0])
            self.write(a, i, f, self.e(s["inner"][1]))
            return
        if k == "CXXOperatorCallExpr":
            cal = find_all(s["inner"][0], lambda x: x.get("kind") == "DeclRefExpr")[0]["referencedDecl"]
            if cal["name"] == "operator=":
                rhs = self.e(s["inner"][2])    # evaluate before taking the (possibly post-incremented) target
                a, i, f = self.lval(s["inner"][1])
                self.write(a, i, f, rhs)
                return
        if k == "CallExpr":
            cal = find_all(s["inner"][0], lambda x: x.get("kind") == "DeclRefExpr")[0]["referencedDecl"]
            key = (cal["name"], "real" if re.search(r"\(const (dsplib::)?real_t", cal.get("type", {}).get("qualType", "")) or
                   "const double *" in cal.get("type", {}).get("qualType", "") else "cx")
            if key not in self.callee_map:
                raise Unsupported("call to %s in kernel" % (key,))
            lean_fn, n_in = self.callee_map[key]
            src = find_all(s["inner"][1], lambda x: x.get("kind") == "DeclRefExpr")[0]["referencedDecl"]["name"]
            dst = find_all(s["inner"][2], lambda x: x.get("kind") == "DeclRefExpr")[0]["referencedDecl"]["name"]
            reads = [self.read(src, i, None) for i in range(n_in)]
            lam = "fun i => " + " ".join("if i = %d then %s else" % (i, r) for i, r in enumerate(reads[:-1])) + " " + reads[-1]
            nm = self.let(dst, "Nat → Cx α", "%s (%s)" % (lean_fn, lam))
            for i in range(n_in):
                self.cells[(dst, i)] = ("cx", "(%s %d)" % (nm, i))
            return
        if k == "ForStmt":
            init, _, cond, inc, body = s["inner"]
            vd = init["inner"][0]
            var = vd["name"]
            self.consts[var] = self.cint(vd["inner"][0])
            if not (cond.get("kind") == "BinaryOperator" and cond["opcode"] == "<"):
                raise Unsupported("loop condition in kernel")
            hi = self.cint(cond["inner"][1])
            if not (inc.get("kind") == "UnaryOperator" and inc["opcode"] == "++"):
                raise Unsupported("loop increment in kernel")
            guard = 0
            while self.consts[var] < hi:
                self.stmt(body)
                self.consts[var] += 1
                guard += 1
                if guard > 64:
                    raise Unsupported("loop too long to unroll")
            del self.consts[var]
            return
        raise Unsupported("statement kind %s in kernel %s" % (k, self.fname))


def gen_kernel(method, lean_name, in_kind, n_out, callee_map):
    ps = params_of(method)
    se = SymExec(method["name"], ps[0]["name"], in_kind, ps[1]["name"], callee_map)
    se.stmt(body_of(method))
    outs = [se.read(ps[1]["name"], i, None) for i in range(n_out)]
    res = "fun k => " + " ".join("if k = %d then %s else" % (i, r) for i, r in enumerate(outs[:-1])) + " " + outs[-1]
    lit_params = "".join(" (c%d : α)" % i for i in range(len(se.lits)))
    in_ty = "Nat → Cx α" if in_kind == "cx" else "Nat → α"
    body = "\n".join("  " + l for l in se.lines + [res])
    text = "def %s%s (%s : %s) : Nat → Cx α :=\n%s\n" % (lean_name, lit_params, ps[0]["name"], in_ty, body)
    return text, se.lits


def gen_smallfft():
    out = [HEADER % "lib/fft/small-fft.h (_fft_n2/_n4/_n8, complex and real input), lib/fft/primes-fft.h (_dft_n3)",
           "import DspVerif.Gen.Cmplx\nnamespace Dsp\nnamespace Gen\n", SCALAR_VARS]
    tu = '#include "fft/small-fft.h"\n#include "fft/primes-fft.h"\n'
    recs = {}
    for cls in ("SmallFftPow2C", "SmallFftPow2R", "PrimesFftC"):
        recs[cls] = record(clang_ast(tu, cls), cls)

    def method(cls, name):
        ms = [m for m in recs[cls]["inner"] if m.get("kind") == "CXXMethodDecl" and m.get("name") == name and
              any(c.get("kind") == "CompoundStmt" for c in m.get("inner", []))]
        if len(ms) != 1:
            raise Unsupported("%s::%s not found" % (cls, name))
        return ms[0]

    all_lits = {}
    cmap = {}
    plan = [("SmallFftPow2C", "_fft_n2", "fft2", "cx", 2), ("SmallFftPow2C", "_fft_n4", "fft4", "cx", 4),
            ("SmallFftPow2C", "_fft_n8", "fft8", "cx", 8), ("SmallFftPow2R", "_fft_n2", "rfft2", "real", 2),
            ("SmallFftPow2R", "_fft_n4", "rfft4", "real", 4), ("SmallFftPow2R", "_fft_n8", "rfft8", "real", 8),
            ("PrimesFftC", "_dft_n3", "dft3", "cx", 3)]
    for cls, mname, lname, kind, n in plan:
        text, lits = gen_kernel(method(cls, mname), lname, kind, n, cmap)
        if lname in ("fft4", "rfft4") and lits:
            raise Unsupported("%s uses a non-dyadic literal" % lname)
        out.append("/-- `%s::%s` (symbolically executed; locals are `let`s in program order) -/\n%s" % (cls, mname, text))
        all_lits[lname] = lits
        cmap[(mname, kind)] = (lname, n)
    for lname, lits in all_lits.items():
        for i, l in enumerate(lits):
            out.append("/-- literal `c%d` of `%s` as written in the source -/\ndef %s_c%d [OfScientific α] : α := (%s : α)\n/-- … and as an exact rational (numerator, denominator) -/\ndef %s_c%d_rat : Int × Nat := (%s, %s)\n" % (
                i, lname, lname, i, l, lname, i, *rat_of(l)))
    out.append("end Gen\nend Dsp\n")
    return "\n".join(out)


def rat_of(lit):
    from fractions import Fraction
    fr = Fraction(lit)       # exact decimal value of the source text
    return str(fr.numerator), str(fr.denominator)


# ------------------------------------------------------------------------------------------
# unit: Dynamics  (dB conversions of lib/math.cpp, gain computers of the compressor and limiter)


def gen_dynamics():
    out = [HEADER % "lib/math.cpp (mag2db, db2mag, pow2db, db2pow), include/dsplib/math.h (abs2(real_t)), "
                    "include/dsplib/audio/compressor.h, limiter.h (_compute_gain)",
           "import DspVerif.Scalar\nnamespace Dsp\nnamespace Gen\n", SCALAR_VARS]
    tu = "#include <dsplib.h>\n"
    # scalar helpers
    docs = clang_ast('#include "math.cpp"\n', "dsplib::")

    def free_fn(name, first_param_kind):
        for d in docs:
            if d.get("kind") == "FunctionDecl" and d.get("name") == name and any(c.get("kind") == "CompoundStmt" for c in d.get("inner", [])):
                ps = params_of(d)
                if len(ps) == 1 and kind_of_type(qt(ps[0])) == first_param_kind:
                    return d
        raise Unsupported("%s(%s) not found" % (name, first_param_kind))

    for name in ("mag2db", "db2mag", "pow2db", "db2pow"):
        f = free_fn(name, "real")
        tr = Tr()
        body = tr.stmts([body_of(f)], "?", False)
        out.append("/-- `%s(real_t)` of lib/math.cpp -/\ndef %s (%s : α) : α :=\n%s\n" % (name, name, params_of(f)[0]["name"], indent(body)))
    f = free_fn("abs2", "real")
    out.append("/-- `abs2(const real_t&)` of include/dsplib/math.h -/\ndef abs2r (%s : α) : α :=\n%s\n" % (
        params_of(f)[0]["name"], indent(Tr().stmts([body_of(f)], "?", False))))
    calls = {"mag2db": lambda a, n: "(mag2db %s)" % a[0], "db2mag": lambda a, n: "(db2mag %s)" % a[0],
             "abs2": lambda a, n: "(abs2r %s)" % a[0], "eps": lambda a, n: "eps"}
    for cls, lname, fields in (("Compressor", "compressorGain", [("T_", "T", "α"), ("R_", "R", "Int"), ("W_", "W", "α")]),
                               ("Limiter", "limiterGain", [("T_", "T", "α"), ("W_", "W", "α")])):
        rec = record(clang_ast(tu, cls), cls)
        ms = [m for m in rec["inner"] if m.get("kind") == "CXXMethodDecl" and m.get("name") == "_compute_gain"]
        if len(ms) != 1:
            raise Unsupported("%s::_compute_gain not found" % cls)
        # field types must be what the signature below says (this is how `int R_` is exposed)
        ftypes = {c["name"]: kind_of_type(qt(c)) for c in rec["inner"] if c.get("kind") == "FieldDecl"}
        for cf, lf, lt in fields:
            want = "int" if lt == "Int" else "real"
            if ftypes.get(cf) != want:
                raise Unsupported("%s::%s has type kind %s, expected %s" % (cls, cf, ftypes.get(cf), want))
        tr = Tr(this_name="p", fields={cf: lf for cf, lf, _ in fields}, user_calls=calls)
        body = tr.stmts([body_of(ms[0])], "?", False)
        out.append("/-- parameters of `%s` read by its gain computer -/\nstructure %sParams (α : Type) where\n%s\n" % (
            cls, cls, "\n".join("  %s : %s" % (lf, lt) for _, lf, lt in fields)))
        out.append("/-- `%s::_compute_gain(real_t x)`: static gain in dB for input sample `x` (`eps` = `eps()`) -/\n"
                   "def %s (eps : α) (p : %sParams α) (%s : α) : α :=\n%s\n" % (cls, lname, cls, params_of(ms[0])[0]["name"], indent(body)))
    out.append("end Gen\nend Dsp\n")
    return "\n".join(out)


# ------------------------------------------------------------------------------------------
# unit: Awgn  (noise deviation formulas of lib/awgn.cpp)


def gen_awgn():
    out = [HEADER % "lib/awgn.cpp (per-component noise deviation of awgn for real and complex input)",
           "import DspVerif.Scalar\nnamespace Dsp\nnamespace Gen\n", SCALAR_VARS]
    docs = clang_ast('#include "awgn.cpp"\n', "dsplib::awgn")
    fns = [d for d in docs if d.get("kind") == "FunctionDecl" and d.get("name") == "awgn" and
           any(c.get("kind") == "CompoundStmt" for c in d.get("inner", []))]
    seen = set()
    for f in fns:
        ps = params_of(f)
        kind = "C" if "cmplx" in qt(ps[0]) or "base_array<dsplib::cmplx_t>" in qt(ps[0]) or "arr_cmplx" in qt(ps[0]) else "R"
        if kind in seen:
            continue
        seen.add(kind)
        # statements up to and including `real_t stddev = <expr of rms(arr), snr>;` (earlier local declarations become lets)
        stmts = body_of(f)["inner"]
        idx = None
        for i, st in enumerate(stmts):
            if st.get("kind") == "DeclStmt" and any(d.get("name") == "stddev" for d in st.get("inner", [])):
                idx = i
                break
        if idx is None:
            raise Unsupported("awgn(%s): no `stddev` declaration found" % kind)
        tr = Tr(user_calls={"rms": lambda a, n: "rmsArr"})
        body = tr.stmts(stmts[:idx + 1], "stddev", False)
        out.append("/-- `awgn(const arr_%s&, real_t snr)`: deviation of each noise component, given `rmsArr = rms(arr)` -/\n"
                   "def awgnSigma%s (rmsArr %s : α) : α :=\n%s\n" % ("cmplx" if kind == "C" else "real", kind, ps[1]["name"], indent(body)))
    if seen != {"R", "C"}:
        raise Unsupported("awgn overloads found: %s" % sorted(seen))
    out.append("end Gen\nend Dsp\n")
    return "\n".join(out)


# ------------------------------------------------------------------------------------------
UNITS = {}


def unit(name, sources):
    def deco(f):
        UNITS[name] = (f, sources)
        return f
    return deco


unit("Cmplx", ["include/dsplib/types.h"])(gen_cmplx)
unit("Slice", ["include/dsplib/slice.h"])(gen_slice)
unit("SmallFft", ["lib/fft/small-fft.h", "lib/fft/primes-fft.h"])(gen_smallfft)
unit("Dynamics", ["lib/math.cpp", "include/dsplib/math.h", "include/dsplib/audio/compressor.h", "include/dsplib/audio/limiter.h"])(gen_dynamics)
unit("Awgn", ["lib/awgn.cpp"])(gen_awgn)
unit("Consts", ["lib/primes.cpp", "lib/fft/primes-fft.h", "lib/fft/fft.cpp", "CMakeLists.txt"])(gen_consts)


def source_sha(sources):
    h = hashlib.sha256()
    for s in sources:
        with open(os.path.join(REPO, s), "rb") as f:
            h.update(f.read())
    return h.hexdigest()[:16]


def run(units=None, out_dir=None, check_only=False):
    """regenerate units; returns dict unit -> {ok, changed, error, src_sha, out_sha}"""
    out_dir = out_dir or GEN_DIR
    os.makedirs(out_dir, exist_ok=True)
    res = {}
    for name in (units or list(UNITS)):
        f, sources = UNITS[name]
        path = os.path.join(out_dir, name + ".lean")
        info = {"sources": sources}
        try:
            info["src_sha"] = source_sha(sources)
            text = f()
            lines = text.split("\n")
            imps = [l for l in lines if l.startswith("import ")]
            text = "\n".join(imps + [l for l in lines if not l.startswith("import ")])
            old = open(path).read() if os.path.exists(path) else None
            info["changed"] = (old != text)
            info["out_sha"] = sha(text)
            if old != text and not check_only:
                with open(path, "w") as fh:
                    fh.write(text)
            info["ok"] = True
        except Unsupported as ex:
            info["ok"] = False
            info["error"] = "unsupported construct: %s" % ex
        except FileNotFoundError as ex:
            info["ok"] = False
            info["error"] = "source missing: %s" % ex
        res[name] = info
    return res


if __name__ == "__main__":
    import argparse
    ap = argparse.ArgumentParser()
    ap.add_argument("units", nargs="*")
    ap.add_argument("--check-only", action="store_true")
    a = ap.parse_args()
    r = run(a.units or None, check_only=a.check_only)
    print(json.dumps(r, indent=1))
    sys.exit(0 if all(v["ok"] for v in r.values()) else 3)
