#!/usr/bin/env python3
"""cxx2lean: translate loop-free C++ (clang-14 JSON AST) from /repo's working tree into Lean 4
definitions (DspVerif/Gen/*.lean).  Run on every check; the theorems in Props/ about the
generated definitions are then re-checked against what the code says *now*.

Supported subset (anything else raises Unsupported -> the GEN obligation fails):
  expressions: + - * / % unary-, comparisons, && || !, ?:, member access, literals, int<->real
               casts, calls to a fixed table (std::abs, sqrt, cos, ... abs2, conj), cmplx_t
               operators, constructor / braced-init of cmplx_t
  statements : declarations with initialiser, (compound) assignment to locals / fields,
               if / else, return, DSPLIB_THROW / DSPLIB_ASSERT (throw std::runtime_error)
Integers are typed from the AST: C++ `int` / and % become Int.tdiv / Int.tmod (C truncation).
"""
import json, os, subprocess, sys, hashlib, re

REPO = os.environ.get("VERIF_REPO", "/repo")
HERE = os.path.dirname(os.path.abspath(__file__))
GEN_DIR = os.path.join(os.environ.get("VERIF_LEAN") or os.path.join(HERE, "..", "lean"), "DspVerif", "Gen")


class Unsupported(Exception):
    pass


# ------------------------------------------------------------------------------------------
# AST loading
_ast_cache = {}


def clang_ast(source_text, filt, extra_inc=()):
    """run clang on a tiny TU that includes the wanted header(s); return list of JSON docs"""
    key = (source_text, filt)
    if key in _ast_cache:
        return _ast_cache[key]
    # the TU lives in a directory of its own: `#include "x.cpp"` looks beside the TU first, and a stray
    # file of that name in a shared scratch directory must never be picked up instead of /repo's
    import tempfile, shutil
    base = os.environ.get("VERIF_WORK", "/tmp")
    os.makedirs(base, exist_ok=True)
    work = tempfile.mkdtemp(prefix="cxx2lean_tu.", dir=base)
    tu = os.path.join(work, "cxx2lean_tu_%s.cpp" % hashlib.sha1(source_text.encode()).hexdigest()[:10])
    with open(tu, "w") as f:
        f.write(source_text)
    defs_dir = os.environ.get("VERIF_DEFS_DIR", os.path.join(REPO, "_build"))
    cmd = ["clang++-14", "-std=gnu++17", "-fsyntax-only", "-DNDEBUG", "-I", os.path.join(REPO, "include"),
           "-I", defs_dir, "-I", os.path.join(REPO, "lib")]
    for i in extra_inc:
        cmd += ["-I", i]
    cmd += ["-Xclang", "-ast-dump=json", "-Xclang", "-ast-dump-filter=" + filt, tu]
    p = subprocess.run(cmd, capture_output=True, text=True)
    shutil.rmtree(work, ignore_errors=True)
    if p.returncode != 0:
        # a TU that does not compile (missing generated header, syntax error) gives a partial AST: never translate that
        raise Unsupported("clang failed on %s: %s" % (filt, p.stderr[:2000]))
    s = p.stdout
    dec = json.JSONDecoder()
    i = 0
    docs = []
    while i < len(s):
        while i < len(s) and s[i].isspace():
            i += 1
        if i >= len(s):
            break
        d, j = dec.raw_decode(s, i)
        docs.append(d)
        i = j
    _ast_cache[key] = docs
    return docs


def prefetch(pairs):
    """run clang for several (TU text, filter) pairs concurrently; results land in the cache"""
    from concurrent.futures import ThreadPoolExecutor
    todo = [p for p in dict.fromkeys(pairs) if p not in _ast_cache]
    if len(todo) < 2:
        return
    def one(p):
        try:
            clang_ast(*p)
        except Unsupported:
            pass          # reported when the unit asks for this AST itself
    with ThreadPoolExecutor(max_workers=min(8, len(todo))) as ex:
        list(ex.map(one, todo))


def find_all(node, pred, out=None):
    if out is None:
        out = []
    if pred(node):
        out.append(node)
    for c in node.get("inner", []) or []:
        find_all(c, pred, out)
    return out


def qt(n):
    return n.get("type", {}).get("qualType", "")


def dqt(n):
    """the type of a node with typedef sugar removed (as clang reports it)"""
    return n.get("type", {}).get("desugaredQualType") or n.get("type", {}).get("qualType", "")


def strip_type(t):
    t = t.replace("const ", "").replace("volatile ", "").replace("&", "").strip()
    return t


REAL_T = {"double", "dsplib::real_t", "real_t", "float", "long double"}
INT_T = {"int", "unsigned int", "uint32_t", "int32_t", "size_t", "long", "unsigned long", "std::size_t",
         "std::vector::size_type", "size_type", "uint64_t", "int64_t", "unsigned short", "short", "long long",
         "unsigned long long", "uint16_t", "int16_t"}
CX_T = {"dsplib::cmplx_t", "cmplx_t"}


def kind_of_type(t):
    t = strip_type(t)
    if t in REAL_T:
        return "real"
    if t in INT_T:
        return "int"
    if t in CX_T:
        return "cx"
    if t == "bool" or t == "_Bool":
        return "bool"
    return "other:" + t


# ------------------------------------------------------------------------------------------
class Tr:
    """expression / statement translator for one function body"""

    # name of free function or method -> (lean format, result kind); args substituted
    CALLS = {
        "abs": None, "sqrt": "Fn.sqrt", "cos": "Fn.cos", "sin": "Fn.sin", "exp": "Fn.exp", "log": "Fn.log",
        "log10": "Fn.log10", "atan": "Fn.atan", "pow": "Fn.pow", "floor": "Fn.floor", "round": "Fn.round",
        "tanh": "Fn.tanh", "fabs": "Fn.abs",
    }

    def __init__(self, this_name="self", fields=None, this_kind=None, renames=None, user_calls=None,
                 int_real_cast="Fn.ofInt", literals=None):
        self.this = this_name
        self.fields = fields or {}        # C++ field name -> lean field name
        self.this_kind = this_kind        # 'cx' or 'struct'
        self.renames = renames or {}
        self.user_calls = user_calls or {}  # name -> callable(args_strs, node) -> str
        self.int_real_cast = int_real_cast
        self.literals = literals if literals is not None else []   # collected floating literals

    # -------------------------------------------------------------- expressions
    def var(self, name):
        return self.renames.get(name, name.lstrip("_") if name.startswith("_") else name)

    def e(self, n):
        k = n.get("kind")
        m = getattr(self, "e_" + k, None)
        if m is None:
            raise Unsupported("expression kind %s" % k)
        return m(n)

    def passthru(self, n):
        inner = [c for c in n.get("inner", []) if c.get("kind") not in ("WarnUnusedResultAttr",)]
        if len(inner) != 1:
            raise Unsupported("%s with %d children" % (n.get("kind"), len(inner)))
        return self.e(inner[0])

    e_ParenExpr = passthru
    e_ExprWithCleanups = passthru
    e_MaterializeTemporaryExpr = passthru
    e_CXXBindTemporaryExpr = passthru
    e_ConstantExpr = passthru
    e_CXXFunctionalCastExpr = lambda self, n: self.cast(n)
    e_CStyleCastExpr = lambda self, n: self.cast(n)
    e_CXXStaticCastExpr = lambda self, n: self.cast(n)
    e_ImplicitCastExpr = lambda self, n: self.cast(n)

    def cast(self, n):
        ck = n.get("castKind")
        inner = n["inner"][0]
        if ck in ("LValueToRValue", "NoOp", "FunctionToPointerDecay", "UncheckedDerivedToBase", "DerivedToBase",
                  "ArrayToPointerDecay"):
            return self.e(inner)
        if ck == "IntegralToFloating":
            return "(%s %s)" % (self.int_real_cast, self.e(inner))
        if ck == "IntegralCast":
            # int <-> unsigned etc.: same mathematical value under the no-overflow obligations
            return self.e(inner)
        if ck == "FloatingCast":
            return self.e(inner)
        if ck == "IntegralToBoolean":
            return "(%s ≠ 0)" % self.e(inner)
        if ck == "ConstructorConversion":
            return self.e(inner)
        if ck == "FloatingToIntegral":
            raise Unsupported("float->int cast")
        raise Unsupported("cast kind %s" % ck)

    def e_IntegerLiteral(self, n):
        return "(%s : Int)" % n["value"]

    def e_CXXBoolLiteralExpr(self, n):
        return "True" if n["value"] else "False"

    def e_FloatingLiteral(self, n):
        v = n["value"]
        self.literals.append(v)
        f = float(v)
        d = dyadic(f)
        if d is not None:
            return d
        return "(%s)" % repr(f)

    def e_CXXThisExpr(self, n):
        return self.this

    def e_DeclRefExpr(self, n):
        ref = n.get("referencedDecl", {})
        name = ref.get("name")
        if ref.get("kind") in ("ParmVarDecl", "VarDecl"):
            return self.var(name)
        if ref.get("kind") == "EnumConstantDecl":
            return name
        raise Unsupported("DeclRefExpr to %s %s" % (ref.get("kind"), name))

    def e_MemberExpr(self, n):
        base = n["inner"][0]
        name = n["name"]
        lean_field = self.fields.get(name, name.lstrip("_").rstrip("_"))
        if base.get("kind") == "CXXThisExpr":
            return "%s.%s" % (self.this, lean_field)
        b = self.e(base)
        return "%s.%s" % (b, lean_field)

    def e_CXXDependentScopeMemberExpr(self, n):
        name = n.get("member") or n.get("name")
        lean_field = self.fields.get(name, name.lstrip("_").rstrip("_"))
        return "%s.%s" % (self.e(n["inner"][0]), lean_field)

    def e_UnaryOperator(self, n):
        op = n["opcode"]
        inner = n["inner"][0]
        if op == "*" and inner.get("kind") == "CXXThisExpr":
            return self.this
        a = self.e(inner)
        if op == "-":
            return "(-%s)" % a
        if op == "+":
            return a
        if op == "!":
            return "(¬ %s)" % a
        raise Unsupported("unary %s" % op)

    def e_BinaryOperator(self, n):
        op = n["opcode"]
        l, r = n["inner"]
        a, b = self.e(l), self.e(r)
        rk = kind_of_type(qt(n))
        lk = kind_of_type(qt(l))
        if op in ("+", "-", "*"):
            return "(%s %s %s)" % (a, op, b)
        if op == "/":
            if rk == "int":
                return "(Int.tdiv %s %s)" % (a, b)
            return "(%s / %s)" % (a, b)
        if op == "%":
            return "(Int.tmod %s %s)" % (a, b)
        if op in ("<", ">", "<=", ">="):
            return "(%s %s %s)" % (a, {"<": "<", ">": ">", "<=": "≤", ">=": "≥"}[op], b)
        if op == "==":
            return "(%s = %s)" % (a, b)
        if op == "!=":
            return "(%s ≠ %s)" % (a, b)
        if op == "&&":
            return "(%s ∧ %s)" % (a, b)
        if op == "||":
            return "(%s ∨ %s)" % (a, b)
        raise Unsupported("binary %s" % op)

    def e_ConditionalOperator(self, n):
        c, a, b = n["inner"]
        return "(if %s then %s else %s)" % (self.e(c), self.e(a), self.e(b))

    def callee_name(self, n):
        f = n["inner"][0]
        if f.get("kind") == "CXXDependentScopeMemberExpr":
            return f.get("member") or f.get("name")
        refs = find_all(f, lambda x: x.get("kind") == "DeclRefExpr" or x.get("kind") == "MemberExpr")
        if not refs:
            raise Unsupported("call without callee")
        r = refs[0]
        if r.get("kind") == "MemberExpr":
            return r["name"]
        return r["referencedDecl"]["name"]

    def e_CallExpr(self, n):
        name = self.callee_name(n)
        args = [self.e(a) for a in n["inner"][1:] if a.get("kind") != "CXXDefaultArgExpr"]
        if n["inner"][0].get("kind") == "CXXDependentScopeMemberExpr":
            args = [self.e(n["inner"][0]["inner"][0])] + args
        if name in self.user_calls:
            return self.user_calls[name](args, n)
        if name == "abs":
            k = kind_of_type(qt(n))
            if k == "int":
                return "(Int.ofNat (Int.natAbs %s))" % args[0]
            if k == "real":
                return "(Fn.abs %s)" % args[0]
            raise Unsupported("abs on %s" % qt(n))
        if name in ("min", "max") and len(args) == 2:
            k = kind_of_type(qt(n))
            # std::min(a,b) = (b < a) ? b : a ; std::max(a,b) = (a < b) ? b : a
            if name == "min":
                return "(if %s < %s then %s else %s)" % (args[1], args[0], args[1], args[0])
            return "(if %s < %s then %s else %s)" % (args[0], args[1], args[1], args[0])
        if name in self.CALLS and self.CALLS[name]:
            # libm functions take real arguments: an `int` argument (std::pow(10, x)) is promoted
            raw = [a for a in n["inner"][1:] if a.get("kind") != "CXXDefaultArgExpr"]
            args = [("(Fn.ofInt %s)" % s_) if kind_of_type(qt(r)) == "int" else s_ for s_, r in zip(args, raw)]
            return "(%s %s)" % (self.CALLS[name], " ".join(args))
        raise Unsupported("call to %s" % name)

    def e_CXXMemberCallExpr(self, n):
        me = n["inner"][0]
        name = me["name"]
        base = me["inner"][0]
        obj = self.this if base.get("kind") == "CXXThisExpr" else self.e(base)
        args = [self.e(a) for a in n["inner"][1:] if a.get("kind") != "CXXDefaultArgExpr"]
        if name in self.user_calls:
            return self.user_calls[name]([obj] + args, n)
        if name in ("abs2", "conj") and kind_of_type(qt(base)).startswith("cx") or name in ("abs2", "conj"):
            return "(Cx.%s %s)" % (name, obj)
        raise Unsupported("member call %s" % name)

    def e_CXXOperatorCallExpr(self, n):
        name = self.callee_name(n)
        args = [self.e(a) for a in n["inner"][1:]]
        op = name.replace("operator", "")
        if op in ("+", "-", "*", "/") and len(args) == 2:
            return "(%s %s %s)" % (args[0], op, args[1])
        if op == "-" and len(args) == 1:
            return "(-%s)" % args[0]
        raise Unsupported("operator call %s/%d" % (name, len(args)))

    def e_CXXConstructExpr(self, n):
        k = kind_of_type(qt(n))
        args = [a for a in n.get("inner", []) if a.get("kind") != "CXXDefaultArgExpr"]
        if k == "cx":
            if len(args) == 2:
                return "(Cx.mk %s %s)" % (self.e(args[0]), self.e(args[1]))
            if len(args) == 1:
                ak = kind_of_type(qt(args[0]))
                if ak == "cx":
                    return self.e(args[0])   # copy
                return "(Cx.mk %s (Fn.ofInt 0))" % self.e(args[0])
            if len(args) == 0:
                return "(Cx.mk (Fn.ofInt 0) (Fn.ofInt 0))"
        raise Unsupported("construct %s/%d" % (qt(n), len(args)))

    def e_InitListExpr(self, n):
        k = kind_of_type(qt(n))
        if k == "cx":
            args = n.get("inner", [])
            if len(args) == 2:
                return "(Cx.mk %s %s)" % (self.e(args[0]), self.e(args[1]))
        raise Unsupported("init list %s" % qt(n))

    # -------------------------------------------------------------- statements
    # `rest` is a thunk producing the Lean text of the continuation.
    def is_throw(self, n):
        return bool(find_all(n, lambda x: x.get("kind") == "CXXThrowExpr"))

    def throw_msg(self, n):
        lits = find_all(n, lambda x: x.get("kind") == "StringLiteral")
        msgs = [json.loads(l["value"]) if l["value"].startswith('"') else l["value"] for l in lits]
        msgs = [m for m in msgs if m != "dsplib: "]
        return msgs[0] if msgs else "error"

    def stmts(self, lst, final, throws):
        """translate a statement list; `final` = Lean text used if control falls off the end"""
        if not lst:
            return final
        s, rest = lst[0], lst[1:]
        k = s.get("kind")
        cont = lambda: self.stmts(rest, final, throws)
        if k == "CompoundStmt":
            return self.stmts(list(s.get("inner", [])) + rest, final, throws)
        if k == "NullStmt":
            return cont()
        if k == "DeclStmt":
            out = None
            decls = s["inner"]
            text = ""
            for d in decls:
                if d.get("kind") != "VarDecl" or "inner" not in d:
                    raise Unsupported("declaration without initialiser")
                init = [c for c in d["inner"] if c.get("kind") not in ("FullComment",)][0]
                text += "let %s := %s\n" % (self.var(d["name"]), self.e(init))
            return text + cont()
        if k == "ReturnStmt":
            if not s.get("inner"):
                return final
            v = self.e(s["inner"][0])
            return ("(.ok %s)" % v) if throws else v
        if k in ("ExprWithCleanups",) and s.get("inner") and s["inner"][0].get("kind") == "CXXThrowExpr":
            return '(.error "%s")' % self.throw_msg(s)
        if k == "CXXThrowExpr":
            return '(.error "%s")' % self.throw_msg(s)
        if k == "IfStmt":
            parts = s["inner"]
            cond = self.e(parts[0])
            then = parts[1]
            els = parts[2] if len(parts) > 2 else None
            t = self.stmts([then] + rest, final, throws) if not self.ends(then) else self.stmts([then], final, throws)
            if els is not None:
                e = self.stmts([els] + rest, final, throws) if not self.ends(els) else self.stmts([els], final, throws)
            else:
                e = cont()
            return "if %s then\n%s\nelse\n%s" % (cond, indent(t), indent(e))
        if k in ("BinaryOperator", "CompoundAssignOperator") and (s["opcode"] == "=" or k == "CompoundAssignOperator"):
            lhs, rhs = s["inner"]
            r = self.e(rhs)
            if k == "CompoundAssignOperator":
                op = s["opcode"][:-1]
                cur = self.e(lhs)
                if op == "/" and kind_of_type(qt(s)) == "int":
                    r = "(Int.tdiv %s %s)" % (cur, r)
                elif op == "%":
                    r = "(Int.tmod %s %s)" % (cur, r)
                else:
                    r = "(%s %s %s)" % (cur, op, r)
            return self.assign(lhs, r) + cont()
        if k == "ExprWithCleanups":
            return self.stmts(list(s["inner"]) + rest, final, throws)
        if k == "UnaryOperator" and s.get("opcode") in ("++", "--"):
            # `++x;` / `x++;` as a statement (value unused): x := x +/- 1
            tgt = s["inner"][0]
            one = "(1 : Int)" if kind_of_type(qt(tgt)) == "int" else "(Fn.ofInt (1 : Int))"
            r = "(%s %s %s)" % (self.e(tgt), "+" if s["opcode"] == "++" else "-", one)
            return self.assign(tgt, r) + cont()
        if k == "CXXOperatorCallExpr" and self.callee_name(s) == "operator=":
            lhs, rhs = s["inner"][1], s["inner"][2]
            return self.assign(lhs, self.e(rhs)) + cont()
        raise Unsupported("statement kind %s" % k)

    def ends(self, s):
        """does statement s always leave the function (return / throw)?"""
        k = s.get("kind")
        if k in ("ReturnStmt", "CXXThrowExpr"):
            return True
        if k == "ExprWithCleanups":
            return any(self.ends(c) for c in s.get("inner", []))
        if k == "CompoundStmt":
            inner = s.get("inner", [])
            return bool(inner) and self.ends(inner[-1])
        if k == "IfStmt":
            parts = s["inner"]
            return len(parts) > 2 and self.ends(parts[1]) and self.ends(parts[2])
        return False

    def assign(self, lhs, r):
        k = lhs.get("kind")
        if k == "DeclRefExpr":
            return "let %s := %s\n" % (self.var(lhs["referencedDecl"]["name"]), r)
        if k == "MemberExpr":
            base = lhs["inner"][0]
            name = lhs["name"]
            f = self.fields.get(name, name.lstrip("_").rstrip("_"))
            if base.get("kind") == "CXXThisExpr":
                return "let %s := { %s with %s := %s }\n" % (self.this, self.this, f, r)
            if base.get("kind") == "DeclRefExpr":
                v = self.var(base["referencedDecl"]["name"])
                return "let %s := { %s with %s := %s }\n" % (v, v, f, r)
        if k == "UnaryOperator" and lhs["opcode"] == "*" and lhs["inner"][0].get("kind") == "CXXThisExpr":
            return "let %s := %s\n" % (self.this, r)
        raise Unsupported("assignment target %s" % k)


def indent(t, n=2):
    return "\n".join(" " * n + l for l in t.split("\n"))


def body_of(fn):
    for c in fn.get("inner", []):
        if c.get("kind") == "CompoundStmt":
            return c
    raise Unsupported("no body for %s" % fn.get("name"))


def params_of(fn):
    return [c for c in fn.get("inner", []) if c.get("kind") == "ParmVarDecl"]


def sha(s):
    return hashlib.sha256(s.encode()).hexdigest()[:16]


HEADER = "/-! GENERATED by tools/cxx2lean.py from %s — do not edit; regenerated on every check run. -/\n"

SCALAR_VARS = ("variable {α : Type} [Add α] [Sub α] [Mul α] [Div α] [Neg α] [LT α] [LE α] [Fn α]\n"
               "  [DecidableRel (· < · : α → α → Prop)] [DecidableRel (· ≤ · : α → α → Prop)]\n")

# ------------------------------------------------------------------------------------------
# unit: Cmplx  (include/dsplib/types.h)


def gen_cmplx():
    docs = clang_ast("#include <dsplib/types.h>\n", "cmplx_t")
    rec = [d for d in docs if d.get("kind") == "CXXRecordDecl" and d.get("inner")][0]
    methods = {}
    for m in rec["inner"]:
        if m.get("kind") == "CXXMethodDecl" and any(c.get("kind") == "CompoundStmt" for c in m.get("inner", [])):
            ps = params_of(m)
            sig = m["name"] + "(" + ",".join(kind_of_type(qt(p)) for p in ps) + ")"
            methods[sig] = m
    want = [
        ("operator+(cx)", "add", "Cx α", "Cx α"), ("operator-(cx)", "sub", "Cx α", "Cx α"),
        ("operator*(cx)", "mul", "Cx α", "Cx α"), ("operator/(cx)", "div", "Cx α", "Cx α"),
        ("operator+(real)", "addr", "α", "Cx α"), ("operator-(real)", "subr", "α", "Cx α"),
        ("operator*(real)", "mulr", "α", "Cx α"), ("operator/(real)", "divr", "α", "Cx α"),
        ("operator-()", "neg", None, "Cx α"), ("conj()", "conj", None, "Cx α"), ("abs2()", "abs2", None, "α"),
        ("operator+=(cx)", "addAssign", "Cx α", "Cx α"), ("operator-=(cx)", "subAssign", "Cx α", "Cx α"),
        ("operator*=(cx)", "mulAssign", "Cx α", "Cx α"), ("operator/=(cx)", "divAssign", "Cx α", "Cx α"),
        ("operator+=(real)", "addrAssign", "α", "Cx α"), ("operator-=(real)", "subrAssign", "α", "Cx α"),
        ("operator*=(real)", "mulrAssign", "α", "Cx α"), ("operator/=(real)", "divrAssign", "α", "Cx α"),
    ]
    out = [HEADER % "include/dsplib/types.h (struct cmplx_t and left-scalar operators)",
           "import DspVerif.Scalar\nnamespace Dsp\nnamespace Cx\n", SCALAR_VARS]
    # order matters: abs2 before div etc.
    order = ["abs2()", "conj()", "operator-()", "operator+(cx)", "operator-(cx)", "operator*(cx)", "operator/(cx)",
             "operator+(real)", "operator-(real)", "operator*(real)", "operator/(real)"]
    names = {w[0]: w for w in want}
    defs = []
    for sig in order + [w[0] for w in want if w[0] not in order]:
        _, lname, pty, rty = names[sig]
        if sig not in methods:
            raise Unsupported("cmplx_t::%s not found" % sig)
        m = methods[sig]
        tr = Tr(this_name="self")
        ps = params_of(m)
        body = tr.stmts([body_of(m)], "self", False)
        arg = "" if pty is None else " (%s : %s)" % (ps[0]["name"], pty)
        defs.append("def %s (self : Cx α)%s : %s :=\n%s\n" % (lname, arg, rty, indent(body)))
        if lname == "div":
            # instances needed by later bodies (compound operators use `*this + rhs`)
            defs.append("instance : Add (Cx α) := ⟨add⟩\ninstance : Sub (Cx α) := ⟨sub⟩\n"
                        "instance : Mul (Cx α) := ⟨mul⟩\ninstance : Div (Cx α) := ⟨div⟩\n"
                        "instance : Neg (Cx α) := ⟨neg⟩\n")
    out += defs
    # left-oriented scalar operators (free function templates)
    docs2 = clang_ast("#include <dsplib/types.h>\n", "dsplib::operator")
    left = {}
    for d in docs2:
        if d.get("kind") == "FunctionTemplateDecl":
            fns = [c for c in d.get("inner", []) if c.get("kind") == "FunctionDecl"]
            if not fns:
                continue
            f = fns[0]
            ps = params_of(f)
            if len(ps) == 2 and kind_of_type(qt(ps[1])) == "cx":
                left[d["name"]] = f
    # template bodies are dependent (unresolved operators): translate the pattern structurally
    out.append(gen_left_ops(left))
    out.append("end Cx\nend Dsp\n")
    return "\n".join(out)


def gen_left_ops(left):
    """left-oriented `T op cmplx_t` templates.  Bodies are dependent-typed in the AST, so the
    translation is by structural pattern: `rhs OP lhs`, `{lhs - rhs.re, -rhs.im}`, `cmplx_t(lhs) / rhs`."""
    res = []
    for op, lname in (("operator+", "radd"), ("operator-", "rsub"), ("operator*", "rmul"), ("operator/", "rdiv")):
        if op not in left:
            raise Unsupported("left %s missing" % op)
        f = left[op]
        ret = find_all(body_of(f), lambda x: x.get("kind") == "ReturnStmt")
        if len(ret) != 1:
            raise Unsupported("left %s: not a single return" % op)
        r = ret[0]["inner"][0]
        text = pattern_left(r)
        res.append("/-- `%s(const T& lhs, const cmplx_t& rhs)` -/\ndef %s (lhs : α) (rhs : Cx α) : Cx α :=\n  %s\n" % (op, lname, text))
    return "\n".join(res)


def pattern_left(n):
    k = n.get("kind")
    if k in ("ExprWithCleanups", "MaterializeTemporaryExpr", "ImplicitCastExpr", "ParenExpr"):
        return pattern_left(n["inner"][0])
    if k == "BinaryOperator" or (k == "CXXOperatorCallExpr"):
        if k == "BinaryOperator":
            a, b = n["inner"]
            op = n["opcode"]
        else:
            a, b = n["inner"][1], n["inner"][2]
            cal = find_all(n["inner"][0], lambda x: x.get("kind") in ("DeclRefExpr", "UnresolvedLookupExpr"))[0]
            op = (cal.get("name") or cal["referencedDecl"]["name"]).replace("operator", "")
        sa, sb = pattern_left(a), pattern_left(b)
        kinds = (leaf_kind(sa), leaf_kind(sb))
        if kinds == ("cx", "real"):
            return "(%s %s %s)" % ({"+": "addr", "-": "subr", "*": "mulr", "/": "divr"}[op], sa, sb)
        if kinds == ("cx", "cx"):
            return "(%s %s %s)" % (sa, op, sb)
        if kinds == ("real", "real"):
            return "(%s %s %s)" % (sa, op, sb)
        raise Unsupported("left-op pattern kinds %s" % (kinds,))
    if k == "DeclRefExpr":
        return n["referencedDecl"]["name"]
    if k in ("MemberExpr", "CXXDependentScopeMemberExpr"):
        name = n.get("name") or n.get("member")
        return "%s.%s" % (pattern_left(n["inner"][0]), name)
    if k == "UnaryOperator" and n["opcode"] == "-":
        return "(-%s)" % pattern_left(n["inner"][0])
    if k == "InitListExpr":
        a, b = n["inner"]
        return "(Cx.mk %s %s)" % (pattern_left(a), pattern_left(b))
    if k in ("CXXFunctionalCastExpr", "CXXUnresolvedConstructExpr", "CXXConstructExpr", "CXXTemporaryObjectExpr"):
        args = n.get("inner", [])
        if len(args) == 1:
            s = pattern_left(args[0])
            if leaf_kind(s) == "real":
                return "(Cx.mk %s (Fn.ofInt 0))" % s
            return s
    raise Unsupported("left-op pattern %s" % k)


def leaf_kind(s):
    if s == "lhs" or s.startswith("(lhs") or s.endswith(".re") or s.endswith(".im") or s.endswith(".re)") or s.endswith(".im)"):
        return "real"
    return "cx"


# ------------------------------------------------------------------------------------------
# unit: Slice  (include/dsplib/slice.h)

ARRAY_TU = "#include <dsplib/array.h>\n#include <dsplib/slice.h>\n"


def record(docs, name):
    for d in docs:
        if d.get("kind") == "ClassTemplateDecl" and d.get("name") == name:
            for c in d.get("inner", []):
                if c.get("kind") == "CXXRecordDecl" and c.get("inner"):
                    return c
    for d in docs:
        if d.get("kind") == "CXXRecordDecl" and d.get("name") == name and d.get("inner"):
            return d
    raise Unsupported("record %s not found" % name)


def gen_slice():
    docs = clang_ast(ARRAY_TU, "base_slice_t")
    rec = record(docs, "base_slice_t")
    ctors = [c for c in rec["inner"] if c.get("kind") == "CXXConstructorDecl" and len(params_of(c)) == 4]
    if len(ctors) != 1:
        raise Unsupported("base_slice_t(int,int,int,int) not found")
    ctor = ctors[0]
    fields = [c["name"] for c in rec["inner"] if c.get("kind") == "FieldDecl"]
    if sorted(fields) != sorted(["_i1", "_i2", "_m", "_n", "_nc"]):
        raise Unsupported("base_slice_t fields changed: %s" % fields)
    # default member initialisers must all be 0
    for c in rec["inner"]:
        if c.get("kind") == "FieldDecl":
            lits = find_all(c, lambda x: x.get("kind") == "IntegerLiteral")
            if [l["value"] for l in lits] != ["0"]:
                raise Unsupported("field %s default initialiser is not 0" % c["name"])
    for ci in [c for c in ctor["inner"] if c.get("kind") == "CXXCtorInitializer"]:
        if not find_all(ci, lambda x: x.get("kind") == "CXXDefaultInitExpr"):
            raise Unsupported("ctor initialiser list is not the default one")
    ps = [p["name"] for p in params_of(ctor)]
    tr = Tr(this_name="self", renames={p: p + "'" for p in ps})
    body = tr.stmts([body_of(ctor)], "(.ok self)", True)
    out = [HEADER % "include/dsplib/slice.h (base_slice_t constructor; slice copy-constructor argument lists)",
           "import DspVerif.Scalar\nnamespace Dsp\nnamespace Gen\n",
           "/-- the five `int` members of `base_slice_t` -/\nstructure BaseSlice where\n  i1 : Int := 0\n  i2 : Int := 0\n  m : Int := 0\n  n : Int := 0\n  nc : Int := 0\nderiving Repr, DecidableEq, Inhabited\n",
           "/-- `base_slice_t::base_slice_t(int n, int i1, int i2, int m)`; `.error` = the exception thrown -/\n"
           "def BaseSlice.ctor (%s : Int) : Except String BaseSlice :=\n  let self : BaseSlice := {}\n%s\n" % (" ".join(p + "'" for p in ps), indent(body))]
    # copy constructors: which expressions are passed to base_slice_t(n, i1, i2, m)
    for cls, tag in (("const_slice_t", "const"), ("slice_t", "mut")):
        d2 = clang_ast(ARRAY_TU, cls)
        r2 = record(d2, cls)
        k = 0
        for c in r2["inner"]:
            if c.get("kind") != "CXXConstructorDecl" or c.get("isImplicit"):
                continue
            cps = params_of(c)
            if len(cps) != 1:
                continue
            pty = strip_type(qt(cps[0]))
            src = "const" if "const_slice_t" in pty else "mut"
            inits = [ci for ci in c["inner"] if ci.get("kind") == "CXXCtorInitializer" and "baseInit" in ci]
            if len(inits) != 1:
                raise Unsupported("%s copy ctor: base initialiser not found" % cls)
            ce = find_all(inits[0], lambda x: x.get("kind") in ("CXXConstructExpr", "ParenListExpr"))[0]
            # what does rhs.size() return?  (read from the size() body of the source class)
            def size_field(a, n, src=src):
                scls = "const_slice_t" if src == "const" else "slice_t"
                sr = record(clang_ast(ARRAY_TU, scls), scls)
                sm = [m for m in sr["inner"] if m.get("kind") == "CXXMethodDecl" and m.get("name") == "size"]
                if len(sm) != 1:
                    raise Unsupported("%s::size() not found" % scls)
                return Tr(this_name=a[0]).stmts([body_of(sm[0])], "?", False)
            trc = Tr(this_name="self", user_calls={"size": size_field})
            args = [trc.e(a) for a in ce["inner"]]
            if len(args) != 4:
                raise Unsupported("%s copy ctor passes %d base arguments" % (cls, len(args)))
            out.append("/-- `%s(const %s& rhs)`: arguments handed to the base constructor -/\n"
                       "def copyArgs_%s_from_%s (rhs : BaseSlice) : Int × Int × Int × Int :=\n  (%s)\n" % (cls, pty, tag, src, ", ".join(args)))
            k += 1
        if k == 0:
            raise Unsupported("no copy constructor found in %s" % cls)
    out.append("end Gen\nend Dsp\n")
    return "\n".join(out)


# ------------------------------------------------------------------------------------------
# unit: Consts  (tables / thresholds / guard skeletons used by several models)


def int_literals(node):
    return [int(l["value"]) for l in find_all(node, lambda x: x.get("kind") == "IntegerLiteral")]


def fn_decl(docs, name, with_body=True):
    for d in docs:
        if d.get("kind") in ("FunctionDecl", "CXXMethodDecl") and d.get("name") == name:
            if not with_body or any(c.get("kind") == "CompoundStmt" for c in d.get("inner", [])):
                return d
    raise Unsupported("function %s not found" % name)


def gen_consts():
    out = [HEADER % "lib/primes.cpp (PRIMES), lib/fft/primes-fft.h (MAX_DFT_SIZE), lib/fft/fft.cpp (cache bypass sets), CMakeLists.txt (cache size)",
           "import DspVerif.Scalar\nnamespace Dsp\nnamespace Gen\n"]
    # PRIMES table
    docs = clang_ast('#include "primes.cpp"\n', "PRIMES")
    vd = [d for d in docs if d.get("kind") == "VarDecl" and d.get("name") == "PRIMES"]
    if len(vd) != 1:
        raise Unsupported("PRIMES table not found")
    tbl = int_literals([c for c in vd[0]["inner"] if c.get("kind") == "InitListExpr"][0])
    out.append("/-- `PRIMES` of lib/primes.cpp -/\ndef primesTable : List Nat := %s\n" % str(tbl).replace(" ", ""))
    # MAX_DFT_SIZE
    docs = clang_ast('#include "fft/primes-fft.h"\n', "MAX_DFT_SIZE")
    vd = [d for d in docs if d.get("kind") == "VarDecl" and d.get("name") == "MAX_DFT_SIZE"]
    if len(vd) != 1:
        raise Unsupported("MAX_DFT_SIZE not found")
    out.append("/-- `MAX_DFT_SIZE`: boundary for calculating a prime-length DFT directly instead of by CZT -/\ndef maxDftSize : Nat := %d\n" % int_literals(vd[0])[0])
    # bypass guards of the two plan factories (first `if` of the function)
    for fname, lname in (("create_fft_plan", "bypassC"), ("create_rfft_plan", "bypassR")):
        docs = clang_ast('#define DSPLIB_FFT_CACHE_SIZE 4\n#include "fft/fft.cpp"\n', fname)
        f = fn_decl(docs, fname)
        first = [c for c in body_of(f)["inner"]][0]
        if first.get("kind") != "IfStmt" or not Tr().ends(first["inner"][1]):
            raise Unsupported("%s: does not start with the small-size bypass" % fname)
        cond = Tr().e(first["inner"][0])
        out.append("/-- lengths for which `%s` bypasses the cache -/\ndef %s (n : Int) : Prop := %s\ninstance (n : Int) : Decidable (%s n) := by unfold %s; infer_instance\n" % (fname, lname, cond, lname, lname))
    # default cache size
    cm = open(os.path.join(REPO, "CMakeLists.txt")).read()
    m = re.search(r'set\(DSPLIB_FFT_CACHE_SIZE\s+"(\d+)"', cm)
    if not m:
        raise Unsupported("DSPLIB_FFT_CACHE_SIZE default not found in CMakeLists.txt")
    out.append("/-- default of the CMake option `DSPLIB_FFT_CACHE_SIZE` -/\ndef fftCacheSizeDefault : Nat := %s\n" % m.group(1))
    out.append("end Gen\nend Dsp\n")
    return "\n".join(out)


# ------------------------------------------------------------------------------------------
# symbolic execution of straight-line kernels over small fixed arrays (small-fft.h, _dft_n3)


def dyadic(f):
    """exact Lean term for a float that is k/2^j with small j, else None"""
    for j in range(0, 12):
        v = f * (1 << j)
        if v == int(v) and abs(v) < 1e9:
            k = int(v)
            if j == 0:
                return "(Fn.ofInt (%d : Int))" % k
            return "((Fn.ofInt (%d : Int)) / (Fn.ofInt (%d : Int)))" % (k, 1 << j)
    return None


class SymExec:
    """cells: (array, index) -> ('cx', expr) | ('fields', re, im) | ('real', expr)"""

    def __init__(self, fname, in_name, in_kind, out_name, callee_map):
        self.fname = fname
        self.cells = {}
        self.sizes = {}
        self.kinds = {}           # array name -> 'cx' | 'real'
        self.scalars = {}         # local scalar name -> lean expr
        self.consts = {}          # loop variables -> int
        self.lines = []
        self.lits = []            # distinct non-dyadic literal magnitudes (as repr strings)
        self.in_name, self.in_kind, self.out_name = in_name, in_kind, out_name
        self.out_off = 0
        self.callee_map = callee_map
        self.fresh = 0
        self.kinds[in_name] = in_kind
        self.kinds[out_name] = "cx"

    def lit(self, v):
        f = float(v)
        d = dyadic(f)
        if d is not None:
            return d
        key = repr(abs(f))
        if key not in self.lits:
            self.lits.append(key)
        name = "c%d" % self.lits.index(key)
        return name if f > 0 else "(-%s)" % name

    def let(self, base, ty, expr):
        name = base
        k = 0
        while any(l.startswith("let %s " % name) for l in self.lines):
            k += 1
            name = "%s_%d" % (base, k)
        self.lines.append("let %s : %s := %s" % (name, ty, expr))
        return name

    # ---- integer constant evaluation (indices, loop counters)
    def cint(self, n):
        k = n.get("kind")
        if k == "IntegerLiteral":
            return int(n["value"])
        if k in ("ImplicitCastExpr", "ParenExpr"):
            return self.cint(n["inner"][0])
        if k == "DeclRefExpr":
            nm = n["referencedDecl"]["name"]
            if nm in self.consts:
                return self.consts[nm]
        if k == "BinaryOperator" and n["opcode"] in "+-*":
            a, b = self.cint(n["inner"][0]), self.cint(n["inner"][1])
            return {"+": a + b, "-": a - b, "*": a * b}[n["opcode"]]
        raise Unsupported("non-constant index in kernel %s (%s)" % (self.fname, k))

    # ---- lvalues
    def lval(self, n):
        """returns (array, index, field|None)"""
        k = n.get("kind")
        if k in ("ImplicitCastExpr", "ParenExpr"):
            return self.lval(n["inner"][0])
        if k == "MemberExpr":
            a, i, f = self.lval(n["inner"][0])
            if f is not None:
                raise Unsupported("nested member")
            return a, i, n["name"]
        if k == "ArraySubscriptExpr":
            base = find_all(n["inner"][0], lambda x: x.get("kind") == "DeclRefExpr")[0]["referencedDecl"]["name"]
            return base, self.cint(n["inner"][1]), None
        if k == "UnaryOperator" and n["opcode"] == "*":
            inner = n["inner"][0]
            if inner.get("kind") == "UnaryOperator" and inner["opcode"] == "++" and inner.get("isPostfix"):
                base = find_all(inner, lambda x: x.get("kind") == "DeclRefExpr")[0]["referencedDecl"]["name"]
                if base != self.out_name:
                    raise Unsupported("pointer increment on %s" % base)
                i = self.out_off
                self.out_off += 1
                return base, i, None
        raise Unsupported("lvalue kind %s in kernel %s" % (k, self.fname))

    def read(self, a, i, f):
        if a == self.in_name:
            base = "(%s %d)" % (a, i)
            if self.in_kind == "real":
                return base
            return base if f is None else "%s.%s" % (base, f)
        c = self.cells.get((a, i))
        if c is None:
            if a in self.sizes or a == self.out_name:
                c = ("fields", "(Fn.ofInt (0 : Int))", "(Fn.ofInt (0 : Int))") if self.kinds.get(a) == "cx" else ("real", "(Fn.ofInt (0 : Int))")
            else:
                raise Unsupported("read of unknown array %s" % a)
        if c[0] == "real":
            return c[1]
        if c[0] == "cx":
            return c[1] if f is None else "%s.%s" % (c[1], f)
        if f is None:
            return "(Cx.mk %s %s)" % (c[1], c[2])
        return c[1] if f == "re" else c[2]

    def write(self, a, i, f, expr):
        kind = self.kinds.get(a)
        if kind is None:
            raise Unsupported("write to unknown array %s" % a)
        if kind == "real":
            nm = self.let("%s_%d" % (a, i), "α", expr)
            self.cells[(a, i)] = ("real", nm)
            return
        if f is None:
            nm = self.let("%s_%d" % (a, i), "Cx α", expr)
            self.cells[(a, i)] = ("cx", nm)
            return
        nm = self.let("%s_%d_%s" % (a, i, f), "α", expr)
        cur = self.cells.get((a, i))
        if cur is None or cur[0] == "cx":
            base = cur[1] if cur else None
            re_ = ("%s.re" % base) if base else "(Fn.ofInt (0 : Int))"
            im_ = ("%s.im" % base) if base else "(Fn.ofInt (0 : Int))"
            cur = ("fields", re_, im_)
        self.cells[(a, i)] = ("fields", nm, cur[2]) if f == "re" else ("fields", cur[1], nm)

    # ---- expressions
    def e(self, n):
        k = n.get("kind")
        if k in ("ImplicitCastExpr", "ParenExpr", "ExprWithCleanups", "MaterializeTemporaryExpr", "CXXBindTemporaryExpr",
                 "CXXFunctionalCastExpr", "ConstantExpr"):
            ck = n.get("castKind")
            if ck == "IntegralToFloating":
                return "(Fn.ofInt (%d : Int))" % self.cint(n["inner"][0])
            return self.e(n["inner"][0])
        if k == "FloatingLiteral":
            return self.lit(n["value"])
        if k == "IntegerLiteral":
            return "(Fn.ofInt (%s : Int))" % n["value"]
        if k in ("ArraySubscriptExpr", "MemberExpr") or (k == "UnaryOperator" and n["opcode"] == "*"):
            return self.read(*self.lval(n))
        if k == "DeclRefExpr":
            nm = n["referencedDecl"]["name"]
            if nm in self.scalars:
                return self.scalars[nm]
            raise Unsupported("reference to %s in kernel" % nm)
        if k == "UnaryOperator" and n["opcode"] == "-":
            return "(-%s)" % self.e(n["inner"][0])
        if k == "UnaryOperator" and n["opcode"] == "+":
            return self.e(n["inner"][0])
        if k == "BinaryOperator" and n["opcode"] in ("+", "-", "*", "/"):
            return "(%s %s %s)" % (self.e(n["inner"][0]), n["opcode"], self.e(n["inner"][1]))
        if k == "CXXOperatorCallExpr":
            cal = find_all(n["inner"][0], lambda x: x.get("kind") == "DeclRefExpr")[0]["referencedDecl"]
            op = cal["name"].replace("operator", "")
            args = n["inner"][1:]
            if op in ("+", "-", "*", "/") and len(args) == 2:
                ka, kb = kind_of_type(qt(args[0])), kind_of_type(qt(args[1]))
                a, b = self.e(args[0]), self.e(args[1])
                if ka == "cx" and kb == "cx":
                    return "(%s %s %s)" % (a, op, b)
                if ka == "cx" and kb == "real":
                    return "(Cx.%s %s %s)" % ({"+": "addr", "-": "subr", "*": "mulr", "/": "divr"}[op], a, b)
                if ka == "real" and kb == "cx":
                    return "(Cx.%s %s %s)" % ({"+": "radd", "-": "rsub", "*": "rmul", "/": "rdiv"}[op], a, b)
            if op == "-" and len(args) == 1:
                return "(-%s)" % self.e(args[0])
            raise Unsupported("operator %s in kernel" % op)
        if k in ("CXXTemporaryObjectExpr", "CXXConstructExpr", "InitListExpr"):
            args = [a for a in n.get("inner", []) if a.get("kind") != "CXXDefaultArgExpr"]
            if kind_of_type(qt(n)) == "cx":
                if len(args) == 2:
                    return "(Cx.mk %s %s)" % (self.e(args[0]), self.e(args[1]))
                if len(args) == 1:
                    if kind_of_type(qt(args[0])) == "cx":
                        return self.e(args[0])
                    return "(Cx.mk %s (Fn.ofInt (0 : Int)))" % self.e(args[0])
        raise Unsupported("expression kind %s in kernel %s" % (k, self.fname))

    # ---- statements
    def stmt(self, s):
        k = s.get("kind")
        if k == "CompoundStmt":
            for c in s.get("inner", []):
                self.stmt(c)
            return
        if k in ("NullStmt",):
            return
        if k == "ExprWithCleanups":
            return self.stmt(s["inner"][0])
        if k == "DeclStmt":
            for d in s["inner"]:
                t = qt(d)
                m = re.match(r"(?:const )?(dsplib::cmplx_t|cmplx_t|dsplib::real_t|real_t|double)\[(\d+)\]", t)
                if m:
                    self.sizes[d["name"]] = int(m.group(2))
                    self.kinds[d["name"]] = "cx" if "cmplx" in m.group(1) else "real"
                    continue
                kt = kind_of_type(t)
                init = [c for c in d.get("inner", [])]
                if kt == "real" and init:
                    self.scalars[d["name"]] = self.let(d["name"], "α", self.e(init[0]))
                    continue
                if kt == "int" and init:
                    self.consts[d["name"]] = self.cint(init[0])
                    continue
                raise Unsupported("declaration of %s : %s in kernel" % (d.get("name"), t))
            return
        if k == "BinaryOperator" and s["opcode"] == "=":
            a, i, f = self.lval(s["inner"][0])
            self.write(a, i, f, self.e(s["inner"][1]))
            return
        if k == "CXXOperatorCallExpr":
            cal = find_all(s["inner"][0], lambda x: x.get("kind") == "DeclRefExpr")[0]["referencedDecl"]
            if cal["name"] == "operator=":
                rhs = self.e(s["inner"][2])    # evaluate before taking the (possibly post-incremented) target
                a, i, f = self.lval(s["inner"][1])
                self.write(a, i, f, rhs)
                return
        if k == "CallExpr":
            cal = find_all(s["inner"][0], lambda x: x.get("kind") == "DeclRefExpr")[0]["referencedDecl"]
            key = (cal["name"], "real" if re.search(r"\(const (dsplib::)?real_t", cal.get("type", {}).get("qualType", "")) or
                   "const double *" in cal.get("type", {}).get("qualType", "") else "cx")
            if key not in self.callee_map:
                raise Unsupported("call to %s in kernel" % (key,))
            lean_fn, n_in = self.callee_map[key]
            src = find_all(s["inner"][1], lambda x: x.get("kind") == "DeclRefExpr")[0]["referencedDecl"]["name"]
            dst = find_all(s["inner"][2], lambda x: x.get("kind") == "DeclRefExpr")[0]["referencedDecl"]["name"]
            reads = [self.read(src, i, None) for i in range(n_in)]
            lam = "fun i => " + " ".join("if i = %d then %s else" % (i, r) for i, r in enumerate(reads[:-1])) + " " + reads[-1]
            nm = self.let(dst, "Nat → Cx α", "%s (%s)" % (lean_fn, lam))
            for i in range(n_in):
                self.cells[(dst, i)] = ("cx", "(%s %d)" % (nm, i))
            return
        if k == "ForStmt":
            init, _, cond, inc, body = s["inner"]
            vd = init["inner"][0]
            var = vd["name"]
            self.consts[var] = self.cint(vd["inner"][0])
            if not (cond.get("kind") == "BinaryOperator" and cond["opcode"] == "<"):
                raise Unsupported("loop condition in kernel")
            hi = self.cint(cond["inner"][1])
            if not (inc.get("kind") == "UnaryOperator" and inc["opcode"] == "++"):
                raise Unsupported("loop increment in kernel")
            guard = 0
            while self.consts[var] < hi:
                self.stmt(body)
                self.consts[var] += 1
                guard += 1
                if guard > 64:
                    raise Unsupported("loop too long to unroll")
            del self.consts[var]
            return
        raise Unsupported("statement kind %s in kernel %s" % (k, self.fname))


def gen_kernel(method, lean_name, in_kind, n_out, callee_map):
    ps = params_of(method)
    se = SymExec(method["name"], ps[0]["name"], in_kind, ps[1]["name"], callee_map)
    se.stmt(body_of(method))
    outs = [se.read(ps[1]["name"], i, None) for i in range(n_out)]
    res = "fun k => " + " ".join("if k = %d then %s else" % (i, r) for i, r in enumerate(outs[:-1])) + " " + outs[-1]
    lit_params = "".join(" (c%d : α)" % i for i in range(len(se.lits)))
    in_ty = "Nat → Cx α" if in_kind == "cx" else "Nat → α"
    body = "\n".join("  " + l for l in se.lines + [res])
    text = "def %s%s (%s : %s) : Nat → Cx α :=\n%s\n" % (lean_name, lit_params, ps[0]["name"], in_ty, body)
    return text, se.lits


def gen_smallfft():
    out = [HEADER % "lib/fft/small-fft.h (_fft_n2/_n4/_n8, complex and real input), lib/fft/primes-fft.h (_dft_n3)",
           "import DspVerif.Gen.Cmplx\nnamespace Dsp\nnamespace Gen\n", SCALAR_VARS]
    tu = '#include "fft/small-fft.h"\n#include "fft/primes-fft.h"\n'
    recs = {}
    for cls in ("SmallFftPow2C", "SmallFftPow2R", "PrimesFftC"):
        recs[cls] = record(clang_ast(tu, cls), cls)

    def method(cls, name):
        ms = [m for m in recs[cls]["inner"] if m.get("kind") == "CXXMethodDecl" and m.get("name") == name and
              any(c.get("kind") == "CompoundStmt" for c in m.get("inner", []))]
        if len(ms) != 1:
            raise Unsupported("%s::%s not found" % (cls, name))
        return ms[0]

    all_lits = {}
    cmap = {}
    plan = [("SmallFftPow2C", "_fft_n2", "fft2", "cx", 2), ("SmallFftPow2C", "_fft_n4", "fft4", "cx", 4),
            ("SmallFftPow2C", "_fft_n8", "fft8", "cx", 8), ("SmallFftPow2R", "_fft_n2", "rfft2", "real", 2),
            ("SmallFftPow2R", "_fft_n4", "rfft4", "real", 4), ("SmallFftPow2R", "_fft_n8", "rfft8", "real", 8),
            ("PrimesFftC", "_dft_n3", "dft3", "cx", 3)]
    for cls, mname, lname, kind, n in plan:
        text, lits = gen_kernel(method(cls, mname), lname, kind, n, cmap)
        if lname in ("fft4", "rfft4") and lits:
            raise Unsupported("%s uses a non-dyadic literal" % lname)
        out.append("/-- `%s::%s` (symbolically executed; locals are `let`s in program order) -/\n%s" % (cls, mname, text))
        all_lits[lname] = lits
        cmap[(mname, kind)] = (lname, n)
    for lname, lits in all_lits.items():
        for i, l in enumerate(lits):
            out.append("/-- literal `c%d` of `%s` as written in the source -/\ndef %s_c%d [OfScientific α] : α := (%s : α)\n/-- … and as an exact rational (numerator, denominator) -/\ndef %s_c%d_rat : Int × Nat := (%s, %s)\n" % (
                i, lname, lname, i, l, lname, i, *rat_of(l)))
    out.append("end Gen\nend Dsp\n")
    return "\n".join(out)


def rat_of(lit):
    from fractions import Fraction
    fr = Fraction(lit)       # exact decimal value of the source text
    return str(fr.numerator), str(fr.denominator)


# ------------------------------------------------------------------------------------------
# unit: Dynamics  (dB conversions of lib/math.cpp, gain computers of the compressor and limiter)


def gen_dynamics():
    out = [HEADER % "lib/math.cpp (mag2db, db2mag, pow2db, db2pow), include/dsplib/math.h (abs2(real_t)), "
                    "include/dsplib/audio/compressor.h, limiter.h (_compute_gain)",
           "import DspVerif.Scalar\nnamespace Dsp\nnamespace Gen\n", SCALAR_VARS]
    tu = "#include <dsplib.h>\n"
    # scalar helpers
    docs = clang_ast('#include "math.cpp"\n', "dsplib::")

    def free_fn(name, first_param_kind):
        for d in docs:
            if d.get("kind") == "FunctionDecl" and d.get("name") == name and any(c.get("kind") == "CompoundStmt" for c in d.get("inner", [])):
                ps = params_of(d)
                if len(ps) == 1 and kind_of_type(qt(ps[0])) == first_param_kind:
                    return d
        raise Unsupported("%s(%s) not found" % (name, first_param_kind))

    for name in ("mag2db", "db2mag", "pow2db", "db2pow"):
        f = free_fn(name, "real")
        tr = Tr()
        body = tr.stmts([body_of(f)], "?", False)
        out.append("/-- `%s(real_t)` of lib/math.cpp -/\ndef %s (%s : α) : α :=\n%s\n" % (name, name, params_of(f)[0]["name"], indent(body)))
    f = free_fn("abs2", "real")
    out.append("/-- `abs2(const real_t&)` of include/dsplib/math.h -/\ndef abs2r (%s : α) : α :=\n%s\n" % (
        params_of(f)[0]["name"], indent(Tr().stmts([body_of(f)], "?", False))))
    calls = {"mag2db": lambda a, n: "(mag2db %s)" % a[0], "db2mag": lambda a, n: "(db2mag %s)" % a[0],
             "abs2": lambda a, n: "(abs2r %s)" % a[0], "eps": lambda a, n: "eps"}
    for cls, lname, fields in (("Compressor", "compressorGain", [("T_", "T", "α"), ("R_", "R", "Int"), ("W_", "W", "α")]),
                               ("Limiter", "limiterGain", [("T_", "T", "α"), ("W_", "W", "α")])):
        rec = record(clang_ast(tu, cls), cls)
        ms = [m for m in rec["inner"] if m.get("kind") == "CXXMethodDecl" and m.get("name") == "_compute_gain"]
        if len(ms) != 1:
            raise Unsupported("%s::_compute_gain not found" % cls)
        # field types must be what the signature below says (this is how `int R_` is exposed)
        ftypes = {c["name"]: kind_of_type(qt(c)) for c in rec["inner"] if c.get("kind") == "FieldDecl"}
        for cf, lf, lt in fields:
            want = "int" if lt == "Int" else "real"
            if ftypes.get(cf) != want:
                raise Unsupported("%s::%s has type kind %s, expected %s" % (cls, cf, ftypes.get(cf), want))
        tr = Tr(this_name="p", fields={cf: lf for cf, lf, _ in fields}, user_calls=calls)
        body = tr.stmts([body_of(ms[0])], "?", False)
        out.append("/-- parameters of `%s` read by its gain computer -/\nstructure %sParams (α : Type) where\n%s\n" % (
            cls, cls, "\n".join("  %s : %s" % (lf, lt) for _, lf, lt in fields)))
        out.append("/-- `%s::_compute_gain(real_t x)`: static gain in dB for input sample `x` (`eps` = `eps()`) -/\n"
                   "def %s (eps : α) (p : %sParams α) (%s : α) : α :=\n%s\n" % (cls, lname, cls, params_of(ms[0])[0]["name"], indent(body)))
    out.append("end Gen\nend Dsp\n")
    return "\n".join(out)


# ------------------------------------------------------------------------------------------
# unit: Awgn  (noise deviation formulas of lib/awgn.cpp)


def gen_awgn():
    out = [HEADER % "lib/awgn.cpp (per-component noise deviation of awgn for real and complex input)",
           "import DspVerif.Scalar\nnamespace Dsp\nnamespace Gen\n", SCALAR_VARS]
    docs = clang_ast('#include "awgn.cpp"\n', "dsplib::awgn")
    fns = [d for d in docs if d.get("kind") == "FunctionDecl" and d.get("name") == "awgn" and
           any(c.get("kind") == "CompoundStmt" for c in d.get("inner", []))]
    seen = set()
    for f in fns:
        ps = params_of(f)
        kind = "C" if "cmplx" in qt(ps[0]) or "base_array<dsplib::cmplx_t>" in qt(ps[0]) or "arr_cmplx" in qt(ps[0]) else "R"
        if kind in seen:
            continue
        seen.add(kind)
        # statements up to and including `real_t stddev = <expr of rms(arr), snr>;` (earlier local declarations become lets)
        stmts = body_of(f)["inner"]
        idx = None
        for i, st in enumerate(stmts):
            if st.get("kind") == "DeclStmt" and any(d.get("name") == "stddev" for d in st.get("inner", [])):
                idx = i
                break
        if idx is None:
            raise Unsupported("awgn(%s): no `stddev` declaration found" % kind)
        tr = Tr(user_calls={"rms": lambda a, n: "rmsArr"})
        body = tr.stmts(stmts[:idx + 1], "stddev", False)
        out.append("/-- `awgn(const arr_%s&, real_t snr)`: deviation of each noise component, given `rmsArr = rms(arr)` -/\n"
                   "def awgnSigma%s (rmsArr %s : α) : α :=\n%s\n" % ("cmplx" if kind == "C" else "real", kind, ps[1]["name"], indent(body)))
    if seen != {"R", "C"}:
        raise Unsupported("awgn overloads found: %s" % sorted(seen))
    out.append("end Gen\nend Dsp\n")
    return "\n".join(out)


# ------------------------------------------------------------------------------------------
# Steps: per-sample LOOP BODIES of the stateful processors as Lean step functions
#
#   for (int i = 0; i < n; ++i) { BODY }        -->   def step (p : Params) (s : State) (x_i : T) : State × out…
#
# members of the object (`this`, or a reference parameter such as `AgcImpl& agc`) that BODY (and the member
# functions it calls) only reads form the Params structure, those it writes the State structure; `x[i]` is the
# input sample, `out[i] = …` / `res.gain[i] = …` are the outputs.  Everything outside the subset raises
# Unsupported (the GEN obligation then fails: that is the intended alarm, never a guess).

LEAN_KEYWORDS = {"end", "at", "from", "in", "do", "then", "else", "if", "fun", "let", "have", "show", "with", "match",
                 "open", "by", "where", "def", "theorem", "instance", "class", "structure", "namespace", "section",
                 "variable", "universe", "import", "for", "return", "mut", "try", "catch", "Type", "Prop", "Sort", "this"}

JOIN = "\x00JOIN\x00"
FALLOFF = "\x00FALLOFF\x00"


def unwrap(n):
    """strip value-preserving wrappers"""
    while n.get("kind") in ("ParenExpr", "ExprWithCleanups", "MaterializeTemporaryExpr", "CXXBindTemporaryExpr", "ConstantExpr") or \
            (n.get("kind") == "ImplicitCastExpr" and n.get("castKind") in ("LValueToRValue", "NoOp", "FunctionToPointerDecay",
                                                                           "UncheckedDerivedToBase", "DerivedToBase")):
        n = n["inner"][0]
    return n


def has_exit(n):
    return bool(find_all(n, lambda x: x.get("kind") in ("ReturnStmt", "CXXThrowExpr", "BreakStmt", "ContinueStmt", "GotoStmt")))


def canon_type(t):
    """C++ type as written in the AST, canonicalised for the member-type tables"""
    t = t.replace("dsplib::", "")
    t = re.sub(r"\s+", " ", t).strip()
    return t


ARRAY_REAL_T = {"base_array<double>", "arr_real", "base_array<real_t>"}
ARRAY_CX_T = {"base_array<cmplx_t>", "arr_cmplx"}
# integer types with their width (bits) and signedness: emitted as comments and CHECKED against the unit's table
INT_WIDTH = {"int": (32, True), "unsigned int": (32, False), "uint32_t": (32, False), "int32_t": (32, True),
             "long": (64, True), "unsigned long": (64, False), "uint64_t": (64, False), "int64_t": (64, True),
             "size_t": (64, False), "short": (16, True), "unsigned short": (16, False), "uint16_t": (16, False),
             "long long": (64, True), "unsigned long long": (64, False)}


# scoped enums used by members: name -> {constant: value}; filled by the unit from the EnumDecl before translating
ENUM_TYPES = {}
# std::vector members read through operator[] (never resized by the translated code)
VECTOR_T = {"std::vector<arr_real>": "Array (Array α)", "std::vector<int>": "Array Int",
            "std::vector<base_array<double>>": "Array (Array α)", "std::vector<cmplx_t>": "Array (Cx α)"}


def load_enum(tu, name):
    docs = clang_ast(tu, name)
    es = [d for d in docs if d.get("kind") == "EnumDecl" and d.get("name") == name]
    if len(es) != 1:
        raise Unsupported("enum %s not found" % name)
    vals, nxt = {}, 0
    for c in es[0].get("inner", []):
        if c.get("kind") != "EnumConstantDecl":
            continue
        lits = find_all(c, lambda x: x.get("kind") == "ConstantExpr" and "value" in x)
        if c.get("inner") and not lits:
            raise Unsupported("enum %s::%s: initialiser not constant" % (name, c["name"]))
        v = int(lits[0]["value"]) if lits else nxt
        vals[c["name"]] = v
        nxt = v + 1
    ENUM_TYPES[name] = vals
    return vals


def lean_type_of(cxx, subobj_types=None):
    """Lean type of a data member / local of C++ type `cxx` (canonical); None = not representable"""
    t = canon_type(strip_type(cxx))
    k = kind_of_type(t)
    if k == "real":
        return "α"
    if k == "int":
        return "Int"
    if k == "cx":
        return "Cx α"
    if k == "bool":
        return "Bool"
    if t in ARRAY_REAL_T:
        return "Array α"
    if t in ARRAY_CX_T:
        return "Array (Cx α)"
    if subobj_types and t in subobj_types:
        return subobj_types[t]
    if t in ENUM_TYPES:
        return "Int"
    if t in VECTOR_T:
        return VECTOR_T[t]
    return None


def ast_digest(n):
    """structural digest of an AST subtree (kinds, operators, names, literal values, types; no ids / source positions):
    used to PIN statements that are not translated — any change of them makes GEN fail"""
    def ser(x):
        if not isinstance(x, dict):
            return "?"
        keys = ("kind", "name", "opcode", "value", "castKind", "member", "isPostfix")
        head = "|".join("%s=%s" % (k, x[k]) for k in keys if k in x)
        if "type" in x:
            head += "|T=" + canon_type(x["type"].get("qualType", ""))
        if "referencedDecl" in x:
            head += "|ref=%s:%s" % (x["referencedDecl"].get("kind"), x["referencedDecl"].get("name"))
        return "(" + head + "".join(ser(c) for c in x.get("inner", []) or []) + ")"
    return hashlib.sha256(ser(n).encode()).hexdigest()[:16]


class StepTr(Tr):
    """statement / expression translator for a member function or a loop body of a stateful object.

    obj        : None (= `this`) or the name of the reference parameter that holds the object (`agc`)
    members    : C++ member name -> (lean field, lean type, C++ type)
    state      : set of C++ member names placed in the State structure `s` (all others: Params `p`);
                 `single` = True puts every member into one structure `self` (sub-objects such as MAFilter)
    methods    : member function name -> dict(lean=…, effect=bool, extern=callable|None): calls `this->m(args)`
    subobjs    : member name -> dict(ops={method name: lean step function}): calls `obj.member(args)` /
                 `obj.member.process(args)` on a member that is itself a generated state machine
    loop       : dict(var=loop variable, input=array parameter, sample=lean name of x[i],
                      outputs={C++ array name: lean cell name}) or None
    """

    def __init__(self, obj=None, members=None, state=None, single=False, methods=None, subobjs=None, loop=None,
                 user_calls=None, effect=True, scratch=None):
        super().__init__(this_name="self", user_calls=user_calls or {})
        self.obj = obj
        # loop-carried locals (arrays declared in front of the sample loop): C++ name -> clang id of the VarDecl; they are
        # entries of `members` (pseudo-members: they live as long as the loop, exactly like a member during one call)
        self.scratch = dict(scratch or {})
        self.prims = set()             # array primitives of unit StepsArray used
        self.ptr_arrays = {}           # pointer parameters standing for an array: C++ name -> (lean name, lean type)
        self.uninit = set()            # locals declared without initialiser and not yet assigned
        self.decl_order = []           # lean names in the order they were bound (parameters, then locals)
        self.local_arrays = {}         # array locals of the translated function: C++ name -> (lean name, lean type)
        self.local_const = {}          # … declared const
        self.ptr_locals = {}           # pointer locals `T* p = A.data() + off;`: C++ name -> (array target, lean name of the Int offset)
        self.vec_locals = {}           # `std::vector<arr_real>` locals: C++ name -> (lean name, lean type, is const)
        self.fallible_fns = {}         # translated functions that may throw: C++ name -> {canonical signature: lean name}
        self.nonpreserving = set()     # array names assigned as a whole (possibly another length) in the scope being translated
        self.fallible = False          # the translated function returns `Except String …` (a slice conversion may throw)
        self.n_slices = 0
        self.procs = {}                # array-mutating helper functions: C++ name -> dict(lean=…, kinds=[("ptr"|"val", lean type)…])
        self.members = members or {}
        self.state = set(state or ())
        self.single = single
        self.methods = methods or {}
        self.subobjs = subobjs or {}
        self.loop = loop
        self.effect = effect           # does the function being translated write the state (returns (s, v))?
        self.pre = []                  # hoisted lets of effectful calls, flushed in front of the statement
        self.reads = set()             # members read
        self.writes = set()            # members written
        self.frames = []               # join frames: dict(decl=set, assigned=list)
        self.bound = {"self"} if single else {"p", "s"}   # lean names in scope
        self.cond_depth = 0
        self.n_effects = 0
        self.uses_eps = False
        self.cells_written = []
        self.in_loop = loop is not None
        self.types = {"eps": "α"}      # lean types of the names in scope (needed for the parameters of inner-loop bodies)
        self.aux_defs = []             # bodies of inner loops, emitted as definitions of their own in front of the function
        self.name_hint = "step"
        self.loop_vars = set()         # counters of (inner) loops: never assigned
        self.arrays = {}               # read-only arrays in scope: C++ name -> (lean name, lean type)
        self.inner_depth = 0
        if loop and loop.get("indexed"):
            self.bound.add(self.var(loop["var"]))
            self.types[self.var(loop["var"])] = "Int"
            self.loop_vars.add(self.var(loop["var"]))
            for a, (ln, lt) in loop.get("arrays", {}).items():
                self.arrays[a] = (ln, lt)
                self.bound.add(ln)
                self.types[ln] = lt
            for c_, init in loop.get("cell_init", {}).items():
                self.bound.add(c_)
        if loop:
            self.types.update(loop.get("cell_types", {}))

    # ---------------------------------------------------------------- names
    def var(self, name):
        v = super().var(name)
        if v in LEAN_KEYWORDS or v in ("p", "s", "self", "eps", "α"):
            v = v + "'"
        return v

    def svar(self):
        return "self" if self.single else "s"

    def is_obj(self, n):
        n = unwrap(n)
        if n.get("kind") == "UnaryOperator" and n.get("opcode") == "*":
            n = unwrap(n["inner"][0])
        if self.obj is None:
            return n.get("kind") == "CXXThisExpr"
        return n.get("kind") == "DeclRefExpr" and n.get("referencedDecl", {}).get("name") == self.obj and \
            n["referencedDecl"].get("kind") == "ParmVarDecl"

    def member_of_obj(self, n):
        """C++ member name if n is `obj.member` / `this->member`, else None"""
        n = unwrap(n)
        if n.get("kind") == "MemberExpr" and self.is_obj(n["inner"][0]):
            if n["name"] in self.scratch:
                raise Unsupported("member %s is named like a loop-carried local" % n["name"])
            return n["name"]
        if n.get("kind") == "DeclRefExpr" and n.get("referencedDecl", {}).get("kind") == "VarDecl" and \
                n["referencedDecl"].get("name") in self.scratch:
            if n["referencedDecl"].get("id") != self.scratch[n["referencedDecl"]["name"]]:
                raise Unsupported("local `%s` shadows a loop-carried local" % n["referencedDecl"]["name"])
            return n["referencedDecl"]["name"]
        return None

    def mref(self, name, write=False):
        if name not in self.members:
            raise Unsupported("member %s is not in the unit's member table" % name)
        (self.writes if write else self.reads).add(name)
        f = self.members[name][0]
        if self.single:
            return "self.%s" % f
        return ("s.%s" if name in self.state else "p.%s") % f

    # ---------------------------------------------------------------- expressions
    def e_CXXThisExpr(self, n):
        raise Unsupported("`this` used as a value")

    def e_MemberExpr(self, n):
        m = self.member_of_obj(n)
        if m is not None:
            if self.members.get(m, (0, ""))[1] == "Bool":
                return "(%s = true)" % self.mref(m)      # a `bool` member read as a condition
            return self.mref(m)
        base = unwrap(n["inner"][0])
        if base.get("kind") == "DeclRefExpr" and kind_of_type(qt(base)) == "cx" and n["name"] in ("re", "im"):
            return "%s.%s" % (self.e(base), n["name"])
        if base.get("kind") == "CXXOperatorCallExpr" and kind_of_type(qt(base)) == "cx" and n["name"] in ("re", "im") and \
                self.callee_name(base) == "operator[]":
            return "%s.%s" % (self.e(base), n["name"])          # `x[i].im`: one field of a complex cell read
        raise Unsupported("member access %s on %s" % (n.get("name"), base.get("kind")))

    def e_DeclRefExpr(self, n):
        ref = n.get("referencedDecl", {})
        name = ref.get("name")
        if ref.get("kind") == "VarDecl" and name in self.scratch:
            return self.mref(self.member_of_obj(n))
        if ref.get("kind") in ("VarDecl", "ParmVarDecl") and name in self.local_arrays and name not in self.arrays:
            return self.local_arrays[name][0]
        if ref.get("kind") == "VarDecl" and name in self.vec_locals and self.vec_locals[name][0] in self.bound:
            return self.vec_locals[name][0]
        if ref.get("kind") in ("ParmVarDecl", "VarDecl") and name in self.arrays and self.arrays[name][0] in self.bound:
            return self.arrays[name][0]          # a read-only array passed on as a value (`dot(x1, x2)`)
        if ref.get("kind") == "EnumConstantDecl":
            en = canon_type(strip_type(qt(n)))
            if en in ENUM_TYPES and name in ENUM_TYPES[en]:
                return "%s_%s" % (en, name)
            raise Unsupported("enum constant %s of %s" % (name, en))
        if self.loop and name == self.loop["var"] and not self.loop.get("indexed"):
            raise Unsupported("loop index `%s` used other than as x[%s] / out[%s]" % (name, name, name))
        if self.obj is not None and name == self.obj:
            raise Unsupported("object parameter `%s` used as a value" % name)
        if ref.get("kind") in ("ParmVarDecl", "VarDecl"):
            v = self.var(name)
            if v in self.uninit:
                raise Unsupported("read of the local `%s` before it is assigned" % name)
            if name in self.ptr_arrays:
                raise Unsupported("pointer parameter `%s` used other than as `%s[i]` / `%s + i`" % (name, name, name))
            if v not in self.bound:
                if ref.get("kind") == "VarDecl" and name == "pi" and canon_type(qt(n)) == "const real_t" and dsplib_pi_is_pi():
                    return "Fn.pi"
                raise Unsupported("reference to `%s`, which is not a local of the translated body" % name)
            if self.types.get(v) == "Bool" and kind_of_type(qt(n)) == "bool":
                return "(%s = true)" % v          # a `bool` parameter / local read as a condition
            return v
        raise Unsupported("DeclRefExpr to %s %s" % (ref.get("kind"), name))

    def cast(self, n):
        if n.get("castKind") == "IntegralCast":
            src, dst = canon_type(strip_type(qt(n["inner"][0]))), canon_type(strip_type(qt(n)))
            if src not in INT_WIDTH or dst not in INT_WIDTH:
                raise Unsupported("integer conversion %s -> %s" % (src, dst))
            (ws, ss), (wd, sd) = INT_WIDTH[src], INT_WIDTH[dst]
            lit = unwrap(n["inner"][0]).get("kind") == "IntegerLiteral"
            if not lit and (wd < ws or (ss and not sd) or (wd == ws and ss != sd)):
                # the Lean value is the mathematical integer: a conversion that can change it is never translated
                raise Unsupported("integer conversion %s -> %s may change the value (narrowing / sign)" % (src, dst))
            return self.e(n["inner"][0])
        if n.get("castKind") == "FloatingCast":
            src, dst = canon_type(strip_type(qt(n["inner"][0]))), canon_type(strip_type(qt(n)))
            if "float" in (src, dst) and src != dst:
                raise Unsupported("floating conversion %s -> %s" % (src, dst))
        return super().cast(n)

    def e_BinaryOperator(self, n):
        op = n["opcode"]
        if op in ("&&", "||"):
            self.cond_depth += 1
            try:
                return super().e_BinaryOperator(n)
            finally:
                self.cond_depth -= 1
        if op in ("==", "!="):
            l, r = n["inner"]
            kl, kr = kind_of_type(qt(l)), kind_of_type(qt(r))
            if kl == "real" and kr == "real":
                # IEEE `==` on reals: a ≤ b ∧ b ≤ a (false on NaN, true for -0 == +0; no DecidableEq on the scalar)
                a, b = self.e(l), self.e(r)
                t = "(%s ≤ %s ∧ %s ≤ %s)" % (a, b, b, a)
                return t if op == "==" else "(¬ %s)" % t
            tl, tr_ = canon_type(strip_type(qt(l))), canon_type(strip_type(qt(r)))
            if tl == tr_ and tl in ENUM_TYPES:
                a, b = self.e(l), self.e(r)
                return "(%s = %s)" % (a, b) if op == "==" else "(%s ≠ %s)" % (a, b)
            if not (kl == "int" and kr == "int"):
                raise Unsupported("%s on operands of type %s / %s" % (op, qt(l), qt(r)))
        if op == ",":
            raise Unsupported("comma operator")
        if op in ("=",) or op.endswith("=") and op not in ("<=", ">=", "==", "!="):
            raise Unsupported("assignment used as an expression")
        return super().e_BinaryOperator(n)

    def e_CompoundAssignOperator(self, n):
        raise Unsupported("compound assignment used as an expression")

    def e_UnaryOperator(self, n):
        if n["opcode"] in ("++", "--"):
            raise Unsupported("increment used as an expression")
        if n["opcode"] == "*":
            # `*p` for a pointer local / pointer parameter: the cell it points to
            t, off = self.ptr_into(n["inner"][0])
            self.prims.add("ptrGet")
            return "(ptrGet %s %s %s)" % (self.arr_default(self.tgt_type(t)), self.tgt_cur(t), off)
        if n["opcode"] == "&":
            raise Unsupported("pointer operation %s" % n["opcode"])
        return super().e_UnaryOperator(n)

    def e_CXXConstructExpr(self, n):
        args = [a for a in n.get("inner", []) if a.get("kind") != "CXXDefaultArgExpr"]
        ta = canon_type(strip_type(qt(n)))
        if ta in VECTOR_T and len(args) == 1:
            ct = canon_type(n.get("ctorType", {}).get("qualType", ""))
            if re.match(r"void \((const )?std::vector<(base_array<double>|int|cmplx_t)> &&?\)( noexcept)?$", ct):
                a0 = unwrap(args[0])
                while a0.get("kind") == "ImplicitCastExpr" and a0.get("castKind") == "NoOp":
                    a0 = unwrap(a0["inner"][0])
                r_ = self.vec_ref(a0)
                if r_ is not None:
                    return self.vec_cur(r_)          # copy / move construction of a std::vector: the same elements
            raise Unsupported("construction of a std::vector through %s" % ct)
        if ta in ARRAY_REAL_T | ARRAY_CX_T and len(args) == 1:
            el = "double" if ta in ARRAY_REAL_T else "cmplx_t"
            ct = canon_type(n.get("ctorType", {}).get("qualType", ""))
            if ct in ("void (base_array<%s> &&) noexcept" % el, "void (const base_array<%s> &)" % el):
                # base_array(const base_array&) : _vec(v._vec) / base_array(base_array&&) : _vec(std::move(v._vec))  (PINNED in StepsArray)
                self.prims.add("arrCopy")
                return self.e(args[0])
            raise Unsupported("construction of an array through %s" % ct)
        if kind_of_type(qt(n)) == "cx" and len(args) == 1 and kind_of_type(qt(args[0])) == "int":
            # cmplx_t(const T& v) with T = int: re{static_cast<real_t>(v)}, im{0}  (PINNED in unit StepsArray)
            ct = canon_type(n.get("ctorType", {}).get("qualType", ""))
            if ct != "void (const int &)":
                raise Unsupported("construction of cmplx_t from an int through %s" % ct)
            return "(Cx.mk (Fn.ofInt %s) (Fn.ofInt (0 : Int)))" % self.e(args[0])
        return super().e_CXXConstructExpr(n)

    def e_ConditionalOperator(self, n):
        self.cond_depth += 1
        try:
            return super().e_ConditionalOperator(n)
        finally:
            self.cond_depth -= 1

    def cell(self, n):
        """classify `a[idx]` (CXXOperatorCallExpr operator[]): ('sample',) | ('out', cell) | ('member', name, idx) | None"""
        if n.get("kind") != "CXXOperatorCallExpr" or self.callee_name(n) != "operator[]":
            return None
        callee_t = qt(unwrap(n["inner"][0]))
        if not re.search(r"\((int|size_t|unsigned long)\)", callee_t):
            raise Unsupported("operator[] overload %s" % callee_t)
        base, idx = unwrap(n["inner"][1]), unwrap(n["inner"][2])
        is_loop_idx = (self.loop is not None and idx.get("kind") == "DeclRefExpr" and
                       idx["referencedDecl"].get("name") == self.loop["var"])
        m = self.member_of_obj(base)
        if m is not None:
            lt = self.members.get(m, (None, None, None))[1]
            if lt not in ("Array α", "Array (Cx α)"):
                raise Unsupported("subscript on member %s of type %s" % (m, self.members.get(m, (0, 0, "?"))[2]))
            return ("member", m, n["inner"][2])
        if base.get("kind") == "DeclRefExpr" and base["referencedDecl"].get("name") in self.local_arrays and \
                base["referencedDecl"].get("kind") in ("VarDecl", "ParmVarDecl") and base["referencedDecl"].get("name") not in self.arrays:
            return ("local", base["referencedDecl"]["name"], n["inner"][2])
        if base.get("kind") == "DeclRefExpr" and base["referencedDecl"].get("name") in self.arrays:
            return ("array", base["referencedDecl"]["name"], n["inner"][2])
        if not is_loop_idx:
            raise Unsupported("subscript of a non-member array with an index other than the loop variable")
        if base.get("kind") == "DeclRefExpr" and base["referencedDecl"].get("kind") == "ParmVarDecl":
            if base["referencedDecl"]["name"] != self.loop["input"]:
                raise Unsupported("subscript on parameter %s" % base["referencedDecl"]["name"])
            return ("sample",)
        name = None
        if base.get("kind") == "DeclRefExpr" and base["referencedDecl"].get("kind") == "VarDecl":
            name = base["referencedDecl"]["name"]
        elif base.get("kind") == "MemberExpr" and unwrap(base["inner"][0]).get("kind") == "DeclRefExpr" and \
                unwrap(base["inner"][0])["referencedDecl"].get("kind") == "VarDecl":
            name = base["name"]
        if name is None or name not in self.loop["outputs"]:
            raise Unsupported("subscript on %s, which is not an output array of the loop" % (name or base.get("kind")))
        return ("out", self.loop["outputs"][name])

    def arr_default(self, lt):
        return "zeroR" if lt == "Array α" else "zeroC"

    def vec_ref(self, base):
        """`base` of a `std::vector` type of VECTOR_T: ("member", C++ member) | ("vlocal", C++ local) | None"""
        bt = canon_type(strip_type(qt(unwrap(base))))
        if bt not in VECTOR_T:
            bt = canon_type(strip_type(dqt(unwrap(base))))
        if bt not in VECTOR_T:
            return None
        m = self.member_of_obj(base)
        if m is not None:
            if self.members.get(m, (0, ""))[1] != VECTOR_T[bt]:
                raise Unsupported("std::vector member %s is not in the unit's table with type %s" % (m, VECTOR_T[bt]))
            return ("member", m, VECTOR_T[bt])
        b = unwrap(base)
        if b.get("kind") == "DeclRefExpr" and b.get("referencedDecl", {}).get("kind") == "VarDecl" and \
                b["referencedDecl"].get("name") in self.vec_locals and self.vec_locals[b["referencedDecl"]["name"]][0] in self.bound:
            if self.vec_locals[b["referencedDecl"]["name"]][1] != VECTOR_T[bt]:
                raise Unsupported("std::vector local %s of type %s" % (b["referencedDecl"]["name"], bt))
            return ("vlocal", b["referencedDecl"]["name"], VECTOR_T[bt])
        raise Unsupported("subscript on a std::vector that is neither a member of the unit's table nor a local")

    def vec_cur(self, r):
        return self.mref(r[1]) if r[0] == "member" else self.vec_locals[r[1]][0]

    def vec_set(self, r, val):
        if r[0] == "member":
            return self.set_member(r[1], val)
        v, lt, is_const = self.vec_locals[r[1]]
        if is_const:
            raise Unsupported("write to the const std::vector local %s" % r[1])
        self.note_assigned(v)
        return "let %s := %s\n" % (v, val)

    def vec_index(self, n):
        """`v[i]` on a `std::vector` (`std::vector::operator[](size_type)`, no bounds check) -> (vector ref, lean index text) or None"""
        n = unwrap(n)
        if n.get("kind") != "CXXOperatorCallExpr" or self.callee_name(n) != "operator[]":
            return None
        r = self.vec_ref(n["inner"][1])
        if r is None:
            return None
        idx = n["inner"][2]
        while idx.get("kind") in ("ImplicitCastExpr", "ParenExpr") and (idx.get("kind") == "ParenExpr" or idx.get("castKind") in ("IntegralCast", "LValueToRValue", "NoOp")):
            if idx.get("kind") == "ImplicitCastExpr" and idx.get("castKind") == "IntegralCast":
                if canon_type(strip_type(qt(idx["inner"][0]))) != "int":
                    raise Unsupported("vector index of type %s" % qt(idx["inner"][0]))
                idx = idx["inner"][0]
                break
            if kind_of_type(qt(idx)) == "int" and canon_type(strip_type(qt(idx))) == "int":
                break
            idx = idx["inner"][0]
        if canon_type(strip_type(qt(idx))) != "int":
            raise Unsupported("vector index of type %s" % qt(idx))
        return r, self.e(idx)

    def vec_elem(self, n):
        """`v[i]` read on a `std::vector` member / local: lean text or None.  An `int` index converted to size_type: a negative one is
        undefined behaviour (here: the default value)"""
        vi = self.vec_index(n)
        if vi is None:
            return None
        r, idx = vi
        self.prims.add("ptrGet")
        dflt = {"Array (Array α)": "#[]", "Array Int": "(0 : Int)", "Array (Cx α)": "zeroC"}[r[2]]
        return "(ptrGet %s %s %s)" % (dflt, self.vec_cur(r), idx)

    def e_CXXOperatorCallExpr(self, n):
        name = self.callee_name(n)
        if name == "operator[]":
            ve = self.vec_elem(n)
            if ve is not None:
                return ve
            inner_ve = self.vec_elem(n["inner"][1])
            if inner_ve is not None:
                # `v[k][j]`: base_array::operator[](int) on an element of a vector of arrays
                lt = self.vec_ref(unwrap(n["inner"][1])["inner"][1])[2]
                if lt != "Array (Array α)" or not re.search(r"\((int)\)", qt(unwrap(n["inner"][0]))):
                    raise Unsupported("subscript of a vector element of type %s" % lt)
                return "(arrGet zeroR %s %s)" % (inner_ve, self.e(n["inner"][2]))
            c = self.cell(n)
            if c[0] == "sample":
                return self.loop["sample"]
            if c[0] == "out":
                if c[1] not in self.bound:
                    raise Unsupported("output cell %s read before it is written" % c[1])
                return c[1]
            if c[0] == "array":
                ln, lt = self.arrays[c[1]]
                return "(arrGet %s %s %s)" % (self.arr_default(lt), ln, self.e(c[2]))
            if c[0] == "local":
                ln, lt = self.local_arrays[c[1]]
                return "(arrGet %s %s %s)" % (self.arr_default(lt), ln, self.e(c[2]))
            lt = self.members[c[1]][1]
            return "(arrGet %s %s %s)" % (self.arr_default(lt), self.mref(c[1]), self.e(c[2]))
        if name == "operator()":
            m = self.member_of_obj(n["inner"][1])
            if m is not None and m in self.subobjs:
                return self.subobj_call(m, "operator()", n["inner"][2:])
            raise Unsupported("operator() on %s" % unwrap(n["inner"][1]).get("kind"))
        op = name.replace("operator", "")
        args = n["inner"][1:]
        if op == "|" and len(args) == 2 and canon_type(strip_type(qt(args[0]))) in ARRAY_REAL_T | ARRAY_CX_T:
            # `a | b`: base_array<T>::operator|(const base_array<T2>&) = copy, then `_vec.insert(_vec.end(), rhs.begin(), rhs.end())`
            # (PINNED in unit StepsArray)
            ta, tb = canon_type(strip_type(qt(args[0]))), canon_type(strip_type(qt(args[1])))
            el = "double" if ta in ARRAY_REAL_T else "cmplx_t"
            sig = canon_type(qt(unwrap(n["inner"][0])))
            if not ((ta in ARRAY_REAL_T and tb in ARRAY_REAL_T) or (ta in ARRAY_CX_T and tb in ARRAY_CX_T)) or \
                    sig != "base_array<%s> (const base_array<%s> &) const" % (el, el):
                raise Unsupported("operator| on %s, %s (callee %s)" % (qt(args[0]), qt(args[1]), sig))
            self.prims.add("arrConcat")
            return "(arrConcat %s %s)" % (self.e(args[0]), self.e(args[1]))
        if op == "*" and len(args) == 2 and canon_type(strip_type(qt(args[0]))) in ARRAY_CX_T and canon_type(strip_type(qt(args[1]))) in ARRAY_CX_T:
            # `arr_cmplx * arr_cmplx`: base_array<T>::operator*(const base_array<T2>&) = copy, then `operator*=`: size check (throws),
            # `_vec[i] *= rhs[i]` (PINNED in the unit that uses it; the throwing case is `arrMulCCThrows`)
            sig = canon_type(qt(unwrap(n["inner"][0])))
            if sig != "base_array<cmplx_t> (const base_array<cmplx_t> &) const":
                raise Unsupported("operator* on two arrays (callee %s)" % sig)
            self.prims.add("arrMulCC")
            return "(arrMulCC %s %s)" % (self.e(args[0]), self.e(args[1]))
        if op == "/" and len(args) == 2 and canon_type(strip_type(qt(args[0]))) in ARRAY_REAL_T | ARRAY_CX_T:
            # `array / scalar`: base_array<T>::operator/(const T2&) (PINNED in unit StepsArray: copy, then `_vec[i] /= rhs`)
            ta, kb = canon_type(strip_type(qt(args[0]))), kind_of_type(qt(args[1]))
            sig = canon_type(qt(unwrap(n["inner"][0])))
            want = {("R", "real"): ("base_array<double> (const double &) const", "arrDivRR"),
                    ("C", "cx"): ("base_array<cmplx_t> (const cmplx_t &) const", "arrDivCC")}.get(
                        ("R" if ta in ARRAY_REAL_T else "C", kb))
            if want is None or sig != want[0]:
                raise Unsupported("operator/ on %s, %s (callee %s)" % (qt(args[0]), qt(args[1]), sig))
            self.prims.add(want[1])
            return "(%s %s %s)" % (want[1], self.e(args[0]), self.e(args[1]))
        if op in ("+", "-", "*", "/") and len(args) == 2:
            ka, kb = kind_of_type(qt(args[0])), kind_of_type(qt(args[1]))
            a, b = self.e(args[0]), self.e(args[1])
            if ka == "cx" and kb == "cx":
                return "(%s %s %s)" % (a, op, b)
            if ka == "cx" and kb == "real":
                return "(Cx.%s %s %s)" % ({"+": "addr", "-": "subr", "*": "mulr", "/": "divr"}[op], a, b)
            if ka == "real" and kb == "cx":
                return "(Cx.%s %s %s)" % ({"+": "radd", "-": "rsub", "*": "rmul", "/": "rdiv"}[op], a, b)
            if ka == "int" and kb == "cx" and op == "*":
                # `int * cmplx_t`: the left-oriented template of types.h (`return rhs * lhs;`, the int converted to real_t by
                # `cmplx_t::operator*(const real_t&)`) -- the same template as the `real * cx` case above, after the int -> real_t conversion
                return "(Cx.rmul (Fn.ofInt %s) %s)" % (a, b)
            raise Unsupported("operator%s on %s, %s" % (op, qt(args[0]), qt(args[1])))
        if op == "-" and len(args) == 1 and kind_of_type(qt(args[0])) == "cx":
            return "(-%s)" % self.e(args[0])
        raise Unsupported("operator call %s/%d" % (name, len(args)))

    def hoist(self, text):
        """an effectful call: evaluated exactly once, in front of the statement it occurs in"""
        if self.cond_depth:
            raise Unsupported("state-changing call inside a conditionally evaluated expression")
        self.n_effects += 1
        if self.n_effects > 1:
            raise Unsupported("more than one state-changing call in one statement (evaluation order)")
        return text

    def subobj_call(self, m, meth, arg_nodes):
        so = self.subobjs[m]
        if meth not in so["ops"]:
            raise Unsupported("call of %s on sub-object %s" % (meth, m))
        args = [self.e(a) for a in arg_nodes if a.get("kind") != "CXXDefaultArgExpr"]
        cur = self.mref(m)
        self.mref(m, write=True)
        self.hoist(None)
        r = "r_%s" % self.members[m][0]
        k = 0
        while r in self.bound:
            k += 1
            r = "r_%s_%d" % (self.members[m][0], k)
        self.bound.add(r)
        self.pre.append("let %s := %s %s %s\n" % (r, so["ops"][meth], cur, " ".join(args)))
        self.pre.append(self.set_member(m, "%s.1" % r))
        return "%s.2" % r

    def set_member(self, m, val):
        self.mref(m, write=True)
        self.note_assigned(self.svar())
        return "let %s := { %s with %s := %s }\n" % (self.svar(), self.svar(), self.members[m][0], val)

    def e_CXXMemberCallExpr(self, n):
        me = unwrap(n["inner"][0])
        name = me["name"]
        base = me["inner"][0]
        arg_nodes = [a for a in n["inner"][1:] if a.get("kind") != "CXXDefaultArgExpr"]
        m = self.member_of_obj(base)
        if m is not None and m in self.subobjs:
            return self.subobj_call(m, name, arg_nodes)
        if self.is_obj(base) and name in self.methods:
            md = self.methods[name]
            args = [self.e(a) for a in arg_nodes]
            if md.get("extern"):
                return md["extern"](self, args)
            for f in md.get("reads", ()):
                self.mref(f)
            if not md["effect"]:
                return "(%s p %s)" % (md["lean"], " ".join(args)) if not md.get("reads_state") else \
                    "(%s p s %s)" % (md["lean"], " ".join(args))
            for f in md.get("writes", ()):
                self.mref(f, write=True)
            self.hoist(None)
            r = "r_%s" % md["lean"]
            k = 0
            while r in self.bound:
                k += 1
                r = "r_%s_%d" % (md["lean"], k)
            self.bound.add(r)
            self.pre.append("let %s := %s p s %s\n" % (r, md["lean"], " ".join(args)))
            self.pre.append("let s := %s.1\n" % r)
            self.note_assigned("s")
            return "%s.2" % r
        if name in ("abs2", "conj") and kind_of_type(qt(unwrap(base))) == "cx":
            return "(Cx.%s %s)" % (name, self.e(base))
        if name == "size" and not arg_nodes and (canon_type(strip_type(qt(unwrap(base)))) in ARRAY_REAL_T | ARRAY_CX_T or
                                                  canon_type(strip_type(dqt(unwrap(base)))) in ARRAY_REAL_T | ARRAY_CX_T):
            # base_array<T>::size() = int(_vec.size()) (PINNED in unit StepsArray)
            self.prims.add("arrSize")
            return "(arrSize %s)" % self.array_value(base)
        raise Unsupported("member call %s" % name)

    def array_value(self, n):
        """Lean text of an array-typed lvalue: a member array, a loop-carried local, or a read-only array in scope"""
        m = self.member_of_obj(n)
        if m is not None:
            if self.members.get(m, (0, ""))[1] not in ("Array α", "Array (Cx α)"):
                raise Unsupported("%s is not an array member" % m)
            return self.mref(m)
        b = unwrap(n)
        if b.get("kind") == "DeclRefExpr" and b["referencedDecl"].get("name") in self.local_arrays and \
                b["referencedDecl"].get("kind") in ("VarDecl", "ParmVarDecl"):
            return self.local_arrays[b["referencedDecl"]["name"]][0]
        if b.get("kind") == "DeclRefExpr" and b["referencedDecl"].get("name") in self.arrays and \
                self.arrays[b["referencedDecl"]["name"]][0] in self.bound:
            return self.arrays[b["referencedDecl"]["name"]][0]
        bb = b
        while bb.get("kind") == "ImplicitCastExpr" and bb.get("castKind") == "NoOp":
            bb = bb["inner"][0]
        ve = self.vec_elem(bb)
        if ve is not None and self.vec_index(bb)[0][2] == "Array (Array α)":
            return ve                      # `v[i]`: an element of a vector of arrays
        raise Unsupported("array expression %s" % b.get("kind"))

    def elem_kind(self, m):
        return "real" if self.members[m][1] == "Array α" else "cx"

    # array lvalues: ("member", C++ member / loop-carried local)  |  ("ptr", C++ pointer parameter that holds the first element)
    def tgt_tab(self, t):
        return {"ptr": self.ptr_arrays, "local": self.local_arrays, "ro": self.arrays}[t[0]]

    def tgt_type(self, t):
        return self.members[t[1]][1] if t[0] == "member" else self.tgt_tab(t)[t[1]][1]

    def tgt_cur(self, t):
        return self.mref(t[1]) if t[0] == "member" else self.tgt_tab(t)[t[1]][0]

    def tgt_set(self, t, val):
        if t[0] == "member":
            return self.set_member(t[1], val)
        if t[0] == "ro":
            raise Unsupported("write to the read-only array %s" % t[1])
        if t[0] == "ptr" and self.ptr_arrays[t[1]][2]:
            raise Unsupported("write through the pointer-to-const parameter %s" % t[1])
        v = self.tgt_tab(t)[t[1]][0]
        if t[0] == "local" and self.local_const.get(t[1]):
            raise Unsupported("write to the const array local %s" % t[1])
        if not re.match(r"\((arrSet|ptrSet|arrMove|arrFill|arrCopy) ", val):
            self.nonpreserving.add(v)
        self.note_assigned(v)
        return "let %s := %s\n" % (v, val)

    def ptr_into(self, n):
        """`A.data()` / `A.data() + off` on a member array (or loop-carried local) A, or `x` / `x + off` on a pointer
        parameter x of the translated function -> (target, lean text of off)"""
        while n.get("kind") in ("ImplicitCastExpr", "ParenExpr", "CStyleCastExpr", "CXXStaticCastExpr", "CXXReinterpretCastExpr") and \
                (n.get("kind") == "ParenExpr" or n.get("castKind") in ("BitCast", "NoOp", "LValueToRValue")):
            n = n["inner"][0]
        if n.get("kind") == "BinaryOperator" and n.get("opcode") == "+" and qt(n).rstrip().endswith("*"):
            l, r = n["inner"]
            if kind_of_type(dqt(r)) != "int":
                raise Unsupported("pointer arithmetic %s + %s" % (qt(l), qt(r)))
            a, off0 = self.ptr_into(l)
            off = self.e(r)
            return a, off if off0 == "(0 : Int)" else "(%s + %s)" % (off0, off)
        if n.get("kind") == "CXXMemberCallExpr" and len(n["inner"]) == 1:
            me = unwrap(n["inner"][0])
            if me.get("kind") == "MemberExpr" and me.get("name") == "data":
                m = self.member_of_obj(me["inner"][0])
                if m is not None and self.members.get(m, (0, ""))[1] in ("Array α", "Array (Cx α)"):
                    # base_array<T>::data() = _vec.data() (PINNED in unit StepsArray)
                    return ("member", m), "(0 : Int)"
        if n.get("kind") == "CXXMemberCallExpr" and len(n["inner"]) == 1:
            me = unwrap(n["inner"][0])
            if me.get("kind") == "MemberExpr" and me.get("name") == "data":
                b = unwrap(me["inner"][0])
                nm = b.get("referencedDecl", {}).get("name") if b.get("kind") == "DeclRefExpr" else None
                if nm in self.local_arrays and b["referencedDecl"].get("kind") == "VarDecl":
                    return ("local", nm), "(0 : Int)"
                if nm in self.arrays and self.arrays[nm][0] in self.bound:
                    return ("ro", nm), "(0 : Int)"
        if n.get("kind") == "DeclRefExpr" and n.get("referencedDecl", {}).get("kind") == "ParmVarDecl" and \
                n["referencedDecl"].get("name") in self.ptr_arrays:
            return ("ptr", n["referencedDecl"]["name"]), "(0 : Int)"
        if n.get("kind") == "DeclRefExpr" and n.get("referencedDecl", {}).get("kind") == "VarDecl" and \
                n["referencedDecl"].get("name") in self.ptr_locals:
            t, ov = self.ptr_locals[n["referencedDecl"]["name"]]
            if ov not in self.bound:
                raise Unsupported("pointer local `%s` used outside its scope" % n["referencedDecl"]["name"])
            return t, ov
        raise Unsupported("pointer expression %s (only `A.data()`, a pointer parameter, and `… + int`)" % n.get("kind"))

    def e_ArraySubscriptExpr(self, n):
        """`x[i]` on a raw pointer parameter: no index resolution (a negative index is undefined, not Python-style)"""
        t, off = self.ptr_into(n["inner"][0])
        if kind_of_type(qt(n["inner"][1])) != "int":
            raise Unsupported("subscript of type %s" % qt(n["inner"][1]))
        i = self.e(n["inner"][1])
        self.prims.add("ptrGet")
        idx = i if off == "(0 : Int)" else "(%s + %s)" % (off, i)
        return "(ptrGet %s %s %s)" % (self.arr_default(self.tgt_type(t)), self.tgt_cur(t), idx)

    def elem_count(self, n, m):
        """`E * sizeof(T)` (byte count of a mem* call) -> lean text of the element count E; T must be the element type of m"""
        n = unwrap(n)
        if not (n.get("kind") == "BinaryOperator" and n.get("opcode") == "*"):
            raise Unsupported("byte count is not `count * sizeof(T)`")
        l, r = n["inner"]
        if unwrap(l).get("kind") == "UnaryExprOrTypeTraitExpr":
            l, r = r, l
        so = unwrap(r)
        if not (so.get("kind") == "UnaryExprOrTypeTraitExpr" and so.get("name") == "sizeof" and "argType" in so):
            raise Unsupported("byte count is not `count * sizeof(T)`")
        st = canon_type(so["argType"].get("desugaredQualType") or so["argType"].get("qualType"))
        want = {"Array α": ("double",), "Array (Cx α)": ("cmplx_t",)}[self.tgt_type(m)]
        if st not in want:
            raise Unsupported("sizeof(%s) in a byte count for an array of %s" % (st, want[0]))
        # the count itself: an `int` expression, converted to size_t by the multiplication.  A negative count would wrap to a
        # huge size_t (undefined behaviour of the mem* call); the Lean primitive documents that it then moves nothing.
        c = l
        while c.get("kind") == "ParenExpr":
            c = c["inner"][0]
        if c.get("kind") == "ImplicitCastExpr" and c.get("castKind") == "IntegralCast":
            c = c["inner"][0]
        if canon_type(strip_type(qt(c))) != "int":
            raise Unsupported("element count of type %s" % qt(c))
        return self.e(c)

    def stmt_memmove(self, s):
        """`std::memmove(A.data() + d, A.data() + s, cnt * sizeof(T));` within one member array"""
        sig = canon_type(qt(unwrap(s["inner"][0])))
        if not sig.startswith("void *(void *, const void *, size_t)"):
            raise Unsupported("memmove with signature %s" % sig)
        if len(s["inner"]) != 4:
            raise Unsupported("memmove with %d arguments" % (len(s["inner"]) - 1))
        (md, doff), (ms, soff) = self.ptr_into(s["inner"][1]), self.ptr_into(s["inner"][2])
        if md != ms:
            raise Unsupported("memmove between different arrays (%s, %s)" % (md, ms))
        cnt = self.elem_count(s["inner"][3], md)
        self.prims.add("arrMove")
        cur = self.tgt_cur(md)
        return self.tgt_set(md, "(arrMove %s %s %s %s)" % (cur, doff, soff, cnt))

    def stmt_memcpy(self, s):
        """`std::memcpy(D.data() + d, S.data() + s, cnt * sizeof(T));` between two DIFFERENT arrays"""
        sig = canon_type(qt(unwrap(s["inner"][0])))
        if not sig.replace("__restrict", "").replace(" ,", ",").startswith("void *(void *, const void *, size_t)"):
            raise Unsupported("memcpy with signature %s" % sig)
        if len(s["inner"]) != 4:
            raise Unsupported("memcpy with %d arguments" % (len(s["inner"]) - 1))
        (md, doff), (ms, soff) = self.ptr_into(s["inner"][1]), self.ptr_into(s["inner"][2])
        if md == ms or self.tgt_cur(md) == self.tgt_cur(ms):
            raise Unsupported("memcpy within one array (overlap is undefined behaviour)")
        if self.tgt_type(md) != self.tgt_type(ms):
            raise Unsupported("memcpy between arrays of different element types")
        cnt = self.elem_count(s["inner"][3], md)
        self.prims.add("arrCopy")
        return self.tgt_set(md, "(arrCopy %s %s %s %s %s)" % (self.tgt_cur(md), doff, self.tgt_cur(ms), soff, cnt))

    def stmt_fill(self, s):
        """`std::fill(A.begin(), A.end(), v);` on a member array / loop-carried local"""
        if len(s["inner"]) != 4:
            raise Unsupported("fill with %d arguments" % (len(s["inner"]) - 1))
        ends = []
        for a, nm in ((s["inner"][1], "begin"), (s["inner"][2], "end")):
            a = unwrap(a)
            ok = a.get("kind") == "CXXMemberCallExpr" and len(a["inner"]) == 1 and unwrap(a["inner"][0]).get("kind") == "MemberExpr" and \
                unwrap(a["inner"][0]).get("name") == nm
            m = self.member_of_obj(unwrap(a["inner"][0])["inner"][0]) if ok else None
            if m is None or self.members.get(m, (0, ""))[1] not in ("Array α", "Array (Cx α)"):
                raise Unsupported("fill range is not `A.%s()` of a member array" % nm)
            ends.append(m)
        if ends[0] != ends[1]:
            raise Unsupported("fill range over two arrays (%s, %s)" % tuple(ends))
        m = ends[0]
        v = s["inner"][3]
        while v.get("kind") in ("MaterializeTemporaryExpr", "ParenExpr") or (v.get("kind") == "ImplicitCastExpr" and v.get("castKind") == "NoOp"):
            v = v["inner"][0]
        if self.elem_kind(m) == "real":
            if v.get("kind") == "IntegerLiteral":
                val = "(Fn.ofInt (%s : Int))" % v["value"]        # `*it = v` converts the int to real_t
            elif kind_of_type(qt(v)) == "real":
                val = self.e(v)
            else:
                raise Unsupported("fill value of type %s" % qt(v))
        elif v.get("kind") == "CXXTemporaryObjectExpr" and kind_of_type(qt(v)) == "cx" and v.get("inner") and \
                all(a.get("kind") == "CXXDefaultArgExpr" for a in v["inner"]) and \
                canon_type(v.get("ctorType", {}).get("qualType", "")) == "void (real_t, real_t)":
            val = "zeroC"       # `cmplx_t()`: both default arguments (CHECKED to be 0 in unit StepsBase)
        else:
            if v.get("kind") != "IntegerLiteral":
                raise Unsupported("fill of a complex array with a value other than an integer literal")
            # `*it = v`: cmplx_t(const T& v) : re{static_cast<real_t>(v)}, im{0}  (PINNED in unit StepsArray)
            val = "(Cx.mk (Fn.ofInt (%s : Int)) (Fn.ofInt (0 : Int)))" % v["value"]
        self.prims.add("arrFill")
        cur = self.mref(m)
        return self.set_member(m, "(arrFill %s %s)" % (cur, val))

    # ---------------------------------------------------------------- statements
    def note_assigned(self, v):
        for fr in reversed(self.frames):
            if v in fr["decl"]:
                return
            if v not in fr["assigned"]:
                fr["assigned"].append(v)

    def declare(self, v, lt=None):
        if self.frames:
            self.frames[-1]["decl"].add(v)
        self.bound.add(v)
        if v not in self.decl_order:
            self.decl_order.append(v)
        if lt is not None:
            self.types[v] = lt

    def ends(self, s):
        if s.get("kind") == "ContinueStmt":
            return True
        return super().ends(s)

    def flush(self):
        t = "".join(self.pre)
        self.pre = []
        self.n_effects = 0
        return t

    def local_type(self, d):
        lt = lean_type_of(qt(d))
        if lt not in ("α", "Int", "Cx α"):
            raise Unsupported("local `%s` of type %s" % (d.get("name"), qt(d)))
        return lt

    def assign(self, lhs, r, whole=False):
        lhs = unwrap(lhs)
        k = lhs.get("kind")
        if k == "CXXOperatorCallExpr" and self.callee_name(lhs) == "operator[]":
            vi = self.vec_index(lhs)
            if vi is not None:
                # `v[i] = <array>` / `v[i] = <int>` on a std::vector: the element is replaced
                vr, idx = vi
                if (vr[2] == "Array (Array α)") != bool(whole):
                    raise Unsupported("assignment to an element of a %s" % vr[2])
                self.prims.add("ptrSet")
                return self.vec_set(vr, "(ptrSet %s %s %s)" % (self.vec_cur(vr), idx, r))
            vj = self.vec_index(lhs["inner"][1])
            if vj is not None:
                # `v[i][k] = e`: base_array::operator[](int) on an element of a vector of arrays
                vr, idx = vj
                if vr[2] != "Array (Array α)" or not re.search(r"\((int)\)", qt(unwrap(lhs["inner"][0]))):
                    raise Unsupported("assignment to a cell of an element of a %s" % vr[2])
                self.prims.update(("ptrSet", "ptrGet"))
                cur = self.vec_cur(vr)
                return self.vec_set(vr, "(ptrSet %s %s (arrSet (ptrGet #[] %s %s) %s %s))" % (cur, idx, cur, idx, self.e(lhs["inner"][2]), r))
        if k == "DeclRefExpr" and lhs["referencedDecl"].get("kind") == "ParmVarDecl" and whole and \
                lhs["referencedDecl"].get("name") in self.local_arrays and lhs["referencedDecl"].get("name") not in self.arrays:
            v = self.local_arrays[lhs["referencedDecl"]["name"]][0]       # a by-value array parameter: a local of the function
            self.nonpreserving.add(v)
            self.note_assigned(v)
            return "let %s := %s\n" % (v, r)
        if k == "DeclRefExpr" and lhs["referencedDecl"].get("kind") == "VarDecl" and self.member_of_obj(lhs) is None:
            if self.loop and lhs["referencedDecl"]["name"] == self.loop["var"]:
                raise Unsupported("assignment to the loop variable")
            v = self.var(lhs["referencedDecl"]["name"])
            if v not in self.bound:
                raise Unsupported("assignment to `%s`, which is not a local of the translated body" % v)
            if v in self.loop_vars:
                raise Unsupported("assignment to the loop counter `%s`" % v)
            if v in self.uninit:
                if self.frames:
                    raise Unsupported("first assignment of the uninitialised local `%s` inside a branch / loop" % v)
                self.uninit.discard(v)
            self.note_assigned(v)
            return "let %s := %s\n" % (v, r)
        if k == "UnaryOperator" and lhs.get("opcode") == "*":
            t, off = self.ptr_into(lhs["inner"][0])
            self.prims.add("ptrSet")
            return self.tgt_set(t, "(ptrSet %s %s %s)" % (self.tgt_cur(t), off, r))
        if k == "ArraySubscriptExpr":
            t, off = self.ptr_into(lhs["inner"][0])
            if kind_of_type(qt(lhs["inner"][1])) != "int":
                raise Unsupported("subscript of type %s" % qt(lhs["inner"][1]))
            i = self.e(lhs["inner"][1])
            idx = i if off == "(0 : Int)" else "(%s + %s)" % (off, i)
            self.prims.add("ptrSet")
            return self.tgt_set(t, "(ptrSet %s %s %s)" % (self.tgt_cur(t), idx, r))
        if whole and k == "DeclRefExpr" and lhs["referencedDecl"].get("name") in self.local_arrays:
            v = self.local_arrays[lhs["referencedDecl"]["name"]][0]
            self.note_assigned(v)
            return "let %s := %s\n" % (v, r)
        m = self.member_of_obj(lhs)
        if m is not None:
            if whole and self.members.get(m, (0, ""))[1] in ("Array α", "Array (Cx α)"):
                return self.set_member(m, r)      # base_array<T>::operator= (copy / move: PINNED in unit StepsArray)
            if self.members.get(m, (0, "")) [1] not in ("α", "Int", "Cx α"):
                raise Unsupported("assignment to member %s of type %s" % (m, self.members.get(m, (0, 0, "?"))[2]))
            return self.set_member(m, r)
        if k == "MemberExpr" and lhs.get("name") in ("re", "im") and unwrap(lhs["inner"][0]).get("kind") == "CXXOperatorCallExpr" and \
                kind_of_type(qt(unwrap(lhs["inner"][0]))) == "cx":
            # `A[i].re = v;` — one field of a complex cell
            cl = unwrap(lhs["inner"][0])
            cur = self.e(cl)
            return self.assign(cl, "{ %s with %s := %s }" % (cur, lhs["name"], r))
        if k == "CXXOperatorCallExpr":
            c = self.cell(lhs)
            if c is not None and c[0] == "array":
                raise Unsupported("write to the read-only array %s" % c[1])
            if c is not None and c[0] == "local":
                ln, lt = self.local_arrays[c[1]]
                if self.local_const.get(c[1]):
                    raise Unsupported("write to the const array local %s" % c[1])
                self.note_assigned(ln)
                return "let %s := (arrSet %s %s %s)\n" % (ln, ln, self.e(c[2]), r)
            if c is not None and c[0] == "out":
                if self.frames and c[1] not in self.bound:
                    raise Unsupported("output cell %s first written inside a branch / inner loop" % c[1])
                if c[1] in self.bound and not (self.loop and self.loop.get("indexed")):
                    raise Unsupported("output cell %s written twice" % c[1])
                self.note_assigned(c[1])
                self.bound.add(c[1])
                if c[1] not in self.cells_written:
                    self.cells_written.append(c[1])
                ct = self.loop.get("cell_types", {}).get(c[1])
                return "let %s%s := %s\n" % (c[1], (" : %s" % ct) if ct else "", r)
            if c is not None and c[0] == "member":
                lt = self.members[c[1]][1]
                cur = self.mref(c[1])
                return self.set_member(c[1], "(arrSet %s %s %s)" % (cur, self.e(c[2]), r))
            if c is not None and c[0] == "sample":
                raise Unsupported("write to the input array")
        raise Unsupported("assignment target %s" % k)

    def fallible_call(self, n):
        """`f(args)` (possibly wrapped in the temporaries of a by-value return) with `f` a translated function that may throw
        -> lean text of the call (an `Except String …`), or None"""
        while n.get("kind") in ("MaterializeTemporaryExpr", "CXXBindTemporaryExpr", "ExprWithCleanups") or \
                (n.get("kind") == "ImplicitCastExpr" and n.get("castKind") == "NoOp") or \
                (n.get("kind") == "CXXConstructExpr" and len(n.get("inner", [])) == 1 and
                 re.search(r"&&?\)( noexcept)?$", n.get("ctorType", {}).get("qualType", ""))):
            n = n["inner"][0]
        if n.get("kind") != "CallExpr" or self.callee_name(n) not in self.fallible_fns:
            return None
        sig = canon_type(qt(unwrap(n["inner"][0])))
        tab = self.fallible_fns[self.callee_name(n)]
        if sig not in tab:
            raise Unsupported("call of %s with signature %s" % (self.callee_name(n), sig))
        args = []
        for a in n["inner"][1:]:
            if a.get("kind") == "CXXDefaultArgExpr":
                raise Unsupported("call of %s relying on a default argument" % self.callee_name(n))
            if kind_of_type(qt(a)) == "bool":
                u = unwrap(a)
                args.append(("true" if u["value"] else "false") if u.get("kind") == "CXXBoolLiteralExpr" else "(decide %s)" % self.e(a))
            else:
                args.append(self.e(a))
        if self.pre:
            raise Unsupported("state-changing call in the arguments of %s" % self.callee_name(n))
        return "(%s %s)" % (tab[sig], " ".join(args))

    def vector_stmt(self, s, cont):
        """statements on `std::vector` members / locals and statements whose right-hand side is a call that may throw; None = not one"""
        su = s
        while su.get("kind") == "ExprWithCleanups" and len(su.get("inner", [])) == 1:
            su = su["inner"][0]
        k = su.get("kind")
        if k == "CXXMemberCallExpr":
            me = unwrap(su["inner"][0])
            if me.get("kind") == "MemberExpr" and me.get("name") in ("reserve", "push_back", "emplace_back") and \
                    canon_type(strip_type(qt(unwrap(me["inner"][0])))) in VECTOR_T:
                vr = self.vec_ref(me["inner"][0])
                args = [a for a in su["inner"][1:] if a.get("kind") != "CXXDefaultArgExpr"]
                if len(args) != 1:
                    raise Unsupported("%s with %d arguments" % (me["name"], len(args)))
                if me["name"] == "reserve":
                    # std::vector::reserve: capacity only — size and elements are unchanged
                    if kind_of_type(qt(args[0])) != "int" or find_all(args[0], lambda x: x.get("kind") in ("CallExpr", "CXXMemberCallExpr", "CXXOperatorCallExpr")):
                        raise Unsupported("reserve with a computed argument")
                    return cont()
                a0 = args[0]
                while a0.get("kind") in ("MaterializeTemporaryExpr", "CXXBindTemporaryExpr") or (a0.get("kind") == "ImplicitCastExpr" and a0.get("castKind") == "NoOp"):
                    a0 = a0["inner"][0]
                if vr[2] == "Array (Array α)":
                    val = self.array_value(a0)         # push_back / emplace_back(const arr_real&): a copy of the array is appended
                else:
                    if canon_type(strip_type(qt(a0))) != "int":
                        raise Unsupported("%s of a %s into a std::vector<int>" % (me["name"], qt(a0)))
                    val = self.e(a0)
                pre = self.flush()
                return pre + self.vec_set(vr, "(vecPush %s %s)" % (self.vec_cur(vr), val)) + cont()
        if k == "CXXOperatorCallExpr" and self.callee_name(su) == "operator=":
            lhs, rhs = su["inner"][1], su["inner"][2]
            tl = canon_type(strip_type(qt(lhs)))
            fc = self.fallible_call(rhs)
            if fc is not None:
                self.fallible_ok("call of a function that may throw")
                self.n_slices += 1
                vk = "r_%d" % self.n_slices
                self.bound.add(vk)
                if tl in VECTOR_T:
                    vr = self.vec_ref(lhs)
                    asg = self.vec_set(vr, vk)
                elif tl in ARRAY_REAL_T | ARRAY_CX_T:
                    self.prims.add("arrAssign")
                    asg = self.assign(lhs, vk, whole=True)
                else:
                    raise Unsupported("result of a call that may throw assigned to %s" % qt(lhs))
                return "match %s with\n| .error err => (.error err)\n| .ok %s =>\n%s" % (fc, vk, indent(asg + cont()))
            if tl in VECTOR_T:
                vr = self.vec_ref(lhs)
                r = self.e(rhs)
                return self.flush() + self.vec_set(vr, r) + cont()
        if k == "DeclStmt" and len(su["inner"]) == 1 and su["inner"][0].get("kind") == "VarDecl":
            d = su["inner"][0]
            td = canon_type(strip_type(qt(d)))
            if td not in VECTOR_T:
                td2 = canon_type(strip_type(dqt(d)))
                td = td2 if td2 in VECTOR_T else td
            init = [c for c in d.get("inner", []) if c.get("kind") != "FullComment"]
            fc = self.fallible_call(init[0]) if init else None
            if td in VECTOR_T:
                if self.frames or self.in_loop or not init:
                    raise Unsupported("std::vector local `%s` declared inside a branch / loop or without initialiser" % d["name"])
                v = self.var(d["name"])
                if v in self.bound or d["name"] in self.vec_locals:
                    raise Unsupported("std::vector local `%s` shadows a name in scope" % d["name"])
                lt = VECTOR_T[td]
                if fc is not None:
                    self.fallible_ok("call of a function that may throw")
                    self.vec_locals[d["name"]] = (v, lt, "const" in qt(d))
                    self.declare(v, lt)
                    return "match %s with\n| .error err => (.error err)\n| .ok %s =>\n%s" % (fc, v, indent(cont()))
                i0 = init[0]
                while i0.get("kind") in ("ExprWithCleanups", "CXXBindTemporaryExpr", "MaterializeTemporaryExpr") or \
                        (i0.get("kind") == "CXXConstructExpr" and len(i0.get("inner", [])) == 1 and
                         re.search(r"&&\)( noexcept)?$", i0.get("ctorType", {}).get("qualType", ""))):
                    i0 = i0["inner"][0]
                ct = canon_type(i0.get("ctorType", {}).get("qualType", ""))
                if i0.get("kind") in ("CXXTemporaryObjectExpr", "CXXConstructExpr") and lt == "Array (Array α)" and \
                        re.match(r"void \(std::vector::size_type, const std::vector<base_array<double>>::value_type &, const std::vector<base_array<double>>::allocator_type &\)$", ct):
                    a0, a1 = i0["inner"][0], i0["inner"][1]
                    if a0.get("kind") == "ImplicitCastExpr" and a0.get("castKind") == "IntegralCast":
                        a0 = a0["inner"][0]
                    if canon_type(strip_type(qt(a0))) != "int":
                        raise Unsupported("std::vector(n, v) with n : %s" % qt(a0))
                    while a1.get("kind") in ("MaterializeTemporaryExpr", "CXXBindTemporaryExpr") or (a1.get("kind") == "ImplicitCastExpr" and a1.get("castKind") == "NoOp"):
                        a1 = a1["inner"][0]
                    if lean_type_of(qt(a1)) != "Array α":
                        raise Unsupported("std::vector(n, v) with v : %s" % qt(a1))
                    # std::vector(size_type n, const value_type& v): n copies of v (a negative `int` n converts to a huge size: throws; here empty)
                    val = "(vecNew %s %s)" % (self.e(a0), self.e(a1))
                    text = self.flush() + "let %s : %s := %s\n" % (v, lt, val)
                    self.vec_locals[d["name"]] = (v, lt, "const" in qt(d))
                    self.declare(v, lt)
                    return text + cont()
                if i0.get("kind") in ("CXXTemporaryObjectExpr", "CXXConstructExpr") and lt == "Array (Cx α)" and \
                        ct == "void (std::vector::size_type, const std::vector<cmplx_t>::allocator_type &)":
                    a0 = i0["inner"][0]
                    if a0.get("kind") == "ImplicitCastExpr" and a0.get("castKind") == "IntegralCast":
                        a0 = a0["inner"][0]
                    if canon_type(strip_type(qt(a0))) != "int":
                        raise Unsupported("std::vector(n) with n : %s" % qt(a0))
                    # std::vector<cmplx_t>(size_type n): n value-initialised elements = `cmplx_t()` (`zeroC`, CHECKED in unit StepsBase);
                    # a negative `int` n converts to a huge size: throws; here empty
                    self.prims.add("vecNewC")
                    val = "(vecNewC %s)" % self.e(a0)
                    text = self.flush() + "let %s : %s := %s\n" % (v, lt, val)
                    self.vec_locals[d["name"]] = (v, lt, "const" in qt(d))
                    self.declare(v, lt)
                    return text + cont()
                raise Unsupported("initialiser of the std::vector local `%s`: %s %s" % (d["name"], i0.get("kind"), ct))
            if fc is not None and lean_type_of(qt(d)) in ("Array α", "Array (Cx α)"):
                self.fallible_ok("call of a function that may throw")
                lt = lean_type_of(qt(d))
                v = self.var(d["name"])
                if v in self.bound or d["name"] in self.local_arrays:
                    raise Unsupported("array local `%s` shadows a name in scope" % d["name"])
                self.local_arrays[d["name"]] = (v, lt)
                self.local_const[d["name"]] = "const" in qt(d)
                self.declare(v, lt)
                return "match %s with\n| .error err => (.error err)\n| .ok %s =>\n%s" % (fc, v, indent(cont()))
        if k == "CXXOperatorCallExpr" and self.callee_name(su) == "operator/=" and \
                canon_type(strip_type(qt(su["inner"][1]))) in ARRAY_REAL_T and kind_of_type(qt(su["inner"][2])) == "real":
            # `a /= v` on an arr_real: base_array<T>::operator/=(const T2&): `_vec[i] /= rhs` for every i (PINNED in unit StepsArray)
            if canon_type(qt(unwrap(su["inner"][0]))) != "base_array<double> &(const double &) noexcept":
                raise Unsupported("operator/= on an array through %s" % qt(unwrap(su["inner"][0])))
            cur = self.array_value(su["inner"][1])
            r = self.e(su["inner"][2])
            self.prims.add("arrDivRR")
            a = self.assign(su["inner"][1], "(arrDivRR %s %s)" % (cur, r), whole=True)
            return self.flush_before(a) + cont()
        return None

    def stmts(self, lst, final, throws=False):
        if not lst:
            return final
        s, rest = lst[0], lst[1:]
        k = s.get("kind")
        cont = lambda: self.stmts(rest, final)
        vs_ = self.vector_stmt(s, cont)
        if vs_ is not None:
            return vs_
        if (k == "CXXThrowExpr" or (k == "ExprWithCleanups" and s.get("inner") and s["inner"][0].get("kind") == "CXXThrowExpr")) and \
                self.fallible and not self.in_loop and self.inner_depth == 0:
            return '(.error "%s")' % self.throw_msg(s)
        if k == "UnaryOperator" and s.get("opcode") in ("++", "--") and unwrap(s["inner"][0]).get("kind") == "DeclRefExpr" and \
                unwrap(s["inner"][0])["referencedDecl"].get("name") in self.ptr_locals:
            t_, ov = self.ptr_into(s["inner"][0])
            self.note_assigned(ov)
            return "let %s := (%s %s (1 : Int))\n" % (ov, ov, "+" if s["opcode"] == "++" else "-") + cont()
        if k == "CompoundAssignOperator" and s.get("opcode") in ("+=", "-=") and unwrap(s["inner"][0]).get("kind") == "DeclRefExpr" and \
                unwrap(s["inner"][0])["referencedDecl"].get("name") in self.ptr_locals:
            t_, ov = self.ptr_into(s["inner"][0])
            if kind_of_type(qt(s["inner"][1])) != "int":
                raise Unsupported("pointer %s %s" % (s["opcode"], qt(s["inner"][1])))
            r = self.e(s["inner"][1])
            pre = self.flush()
            self.note_assigned(ov)
            return pre + "let %s := (%s %s %s)\n" % (ov, ov, s["opcode"][0], r) + cont()
        if k == "CompoundStmt":
            # (scoping: a declaration inside a nested block shadows until the end of the enclosing list — names are
            #  unique in the translated bodies or the Lean shadowing coincides; nested plain blocks are rare)
            if any(c.get("kind") == "DeclStmt" for c in s.get("inner", [])) and rest:
                raise Unsupported("nested block with declarations")
            return self.stmts(list(s.get("inner", [])) + rest, final)
        if k == "NullStmt":
            return cont()
        if k == "DeclStmt":
            text = ""
            for d in s["inner"]:
                if d.get("kind") == "VarDecl" and not [c for c in d.get("inner", []) if c.get("kind") != "FullComment"] and \
                        d.get("storageClass") != "static" and lean_type_of(qt(d)) in ("Int", "α") and not self.frames and \
                        d.get("name") not in self.scratch and d.get("name") not in self.arrays:
                    # `int pos;` — no value until the first assignment (a read before that is refused)
                    v = self.var(d["name"])
                    if v in self.bound:
                        raise Unsupported("local `%s` shadows a name in scope" % v)
                    self.declare(v, lean_type_of(qt(d)))
                    self.uninit.add(v)
                    continue
                if d.get("kind") != "VarDecl" or "inner" not in d:
                    raise Unsupported("declaration without initialiser")
                if d.get("storageClass") == "static":
                    raise Unsupported("static local %s" % d.get("name"))
                if d.get("name") in self.scratch or d.get("name") in self.arrays:
                    raise Unsupported("local `%s` shadows an array of the enclosing scope" % d.get("name"))
                init = [c for c in d["inner"] if c.get("kind") not in ("FullComment",)][0]
                if ptr_param(qt(d)) is not None:
                    # `const auto* px = x.data() + k;` — a pointer into an array: the array it points into is fixed, the position is
                    # an `Int` offset (which `++px`, `px += n` move)
                    tgt, off = self.ptr_into(init)
                    if ptr_param(qt(d))[0] != self.tgt_type(tgt):
                        raise Unsupported("pointer local `%s` : %s into an array of %s" % (d["name"], qt(d), self.tgt_type(tgt)))
                    if not ptr_param(qt(d))[1] and tgt[0] in ("ro",):
                        raise Unsupported("pointer-to-non-const into the read-only array %s" % tgt[1])
                    ov = self.var(d["name"]) + "_o"
                    if ov in self.bound or d["name"] in self.ptr_locals:
                        raise Unsupported("pointer local `%s` shadows a name in scope" % d["name"])
                    text += self.flush() + "let %s : Int := %s\n" % (ov, off)
                    self.ptr_locals[d["name"]] = (tgt, ov)
                    self.declare(ov, "Int")
                    continue
                init_u = init
                while init_u.get("kind") in ("ImplicitCastExpr", "ExprWithCleanups", "MaterializeTemporaryExpr") and \
                        (init_u.get("kind") != "ImplicitCastExpr" or init_u.get("castKind") in ("NoOp", "LValueToRValue")):
                    init_u = init_u["inner"][0]
                vt = None
                if init_u.get("kind") == "CXXOperatorCallExpr" and self.callee_name(init_u) == "operator[]" and \
                        canon_type(strip_type(qt(unwrap(init_u["inner"][1])))) in VECTOR_T:
                    vt = {"Array (Array α)": "Array α", "Array Int": "Int"}[VECTOR_T[canon_type(strip_type(qt(unwrap(init_u["inner"][1]))))]]
                if (vt == "Array α" or lean_type_of(dqt(d)) in ("Array α", "Array (Cx α)")) and "const" in qt(d) and \
                        (self.frames or self.in_loop or vt is not None) and (vt is not None or not getattr(self, "block_arrays", False)):
                    # a const array (reference) local: an alias of a value the function does not change
                    lt = vt or lean_type_of(dqt(d))
                    v = self.var(d["name"])
                    if v in self.bound or d["name"] in self.local_arrays:
                        raise Unsupported("array local `%s` shadows a name in scope" % d["name"])
                    ve = self.vec_elem(init)
                    if ve is None:
                        raise Unsupported("initialiser of the const array local `%s`" % d["name"])
                    text += self.flush() + "let %s : %s := %s\n" % (v, lt, ve)
                    self.local_arrays[d["name"]] = (v, lt)
                    self.local_const[d["name"]] = True
                    self.declare(v, lt)
                    continue
                if lean_type_of(qt(d)) in ("Array α", "Array (Cx α)") and (self.frames or self.in_loop) and "const" in qt(d) and \
                        getattr(self, "block_arrays", False):
                    # `const auto ry = <array expression>;` inside a branch / loop body: a name for a value, local to the block
                    lt = lean_type_of(qt(d))
                    v = self.var(d["name"])
                    if v in self.bound or d["name"] in self.local_arrays:
                        raise Unsupported("array local `%s` shadows a name in scope" % d["name"])
                    i0 = unwrap(init)
                    while (i0.get("kind") == "ImplicitCastExpr" and i0.get("castKind") == "NoOp") or \
                            (i0.get("kind") == "CXXFunctionalCastExpr" and i0.get("castKind") == "ConstructorConversion"):
                        i0 = unwrap(i0["inner"][0])
                    if not (lean_type_of(qt(i0)) == lt and i0.get("kind") in ("CXXOperatorCallExpr", "CallExpr", "CXXConstructExpr")):
                        raise Unsupported("initialiser of the block-local array `%s`: %s" % (d["name"], i0.get("kind")))
                    val = self.e(i0)
                    text += self.flush() + "let %s : %s := %s\n" % (v, lt, val)
                    self.local_arrays[d["name"]] = (v, lt)
                    self.local_const[d["name"]] = True
                    self.declare(v, lt)
                    continue
                if lean_type_of(qt(d)) in ("Array α", "Array (Cx α)"):
                    # an array local: `arr_real r(n);` (n zero elements) or `auto x = <array expression>;`
                    if self.frames or self.in_loop:
                        raise Unsupported("array local `%s` declared inside a branch / loop" % d["name"])
                    lt = lean_type_of(qt(d))
                    v = self.var(d["name"])
                    if v in self.bound or d["name"] in self.local_arrays:
                        raise Unsupported("array local `%s` shadows a name in scope" % d["name"])
                    i0 = unwrap(init)
                    while (i0.get("kind") == "ImplicitCastExpr" and i0.get("castKind") == "NoOp") or \
                            (i0.get("kind") == "CXXFunctionalCastExpr" and i0.get("castKind") == "ConstructorConversion"):
                        i0 = unwrap(i0["inner"][0])
                    self.local_const[d["name"]] = "const" in qt(d)
                    if i0.get("kind") == "CXXMemberCallExpr" and self.member_of_obj(unwrap(i0["inner"][0])["inner"][0]) in self.subobjs and \
                            self.subobjs[self.member_of_obj(unwrap(i0["inner"][0])["inner"][0])]["ops"].get(unwrap(i0["inner"][0])["name"], {}) and \
                            isinstance(self.subobjs[self.member_of_obj(unwrap(i0["inner"][0])["inner"][0])]["ops"][unwrap(i0["inner"][0])["name"]], dict):
                        # `const auto y = _sub.process(x);` — the sub-object's generated function may throw
                        if len(s["inner"]) != 1:
                            raise Unsupported("several declarators with a sub-object call")
                        self.fallible_ok("call of a sub-object function that may throw")
                        sm = self.member_of_obj(unwrap(i0["inner"][0])["inner"][0])
                        op = self.subobjs[sm]["ops"][unwrap(i0["inner"][0])["name"]]
                        if op["ret"] != lt:
                            raise Unsupported("%s returns %s, declared %s" % (op["lean"], op["ret"], lt))
                        argn = [a for a in i0["inner"][1:] if a.get("kind") != "CXXDefaultArgExpr"]
                        args = [self.e(a) for a in argn]
                        cur = self.mref(sm)
                        self.n_slices += 1
                        rv = "r_%s_%d" % (self.members[sm][0], self.n_slices)
                        self.bound.add(rv)
                        setm = self.set_member(sm, "%s.1" % rv)
                        self.local_arrays[d["name"]] = (v, lt)
                        self.declare(v, lt)
                        return text + self.flush() + "match (%s %s %s) with\n| .error err => (.error err)\n| .ok %s =>\n%s" % (
                            op["lean"], cur, " ".join(args), rv, indent(setm + "let %s : %s := %s.2\n" % (v, lt, rv) + cont()))
                    if i0.get("kind") == "CXXConstructExpr" and canon_type(i0.get("ctorType", {}).get("qualType", "")) == "void (int)":
                        self.prims.add("arrNew")
                        val = "(arrNew %s %s)" % (self.arr_default(lt), self.e(i0["inner"][0]))
                    elif lean_type_of(qt(i0)) == lt and i0.get("kind") in ("CXXOperatorCallExpr", "CallExpr", "CXXConstructExpr", "CXXMemberCallExpr"):
                        val = self.e(i0)
                    else:
                        raise Unsupported("initialiser of the array local `%s`: %s" % (d["name"], i0.get("kind")))
                    text += self.flush() + "let %s : %s := %s\n" % (v, lt, val)
                    self.local_arrays[d["name"]] = (v, lt)
                    self.declare(v, lt)
                    continue
                lt = self.local_type(d)
                val = self.e(init)
                v = self.var(d["name"])
                text += self.flush() + "let %s : %s := %s\n" % (v, lt, val)
                self.declare(v, lt)
            return text + cont()
        if k == "ReturnStmt":
            if self.in_loop:
                raise Unsupported("return inside the sample loop")
            if not s.get("inner"):
                r = self.svar() if self.effect else "()"
                return ("(.ok %s)" % r) if self.fallible else r
            sl = self.slice_rhs(s["inner"][0])
            if sl is not None:
                # `return A.slice(i1, i2);` — the conversion of the slice to the returned array may throw
                self.fallible_ok("returned slice")
                src = self.array_value(sl[0])
                a, b = self.e(sl[1]), self.e(sl[2])
                pre = self.flush()
                self.n_slices += 1
                v = "sl_%d" % self.n_slices
                self.prims.add("arrSlice")
                r = ("(%s, %s)" % (self.svar(), v)) if self.effect else v
                return pre + "match (arrSlice %s %s %s) with\n| .error err => (.error err)\n| .ok %s =>\n  (.ok %s)" % (src, a, b, v, r)
            v = self.e(s["inner"][0])
            pre = self.flush()
            r = ("(%s, %s)" % (self.svar(), v)) if self.effect else v
            return pre + (("(.ok %s)" % r) if self.fallible else r)
        if k == "ContinueStmt" and self.in_loop and self.inner_depth == 0:
            return final            # next sample: the iteration ends with the values reached so far
        if k == "ForStmt":
            return self.inner_for(s) + cont()
        if k == "WhileStmt":
            return self.bounded_walk(s) + cont()
        if k == "CXXForRangeStmt":
            return self.range_for(s) + cont()
        if k in ("BreakStmt", "ContinueStmt", "GotoStmt", "CXXThrowExpr", "DoStmt", "SwitchStmt",
                 "CXXTryStmt"):
            raise Unsupported("statement kind %s in a step body" % k)
        if k == "IfStmt":
            parts = s["inner"]
            if s.get("hasInit") or s.get("hasVar") or len(parts) not in (2, 3):
                raise Unsupported("if with init-statement / condition variable")
            cond = self.e(parts[0])
            pre = self.flush()
            then = parts[1]
            els = parts[2] if len(parts) > 2 else None
            if has_exit(s) or (self.fallible and self.has_fallible(s)):
                # a branch that leaves the function, or contains a statement that may throw: the rest of the function is
                # continued inside each branch
                bound0 = set(self.bound)
                t = self.stmts([then] + rest, final) if not self.ends(then) else self.stmts([then], final)
                self.bound = set(bound0)
                if els is not None:
                    e = self.stmts([els] + rest, final) if not self.ends(els) else self.stmts([els], final)
                else:
                    e = cont()
                self.bound = set(bound0)
                return pre + "if %s then\n%s\nelse\n%s" % (cond, indent(t), indent(e))
            # no exit inside: join the branches on the variables they assign
            bound0 = set(self.bound)
            res = []
            for br in (then, els):
                self.frames.append({"decl": set(), "assigned": []})
                txt = self.stmts([br], JOIN) if br is not None else JOIN
                fr = self.frames.pop()
                self.bound = set(bound0)
                self.prune_locals()
                res.append((txt, fr["assigned"]))
            vs = []
            for _, a in res:
                for v in a:
                    if v not in vs:
                        vs.append(v)
            if not vs:
                return pre + cont()       # branches without effect (cannot happen for well-formed code; kept exact)
            for v in vs:
                if v not in bound0:
                    raise Unsupported("`%s` is assigned in a branch but not defined before the `if`" % v)
                self.note_assigned(v)
            tup = vs[0] if len(vs) == 1 else "(%s)" % ", ".join(vs)
            t, e = res[0][0].replace(JOIN, tup), res[1][0].replace(JOIN, tup)
            if len(vs) == 1:
                text = "let %s := (if %s then\n%s\n  else\n%s)\n" % (vs[0], cond, indent(t, 4), indent(e, 4))
            else:
                j = "j_%d" % self.fresh_join()
                text = "let %s := (if %s then\n%s\n  else\n%s)\n" % (j, cond, indent(t, 4), indent(e, 4))
                for i, v in enumerate(vs):
                    proj = ".2" * i + (".1" if i < len(vs) - 1 else "")
                    text += "let %s := %s%s\n" % (v, j, proj)
            return pre + text + cont()
        if k in ("BinaryOperator", "CompoundAssignOperator") and (s.get("opcode") == "=" or k == "CompoundAssignOperator"):
            lhs, rhs = s["inner"]
            r = self.e(rhs)
            if k == "CompoundAssignOperator":
                op = s["opcode"][:-1]
                if op not in ("+", "-", "*", "/", "%"):
                    raise Unsupported("compound assignment %s" % s["opcode"])
                kl, kr = kind_of_type(qt(lhs)), kind_of_type(qt(rhs))
                ck = kind_of_type(s.get("computeResultType", {}).get("qualType", qt(s)))
                cur = self.e(lhs)
                if kl == "int" and ck == "real":
                    raise Unsupported("compound assignment computing in floating point into an integer")
                if kl == "real" and kr == "int":
                    r = "(Fn.ofInt %s)" % r
                elif kl != kr:
                    raise Unsupported("compound assignment on %s / %s" % (qt(lhs), qt(rhs)))
                if op == "/" and kl == "int":
                    r = "(Int.tdiv %s %s)" % (cur, r)
                elif op == "%":
                    r = "(Int.tmod %s %s)" % (cur, r)
                else:
                    r = "(%s %s %s)" % (cur, op, r)
            a = self.assign(lhs, r)
            return self.flush_before(a) + cont()
        if k == "ExprWithCleanups":
            return self.stmts(list(s["inner"]) + rest, final)
        if k in ("ParenExpr", "CXXStaticCastExpr", "CStyleCastExpr") and self.is_void_literal(s):
            return cont()           # `assert(…)` under NDEBUG: `((void)0)`
        if k == "CXXOperatorCallExpr" and self.callee_name(s) == "operator=" and self.slice_call(s["inner"][1]) is not None:
            return self.stmt_slice_to_slice(s, cont)
        if k == "CXXOperatorCallExpr" and self.callee_name(s) == "operator=" and self.slice_rhs(s["inner"][2]) is not None:
            return self.stmt_slice_assign(s, cont)
        if k == "CallExpr" and self.callee_name(s) in ("memmove", "fill", "memcpy"):
            nm_ = self.callee_name(s)
            a = self.stmt_memmove(s) if nm_ == "memmove" else (self.stmt_memcpy(s) if nm_ == "memcpy" else self.stmt_fill(s))
            return self.flush_before(a) + cont()
        if k == "CallExpr" and self.callee_name(s) in self.procs:
            a = self.stmt_proc(s)
            return self.flush_before(a) + cont()
        if k == "UnaryOperator" and s.get("opcode") in ("++", "--"):
            tgt = s["inner"][0]
            if kind_of_type(qt(tgt)) != "int":
                raise Unsupported("++/-- on %s" % qt(tgt))
            r = "(%s %s (1 : Int))" % (self.e(tgt), "+" if s["opcode"] == "++" else "-")
            a = self.assign(tgt, r)
            return self.flush_before(a) + cont()
        if k == "CXXOperatorCallExpr":
            nm = self.callee_name(s)
            if nm == "operator=":
                lhs, rhs = s["inner"][1], s["inner"][2]
                tl, tr_ = canon_type(strip_type(qt(lhs))), canon_type(strip_type(qt(rhs)))
                if tl not in ARRAY_REAL_T | ARRAY_CX_T and canon_type(strip_type(dqt(lhs))) in ARRAY_REAL_T | ARRAY_CX_T:
                    tl = canon_type(strip_type(dqt(lhs)))          # `v[i]` of a std::vector<arr_real>: `value_type`
                if tr_ not in ARRAY_REAL_T | ARRAY_CX_T and canon_type(strip_type(dqt(rhs))) in ARRAY_REAL_T | ARRAY_CX_T:
                    tr_ = canon_type(strip_type(dqt(rhs)))
                same = lambda a, b: (a in ARRAY_REAL_T and b in ARRAY_REAL_T) or (a in ARRAY_CX_T and b in ARRAY_CX_T)
                if tl in ARRAY_REAL_T | ARRAY_CX_T and same(tl, tr_):
                    tr_ = tl
                whole = False
                if tl in ARRAY_REAL_T | ARRAY_CX_T:
                    # whole-array assignment `A = <array expression>`: the copy or the move assignment of base_array<T>
                    sig = canon_type(qt(unwrap(s["inner"][0])))
                    el = "double" if tl in ARRAY_REAL_T else "cmplx_t"
                    if tr_ != tl or sig not in ("base_array<%s> &(base_array<%s> &&) noexcept" % (el, el),
                                                "base_array<%s> &(const base_array<%s> &)" % (el, el)):
                        raise Unsupported("array assignment %s = %s (callee %s)" % (tl, tr_, sig))
                    whole = True
                    self.prims.add("arrAssign")
                r = self.e(rhs)
                a = self.assign(lhs, r, whole=whole)
                return self.flush_before(a) + cont()
            if nm in ("operator+=", "operator-=", "operator*=", "operator/="):
                lhs, rhs = s["inner"][1], s["inner"][2]
                op = nm[len("operator")]
                kl, kr = kind_of_type(qt(lhs)), kind_of_type(qt(rhs))
                if kl != "cx":
                    raise Unsupported("%s on %s" % (nm, qt(lhs)))
                cur, r = self.e(lhs), self.e(rhs)
                fn = {"+": "add", "-": "sub", "*": "mul", "/": "div"}[op] + ("r" if kr == "real" else "") + "Assign"
                if kr not in ("cx", "real"):
                    raise Unsupported("%s with %s" % (nm, qt(rhs)))
                a = self.assign(lhs, "(Cx.%s %s %s)" % (fn, cur, r))
                return self.flush_before(a) + cont()
        raise Unsupported("statement kind %s" % k)

    def inner_for(self, s):
        """`for (int i = 0; i < hi; i++) BODY` inside a step body: a left fold over `List.range hi` on the variables BODY assigns"""
        init, condvar, cond, inc, body = s["inner"]
        if condvar and condvar.get("kind"):
            raise Unsupported("loop condition variable")
        if not (init.get("kind") == "DeclStmt" and len(init["inner"]) >= 1 and canon_type(qt(init["inner"][0])) == "int"
                and init["inner"][0].get("inner") and unwrap(init["inner"][0]["inner"][0]).get("kind") == "IntegerLiteral"
                and unwrap(init["inner"][0]["inner"][0])["value"] == "0"):
            raise Unsupported("inner loop does not start with `int i = 0`")
        cname = init["inner"][0]["name"]
        isvar = lambda n: unwrap(n).get("kind") == "DeclRefExpr" and unwrap(n)["referencedDecl"].get("name") == cname
        if not (cond.get("kind") == "BinaryOperator" and cond["opcode"] == "<" and isvar(cond["inner"][0]) and
                kind_of_type(qt(cond["inner"][1])) == "int"):
            raise Unsupported("inner loop condition is not `%s < bound`" % cname)

        # increment: `++i`, or a comma list `++i, idx += d, ++p` — the other items run at the end of every iteration
        def comma_items(n):
            if n.get("kind") == "BinaryOperator" and n.get("opcode") == ",":
                return comma_items(n["inner"][0]) + comma_items(n["inner"][1])
            return [n]
        incs = comma_items(inc)
        own = [x for x in incs if x.get("kind") == "UnaryOperator" and x["opcode"] == "++" and isvar(x["inner"][0])]
        extra_inc = [x for x in incs if x not in own]
        if len(own) != 1:
            raise Unsupported("inner loop increment does not contain exactly one `++%s`" % cname)
        for x in extra_inc:
            if find_all(x, lambda y: y.get("kind") == "DeclRefExpr" and y.get("referencedDecl", {}).get("name") == cname):
                raise Unsupported("inner loop increment item uses the counter `%s`" % cname)
        if has_exit(body):
            raise Unsupported("break / continue / return inside an inner loop")
        saved_reads, self.reads = self.reads, set()
        hi = self.e(cond["inner"][1])
        hi_members, self.reads = self.reads, saved_reads | self.reads
        pre = self.flush()
        # further variables of the init-statement (`int j = 0, idx = k`): int locals that live for the loop
        for d in init["inner"][1:]:
            if d.get("kind") != "VarDecl" or canon_type(qt(d)) != "int" or not d.get("inner"):
                raise Unsupported("inner loop init-statement declares %s" % qt(d))
            ev = self.var(d["name"])
            if ev in self.bound:
                raise Unsupported("inner loop variable `%s` shadows a variable in scope" % ev)
            pre += "let %s : Int := %s\n" % (ev, self.e(d["inner"][0]))
            if self.pre:
                raise Unsupported("state-changing call in a loop init-statement")
            self.declare(ev, "Int")
        if extra_inc:
            body = {"kind": "CompoundStmt", "inner": (list(body.get("inner", [])) if body.get("kind") == "CompoundStmt" else [body]) + extra_inc}
        return self._fold(cname, hi, hi_members, pre, body, "", "for (int %s = 0; %s < %s; %s++)" % (cname, cname, hi, cname))

    def range_for(self, s):
        """`for (const auto& v : A) BODY` over a read-only array A in scope: the indexed loop `for (k = 0; k < A.size(); k++) { v = A[k]; BODY }`
        (base_array<T>::begin() / end() are those of `_vec`: PINNED in unit StepsArray; the body cannot change A)"""
        parts = s["inner"]
        if len(parts) != 8 or (parts[0] and parts[0].get("kind")):
            raise Unsupported("range-based for with an init-statement")
        rng, lv, body = parts[1], parts[6], parts[7]
        rd = rng["inner"][0] if rng.get("kind") == "DeclStmt" and len(rng.get("inner", [])) == 1 else {}
        a0 = unwrap(rd["inner"][0]) if rd.get("inner") else {}
        while a0.get("kind") == "ImplicitCastExpr" and a0.get("castKind") == "NoOp":
            a0 = unwrap(a0["inner"][0])
        an = a0.get("referencedDecl", {}).get("name") if a0.get("kind") == "DeclRefExpr" else None
        if an not in self.arrays or self.arrays[an][0] not in self.bound or a0["referencedDecl"].get("kind") != "ParmVarDecl":
            raise Unsupported("range-based for over something other than a read-only array parameter")
        aln, alt = self.arrays[an]
        for nm_, meth in ((2, "begin"), (3, "end")):
            d_ = parts[nm_]["inner"][0] if parts[nm_].get("kind") == "DeclStmt" else {}
            c_ = unwrap(d_["inner"][0]) if d_.get("inner") else {}
            if not (c_.get("kind") == "CXXMemberCallExpr" and unwrap(c_["inner"][0]).get("name") == meth and len(c_["inner"]) == 1):
                raise Unsupported("range-based for: the iterators are not `%s()` of the array" % meth)
        ld = lv["inner"][0] if lv.get("kind") == "DeclStmt" and len(lv.get("inner", [])) == 1 else {}
        elt = {"Array α": "α", "Array (Cx α)": "Cx α"}[alt]
        if lean_type_of(qt(ld)) != elt or "const" not in qt(ld):
            raise Unsupported("range-based for: loop variable `%s` : %s (expected a const element)" % (ld.get("name"), qt(ld)))
        deref = unwrap(ld["inner"][0]) if ld.get("inner") else {}
        if not (deref.get("kind") == "CXXOperatorCallExpr" and self.callee_name(deref) == "operator*" and len(deref["inner"]) == 2):
            raise Unsupported("range-based for: the loop variable is not `*it`")
        if has_exit(body):
            raise Unsupported("break / continue / return inside a range-based for")
        vv = self.var(ld["name"])
        cname = ld["name"] + "_idx"
        if vv in self.bound or self.var(cname) in self.bound:
            raise Unsupported("range-based for: loop variable `%s` shadows a name in scope" % ld["name"])
        self.prims.add("arrSize")
        hi = "(arrSize %s)" % aln
        pre = self.flush()
        self.types[vv] = elt
        bind = "let %s : %s := (ptrGet %s %s %s)\n" % (vv, elt, self.arr_default(alt), aln, self.var(cname))
        self.prims.add("ptrGet")
        return self._fold(cname, hi, set(), pre, body, bind, "for (const auto& %s : %s)" % (ld["name"], an), extra_bound=(vv,))

    def _fold(self, cname, hi, hi_members, pre, body, bind, what, extra_bound=()):
        saved_np, self.nonpreserving = self.nonpreserving, set()
        saved_writes, self.writes = self.writes, set()
        v = self.var(cname)
        if v in self.bound:
            raise Unsupported("inner loop counter `%s` shadows a variable in scope" % v)
        bound0 = set(self.bound)
        self.frames.append({"decl": {v}, "assigned": []})
        self.bound.add(v)
        self.types[v] = "Int"
        self.loop_vars.add(v)
        for eb in extra_bound:
            self.bound.add(eb)
            self.frames[-1]["decl"].add(eb)
        self.inner_depth += 1
        txt = self.stmts([body], JOIN)
        self.inner_depth -= 1
        self.loop_vars.discard(v)
        fr = self.frames.pop()
        self.bound = set(bound0)
        self.prune_locals()
        body_writes, self.writes = self.writes, saved_writes | self.writes
        vs = fr["assigned"]
        if not vs:
            raise Unsupported("inner loop without effect")
        # the bound is evaluated once here; C++ re-evaluates it: it must not depend on what the body assigns
        if hi_members & body_writes:
            raise Unsupported("inner loop bound `%s` reads member(s) %s, which the body assigns" % (hi, sorted(hi_members & body_writes)))
        for w in vs:
            if w not in bound0:
                raise Unsupported("`%s` is assigned in an inner loop but not defined before it" % w)
            if w not in ("s", "self") and re.search(r"(?<![A-Za-z0-9_'.])%s(?![A-Za-z0-9_'])" % re.escape(w), hi):
                # `i < y.size()` where the body only writes cells of `y` (its length cannot change) is fine
                rest_hi = hi.replace("(arrSize %s)" % w, "")
                if w in self.nonpreserving or re.search(r"(?<![A-Za-z0-9_'.])%s(?![A-Za-z0-9_'])" % re.escape(w), rest_hi):
                    raise Unsupported("inner loop bound `%s` depends on `%s`, which the body assigns" % (hi, w))
            self.note_assigned(w)
        self.nonpreserving |= saved_np
        nat = v + "_n"
        k = 0
        while nat in self.bound:
            k += 1
            nat = "%s_n%d" % (v, k)
        head = "let %s : Int := Int.ofNat %s\n" % (v, nat) + bind
        # the body becomes a definition of its own: parameters = the names in scope it mentions (not assigned), then the
        # accumulator (the assigned variables), then the counter
        tup = vs[0] if len(vs) == 1 else "(%s)" % ", ".join(vs)
        for w in vs:
            if w not in self.types:
                raise Unsupported("inner loop assigns `%s`, whose Lean type is unknown" % w)
        acc_t = self.types[vs[0]] if len(vs) == 1 else " × ".join(self.types[w] for w in vs)
        body_txt = head + txt.replace(JOIN, tup)
        mentions = lambda nm, t: re.search(r"(?<![A-Za-z0-9_'.])%s(?![A-Za-z0-9_'])" % re.escape(nm), t) is not None
        # parameter order = order of first occurrence in the body (independent of the C++ names: a renamed local
        # keeps its position), `eps` first
        cand = [nm for nm in sorted(set(bound0) | {"eps"}) if nm not in vs and mentions(nm, body_txt)]
        first = lambda nm: re.search(r"(?<![A-Za-z0-9_'.])%s(?![A-Za-z0-9_'])" % re.escape(nm), body_txt).start()
        if getattr(self, "loop_param_order", "occurrence") == "decl":
            # (constructors, free functions) order of DECLARATION in the translated function — independent of the order in which
            # the body mentions the names, so commuting two operands does not change the signature; names without a recorded
            # declaration (counters of enclosing loops): by first occurrence, last
            rank = lambda nm: self.decl_order.index(nm) if nm in self.decl_order else len(self.decl_order) + first(nm)
            free = sorted(cand, key=lambda nm: (nm != "eps", rank(nm)))
        else:
            free = sorted(cand, key=lambda nm: (nm != "eps", first(nm)))
        for nm in free:
            if nm not in self.types:
                raise Unsupported("inner loop body uses `%s`, whose Lean type is unknown" % nm)
        self.n_loops = getattr(self, "n_loops", 0) + 1
        lname = "%s_loop%d" % (self.name_hint, self.n_loops)
        if len(vs) == 1:
            accp, unpack_in = vs[0], ""
        else:
            accp = "acc"
            unpack_in = "".join("let %s := acc%s\n" % (w, ".2" * i + (".1" if i < len(vs) - 1 else "")) for i, w in enumerate(vs))
        self.aux_defs.append(
            "/-- one iteration of the inner loop no. %d (`%s`) on %s -/\n"
            "def %s %s (%s : %s) (%s : Nat) : %s :=\n%s\n" % (
                self.n_loops, what, ", ".join("`%s`" % w for w in vs),
                lname, " ".join("(%s : %s)" % (nm, self.types[nm]) for nm in free), accp, acc_t, nat, acc_t,
                indent(unpack_in + body_txt)))
        call = "(%s %s)" % (lname, " ".join(free)) if free else lname
        if len(vs) == 1:
            return pre + "let %s := ((List.range (Int.toNat %s)).foldl %s %s)\n" % (vs[0], hi, call, vs[0])
        j = "acc_%d" % self.fresh_join()
        unpack = "".join("let %s := %s%s\n" % (w, j, ".2" * i + (".1" if i < len(vs) - 1 else "")) for i, w in enumerate(vs))
        return pre + "let %s := ((List.range (Int.toNat %s)).foldl %s %s)\n" % (j, hi, call, tup) + unpack

    def is_void_literal(self, n):
        while n.get("kind") == "ParenExpr":
            n = n["inner"][0]
        return n.get("kind") in ("CXXStaticCastExpr", "CStyleCastExpr") and n.get("castKind") == "ToVoid" and \
            n["inner"][0].get("kind") == "IntegerLiteral"

    def slice_call(self, a):
        """`A.slice(i1, i2)` with the default stride -> (A node, i1 node, i2 node) or None"""
        while a.get("kind") in ("MaterializeTemporaryExpr", "CXXBindTemporaryExpr") or \
                (a.get("kind") == "ImplicitCastExpr" and a.get("castKind") == "NoOp"):
            a = a["inner"][0]
        if a.get("kind") != "CXXMemberCallExpr" or unwrap(a["inner"][0]).get("name") != "slice" or \
                not re.match(r"(const_)?slice_t<(double|cmplx_t)>$", canon_type(strip_type(qt(a)))):
            return None
        args = a["inner"][1:]
        if len(args) != 3 or args[2].get("kind") != "CXXDefaultArgExpr" or any(kind_of_type(qt(x)) != "int" for x in args[:2]):
            raise Unsupported("slice(…) with arguments other than (int, int) and the default stride")
        return unwrap(a["inner"][0])["inner"][0], args[0], args[1]

    def slice_rhs(self, n):
        """`base_array<T>(A.slice(i1, i2))` (implicit conversion of a stride-1 slice to an array) -> (A node, i1 node, i2 node) or None"""
        while n.get("kind") in ("MaterializeTemporaryExpr", "CXXBindTemporaryExpr", "ExprWithCleanups") or \
                (n.get("kind") == "ImplicitCastExpr" and n.get("castKind") in ("ConstructorConversion", "NoOp")):
            n = n["inner"][0]
        if n.get("kind") != "CXXConstructExpr" or not re.match(r"void \(const (const_)?slice_t<(double|cmplx_t)> &\)$",
                                                                canon_type(n.get("ctorType", {}).get("qualType", ""))):
            return None
        return self.slice_call(n["inner"][0])

    def has_fallible(self, n):
        """does the subtree contain a statement the translation gives an `Except` result (slice construction / conversion,
        call of a sub-object function that may throw)?"""
        def hit(x):
            if x.get("kind") == "CXXMemberCallExpr" and unwrap(x["inner"][0]).get("name") == "slice":
                return True
            if x.get("kind") == "CXXMemberCallExpr" and unwrap(x["inner"][0]).get("kind") == "MemberExpr":
                m = self.member_of_obj(unwrap(x["inner"][0])["inner"][0]) if unwrap(x["inner"][0]).get("inner") else None
                if m in self.subobjs and isinstance(self.subobjs[m]["ops"].get(unwrap(x["inner"][0])["name"]), dict):
                    return True
            if x.get("kind") == "CallExpr" and self.fallible_fns:
                try:
                    return self.callee_name(x) in self.fallible_fns
                except Unsupported:
                    return False
            return False
        return bool(find_all(n, hit))

    def fallible_ok(self, what):
        if self.frames or self.in_loop or not self.fallible:
            raise Unsupported("%s inside a branch / loop, or in a function not declared fallible" % what)

    def stmt_slice_to_slice(self, s, cont):
        """`D.slice(d1, d2) = S.slice(s1, s2);` — both slice constructors and the count check may throw"""
        self.fallible_ok("slice assignment")
        sig = canon_type(qt(unwrap(s["inner"][0])))
        if not re.match(r"slice_t<(double|cmplx_t)> &\(const (const_)?slice_t<(double|cmplx_t)> &\)$", sig):
            raise Unsupported("slice assignment through %s" % sig)
        dst, src = self.slice_call(s["inner"][1]), self.slice_call(s["inner"][2])
        if dst is None or src is None:
            raise Unsupported("slice assignment whose sides are not `A.slice(i1, i2)`")
        if canon_type(strip_type(qt(dst[0]))) != canon_type(strip_type(qt(src[0]))):
            raise Unsupported("slice assignment between %s and %s" % (qt(dst[0]), qt(src[0])))
        m = self.member_of_obj(dst[0])
        b = unwrap(dst[0])
        if m is not None and self.members.get(m, (0, ""))[1] in ("Array α", "Array (Cx α)"):
            tgt = ("member", m)
        elif b.get("kind") == "DeclRefExpr" and b["referencedDecl"].get("name") in self.local_arrays:
            tgt = ("local", b["referencedDecl"]["name"])
        else:
            raise Unsupported("slice assignment into %s" % b.get("kind"))
        srcv = self.array_value(src[0])
        if srcv == self.tgt_cur(tgt):
            raise Unsupported("slice assignment within one array")
        # C++17: the right operand of `=` is sequenced before the left one: the source slice is constructed first
        s1, s2 = self.e(src[1]), self.e(src[2])
        d1, d2 = self.e(dst[1]), self.e(dst[2])
        pre = self.flush()
        self.n_slices += 1
        v = "sl_%d" % self.n_slices
        self.bound.add(v)
        self.prims.add("arrSliceAssign")
        cur = self.tgt_cur(tgt)
        asg = self.tgt_set(tgt, v)
        return pre + "match (arrSliceAssign %s %s %s %s %s %s) with\n| .error err => (.error err)\n| .ok %s =>\n%s" % (
            cur, d1, d2, srcv, s1, s2, v, indent(asg + cont()))

    def stmt_slice_assign(self, s, cont):
        """`A = B.slice(i1, i2);` — the slice constructor may throw: the rest of the function continues in the `.ok` branch"""
        self.fallible_ok("slice conversion")
        lhs = s["inner"][1]
        tl = canon_type(strip_type(qt(lhs)))
        el = "double" if tl in ARRAY_REAL_T else ("cmplx_t" if tl in ARRAY_CX_T else None)
        sig = canon_type(qt(unwrap(s["inner"][0])))
        if el is None or sig != "base_array<%s> &(base_array<%s> &&) noexcept" % (el, el):
            raise Unsupported("assignment of a slice to %s (callee %s)" % (tl, sig))
        base, i1, i2 = self.slice_rhs(s["inner"][2])
        if canon_type(strip_type(qt(base))) != tl:
            raise Unsupported("slice of %s assigned to %s" % (qt(base), tl))
        src = self.array_value(base)
        a, b = self.e(i1), self.e(i2)
        pre = self.flush()
        self.n_slices += 1
        v = "sl_%d" % self.n_slices
        self.bound.add(v)
        self.prims.add("arrSlice")
        asg = self.assign(lhs, v, whole=True)
        return pre + "match (arrSlice %s %s %s) with\n| .error err => (.error err)\n| .ok %s =>\n%s" % (src, a, b, v, indent(asg + cont()))

    def stmt_proc(self, s):
        """`f(A.data(), B.data(), args…);` — a translated helper that works in place on the array whose first element its
        (single) pointer-to-non-const parameter is handed: that array becomes the function's result"""
        pr = self.procs[self.callee_name(s)]
        sig = canon_type(qt(unwrap(s["inner"][0])))
        if sig not in pr:
            raise Unsupported("call of %s with signature %s" % (self.callee_name(s), sig))
        pr = pr[sig]
        args = [a for a in s["inner"][1:] if a.get("kind") != "CXXDefaultArgExpr"]
        if len(args) != len(pr["kinds"]):
            raise Unsupported("call of %s with %d arguments" % (self.callee_name(s), len(args)))
        tgt, texts = None, []
        for a, (kd, lt) in zip(args, pr["kinds"]):
            if kd in ("ptr", "cptr"):
                t, off = self.ptr_into(a)
                if off != "(0 : Int)" or self.tgt_type(t) != lt:
                    raise Unsupported("call of %s: an array argument is not `A.data()` of an array of the expected type" % self.callee_name(s))
                if kd == "ptr":
                    if tgt is not None:
                        raise Unsupported("call of %s: two arrays written" % self.callee_name(s))
                    tgt = t
                texts.append((kd, t, self.tgt_cur(t)))
            else:
                if lean_type_of(qt(a)) != lt:
                    raise Unsupported("call of %s: argument of type %s" % (self.callee_name(s), qt(a)))
                texts.append(("val", None, self.e(a)))
        if tgt is None:
            raise Unsupported("call of %s without an array to work on" % self.callee_name(s))
        for kd, t, _ in texts:
            if kd == "cptr" and t == tgt:
                raise Unsupported("call of %s: the array written is also passed as a read-only (restrict) argument" % self.callee_name(s))
        return self.tgt_set(tgt, "(%s %s)" % (pr["lean"], " ".join(x[2] for x in texts)))

    def bounded_walk(self, s):
        """`while (A && v < E && B) ++v;` (or `--v` with `v > E`): a walk of the int local `v` that a conjunct of the condition
        bounds by an expression `E` the loop cannot change (the body only steps `v`).  At most `E - v` iterations can run, so the
        loop is the fuel-bounded recursion with that fuel: it stops because the condition fails, never because the fuel is used up."""
        parts = [c for c in s["inner"] if c.get("kind")]
        if s.get("hasVar") or len(parts) != 2:
            raise Unsupported("while with a condition variable")
        cond, body = parts
        bs = [c for c in (body.get("inner", []) if body.get("kind") == "CompoundStmt" else [body]) if c.get("kind") != "NullStmt"]
        if len(bs) == 1 and bs[0].get("kind") == "CompoundAssignOperator" and bs[0].get("opcode") in ("+=", "-=") and \
                unwrap(bs[0]["inner"][1]).get("kind") == "IntegerLiteral" and unwrap(bs[0]["inner"][1]).get("value") == "1":
            # `v += 1` / `v -= 1`: the same step as `++v` / `--v`
            bs = [{"kind": "UnaryOperator", "opcode": "++" if bs[0]["opcode"] == "+=" else "--", "inner": [bs[0]["inner"][0]]}]
        if not (len(bs) == 1 and bs[0].get("kind") == "UnaryOperator" and bs[0].get("opcode") in ("++", "--") and
                unwrap(bs[0]["inner"][0]).get("kind") == "DeclRefExpr" and canon_type(strip_type(qt(bs[0]["inner"][0]))) == "int" and
                unwrap(bs[0]["inner"][0])["referencedDecl"].get("kind") == "VarDecl"):
            raise Unsupported("while loop whose body is not a single `++v` / `--v` on an int local")
        up = bs[0]["opcode"] == "++"
        cname = unwrap(bs[0]["inner"][0])["referencedDecl"]["name"]
        v = self.var(cname)
        if v not in self.bound or v in self.uninit or v in self.loop_vars:
            raise Unsupported("while loop on `%s`, which is not an assigned local" % cname)
        isv = lambda n: unwrap(n).get("kind") == "DeclRefExpr" and unwrap(n)["referencedDecl"].get("name") == cname
        mentions_v = lambda n: bool(find_all(n, lambda x: x.get("kind") == "DeclRefExpr" and x.get("referencedDecl", {}).get("name") == cname))

        def conjuncts(n):
            n0 = n
            while n0.get("kind") == "ParenExpr":
                n0 = n0["inner"][0]
            if n0.get("kind") == "BinaryOperator" and n0.get("opcode") == "&&":
                return conjuncts(n0["inner"][0]) + conjuncts(n0["inner"][1])
            return [n0]
        bound = None
        for c in conjuncts(cond):
            if c.get("kind") != "BinaryOperator" or c.get("opcode") not in ("<", "<=", ">", ">="):
                continue
            l, r = c["inner"]
            if kind_of_type(qt(l)) != "int" or kind_of_type(qt(r)) != "int":
                continue
            op = c["opcode"]
            if isv(r) and not mentions_v(l):
                l, r, op = r, l, {"<": ">", "<=": ">=", ">": "<", ">=": "<="}[op]
            if not (isv(l) and not mentions_v(r)):
                continue
            if (up and op in ("<", "<=")) or (not up and op in (">", ">=")):
                bound = (op, r)
                break
        if bound is None:
            raise Unsupported("while loop: no conjunct of the condition bounds `%s` in the direction it moves" % cname)
        saved_reads, self.reads = self.reads, set()
        E = self.e(bound[1])
        ctext = self.e(cond)
        self.reads = saved_reads | self.reads
        if self.pre:
            raise Unsupported("state-changing call in a while condition")
        pre = ""
        op = bound[0]
        fuel = {"<": "(%s - %s)" % (E, v), "<=": "((%s - %s) + (1 : Int))" % (E, v),
                ">": "(%s - %s)" % (v, E), ">=": "((%s - %s) + (1 : Int))" % (v, E)}[op]
        mentions = lambda nm, t: re.search(r"(?<![A-Za-z0-9_'.])%s(?![A-Za-z0-9_'])" % re.escape(nm), t) is not None
        cand = [nm for nm in sorted(set(self.bound) | {"eps"}) if nm != v and mentions(nm, ctext)]
        first = lambda nm: re.search(r"(?<![A-Za-z0-9_'.])%s(?![A-Za-z0-9_'])" % re.escape(nm), ctext).start()
        # parameter order = order of declaration in the translated function (independent of the C++ names and of the order in
        # which the condition mentions them), `eps` first; names without a recorded declaration: by first occurrence, last
        rank = lambda nm: self.decl_order.index(nm) if nm in self.decl_order else len(self.decl_order) + first(nm)
        free = sorted(cand, key=lambda nm: (nm != "eps", rank(nm)))
        for nm in free:
            if nm not in self.types:
                raise Unsupported("while condition uses `%s`, whose Lean type is unknown" % nm)
        self.n_loops = getattr(self, "n_loops", 0) + 1
        lname = "%s_while%d" % (self.name_hint, self.n_loops)
        step = "(%s %s (1 : Int))" % (v, "+" if up else "-")
        self.aux_defs.append(
            "/-- the loop no. %d, `while (…) %s%s;`: a bounded walk — the condition contains `%s %s %s`, which the body cannot change,\n"
            "so with `fuel ≥ %s` on entry the recursion stops because the condition fails -/\n"
            "def %s %s : Nat → Int → Int\n  | 0, %s => %s\n  | fuel + 1, %s =>\n    if %s then %s %sfuel %s else %s\n" % (
                self.n_loops, "++" if up else "--", cname, cname, op, E, fuel,
                lname, " ".join("(%s : %s)" % (nm, self.types[nm]) for nm in free), v, v, v, ctext, lname,
                "".join(nm + " " for nm in free), step, v))
        self.note_assigned(v)
        return pre + "let %s := %s %s(Int.toNat %s) %s\n" % (v, lname, "".join(nm + " " for nm in free), fuel, v)

    def prune_locals(self):
        """array locals declared inside a block that has been left are out of scope"""
        for nm in [nm for nm, (v, _) in self.local_arrays.items() if v not in self.bound]:
            del self.local_arrays[nm]
            self.local_const.pop(nm, None)

    def flush_before(self, a):
        # hoisted lets of the right-hand side come first, then the assignment itself (which may carry its own
        # `let s := …` produced by set_member — those were appended to the text `a`, not to self.pre)
        return self.flush() + a

    _join = 0

    def fresh_join(self):
        self._join += 1
        return self._join


_pi_ok = []


def dsplib_pi_is_pi():
    """`constexpr real_t pi = 3.14159…` of include/dsplib/types.h must be the double nearest to π (it is `Fn.pi` in Lean)"""
    if not _pi_ok:
        import math
        docs = clang_ast("#include <dsplib/types.h>\n", "dsplib::pi")
        vs = [d for d in docs if d.get("kind") == "VarDecl" and d.get("name") == "pi"]
        ok = False
        if len(vs) == 1 and canon_type(qt(vs[0])) == "const real_t":
            lits = find_all(vs[0], lambda x: x.get("kind") == "FloatingLiteral")
            ok = len(lits) == 1 and float(lits[0]["value"]) == math.pi and \
                not find_all(vs[0], lambda x: x.get("kind") in ("BinaryOperator", "UnaryOperator", "CallExpr"))
        _pi_ok.append(ok)
    if not _pi_ok[0]:
        raise Unsupported("dsplib::pi is not the literal double nearest to π")
    return True


def check_members(rec, table, what):
    """the data members of `rec` must be exactly those of `table` (name -> canonical C++ type)"""
    got = {c["name"]: canon_type(qt(c)) for c in rec["inner"] if c.get("kind") == "FieldDecl"}
    for n, t in table.items():
        if n not in got:
            raise Unsupported("%s: member %s not found" % (what, n))
        if got[n] != t:
            raise Unsupported("%s: member %s has C++ type `%s`, the unit expects `%s`" % (what, n, got[n], t))
    for n in got:
        if n not in table:
            raise Unsupported("%s: unexpected new member %s : %s" % (what, n, got[n]))
    return [n for n in (c["name"] for c in rec["inner"] if c.get("kind") == "FieldDecl")]


def width_note(cxx):
    t = canon_type(strip_type(cxx))
    if t in INT_WIDTH:
        w, sg = INT_WIDTH[t]
        return " (%d-bit %s)" % (w, "signed" if sg else "unsigned")
    return ""


def struct_text(name, doc, fields, notes=None):
    """fields: list of (lean field, lean type, C++ decl text); notes: lean field -> remark appended to its doc comment"""
    notes = notes or {}
    if not fields:
        return "/-- %s (none) -/\nstructure %s (α : Type) where\n  mk ::\n" % (doc, name)
    return "/-- %s -/\nstructure %s (α : Type) where\n%s\n" % (
        doc, name, "\n".join("  /-- `%s`%s%s -/\n  %s : %s" % (c, width_note(c.rsplit(" ", 1)[0]), notes.get(f, ""), f, t)
                             for f, t, c in fields))


def loop_skeleton(fn, obj=None, out_decls=()):
    """`fn` must be: declarations; ONE canonical `for (int i = 0; i < n; ++i)` over the whole input array; return.
    Returns (loop variable, input parameter name, body node)."""
    arrs = [p for p in params_of(fn) if canon_type(strip_type(qt(p))) in ARRAY_REAL_T | ARRAY_CX_T]
    if len(arrs) != 1:
        raise Unsupported("%s: expected exactly one array parameter" % fn.get("name"))
    xin = arrs[0]["name"]
    stmts = [c for c in body_of(fn).get("inner", [])]
    fors = [c for c in stmts if c.get("kind") == "ForStmt"]
    if len(fors) != 1:
        raise Unsupported("%s: expected exactly one sample loop, found %d" % (fn.get("name"), len(fors)))
    f = fors[0]
    sizes = {}   # locals initialised with x.size()

    def is_size(n):
        n = unwrap(n)
        if n.get("kind") == "CXXMemberCallExpr" and len(n["inner"]) == 1:
            me = unwrap(n["inner"][0])
            b = unwrap(me["inner"][0])
            return me.get("name") == "size" and b.get("kind") == "DeclRefExpr" and b["referencedDecl"].get("name") == xin
        if n.get("kind") == "DeclRefExpr" and n["referencedDecl"].get("name") in sizes:
            return True
        if n.get("kind") == "ImplicitCastExpr" and n.get("castKind") == "IntegralCast":
            return is_size(n["inner"][0])
        return False

    touches_obj = lambda n: bool(find_all(n, lambda x: x.get("kind") == "CXXThisExpr" or (
        obj is not None and x.get("kind") == "DeclRefExpr" and x.get("referencedDecl", {}).get("name") == obj)))
    seen_for = False
    for c in stmts:
        k = c.get("kind")
        if c is f:
            seen_for = True
            continue
        if k == "DeclStmt" and not seen_for and all(d.get("kind") == "VarDecl" and d.get("name") in out_decls for d in c["inner"]):
            # `auto y = zeros(x.size());` — the output array: as long as the input, its initial contents are never read by the
            # loop body (a read of an output cell before it is written is refused)
            for d in c["inner"]:
                i0 = unwrap(d["inner"][0]) if d.get("inner") else {}
                while i0.get("kind") in ("CXXConstructExpr", "ImplicitCastExpr", "MaterializeTemporaryExpr", "CXXBindTemporaryExpr") and len(i0.get("inner", [])) == 1:
                    i0 = i0["inner"][0]
                if not (canon_type(strip_type(qt(d))) in ARRAY_REAL_T | ARRAY_CX_T and i0.get("kind") == "CallExpr" and
                        Tr().callee_name(i0) == "zeros" and len(i0["inner"]) == 2 and is_size(i0["inner"][1])):
                    raise Unsupported("%s: output array %s is not declared as `zeros(%s.size())`" % (fn.get("name"), d.get("name"), xin))
            continue
        if k == "DeclStmt" and not seen_for:
            if touches_obj(c):
                raise Unsupported("%s: a declaration outside the sample loop touches the object" % fn.get("name"))
            calls = find_all(c, lambda x: x.get("kind") in ("CallExpr", "CXXOperatorCallExpr", "CXXMemberCallExpr"))
            for d in c["inner"]:
                if d.get("kind") == "VarDecl" and d.get("inner") and is_size(d["inner"][0]) and "const" in qt(d):
                    sizes[d["name"]] = True
                    calls = [x for x in calls if not is_size(x)]
            if calls:
                raise Unsupported("%s: call in a declaration outside the sample loop" % fn.get("name"))
            continue
        if k == "ReturnStmt" and seen_for and c is stmts[-1]:
            if touches_obj(c) or find_all(c, lambda x: x.get("kind") in ("CallExpr", "CXXMemberCallExpr", "CXXOperatorCallExpr")):
                raise Unsupported("%s: the return statement computes" % fn.get("name"))
            continue
        raise Unsupported("%s: statement %s outside the sample loop" % (fn.get("name"), k))
    init, condvar, cond, inc, body = f["inner"]
    if condvar and condvar.get("kind"):
        raise Unsupported("loop condition variable")
    if not (init.get("kind") == "DeclStmt" and len(init["inner"]) == 1 and kind_of_type(qt(init["inner"][0])) == "int"
            and init["inner"][0].get("inner") and unwrap(init["inner"][0]["inner"][0]).get("kind") == "IntegerLiteral"
            and unwrap(init["inner"][0]["inner"][0])["value"] == "0"):
        raise Unsupported("%s: sample loop does not start with `int i = 0`" % fn.get("name"))
    var = init["inner"][0]["name"]
    isvar = lambda n: unwrap(n).get("kind") == "DeclRefExpr" and unwrap(n)["referencedDecl"].get("name") == var
    if not (cond.get("kind") == "BinaryOperator" and cond["opcode"] == "<" and isvar(cond["inner"][0]) and is_size(cond["inner"][1])):
        raise Unsupported("%s: sample loop condition is not `%s < %s.size()`" % (fn.get("name"), var, xin))
    if not (inc.get("kind") == "UnaryOperator" and inc["opcode"] == "++" and isvar(inc["inner"][0])):
        raise Unsupported("%s: sample loop increment is not `++%s`" % (fn.get("name"), var))
    return var, xin, body


def methods_named(rec, name, with_body=True):
    return [m for m in rec["inner"] if m.get("kind") == "CXXMethodDecl" and m.get("name") == name and
            (not with_body or any(c.get("kind") == "CompoundStmt" for c in m.get("inner", [])))]


def forwards_to(rec, name, target):
    """`T name(const T& x) { return this->target(x); }`"""
    ms = [m for m in methods_named(rec, name) if len(params_of(m)) == 1 and
          canon_type(strip_type(qt(params_of(m)[0]))) not in ARRAY_REAL_T | ARRAY_CX_T and "base_array" not in qt(params_of(m)[0])]
    if len(ms) != 1:
        raise Unsupported("%s(const T&) not found" % name)
    b = body_of(ms[0]).get("inner", [])
    if len(b) != 1 or b[0].get("kind") != "ReturnStmt":
        raise Unsupported("%s does not simply forward to %s" % (name, target))
    c = unwrap(b[0]["inner"][0])
    if c.get("kind") != "CXXMemberCallExpr" or unwrap(c["inner"][0]).get("name") != target or \
            unwrap(unwrap(c["inner"][0])["inner"][0]).get("kind") != "CXXThisExpr" or len(c["inner"]) != 2:
        raise Unsupported("%s does not simply forward to %s" % (name, target))
    a = unwrap(c["inner"][1])
    if not (a.get("kind") == "DeclRefExpr" and a["referencedDecl"].get("name") == params_of(ms[0])[0]["name"]):
        raise Unsupported("%s does not pass its argument to %s" % (name, target))


STEPS_HEAD = ("set_option linter.unusedVariables false\nnamespace Dsp\nnamespace Gen\n", SCALAR_VARS)


# ------------------------------------------------------------------------------------------
# unit: StepsBase  (array element access, dsplib::sum / max / min on scalars, abs2(cmplx_t))


def gen_steps_base():
    prefetch([("#include <dsplib/array.h>\n", "base_array::operator[]"), ('#include "math.cpp"\n', "dsplib::sum"),
              ("#include <dsplib/math.h>\n", "dsplib::max"), ("#include <dsplib/math.h>\n", "dsplib::min"),
              ("#include <dsplib/math.h>\n", "dsplib::abs2"), ("#include <dsplib/math.h>\n", "dsplib::conj")])
    out = [HEADER % "include/dsplib/array.h (base_array::operator[](int)), lib/math.cpp (sum(arr_real)), "
                    "include/dsplib/math.h (max / min of two scalars, abs2(cmplx_t))",
           "import DspVerif.Gen.Cmplx\n" + STEPS_HEAD[0], STEPS_HEAD[1]]
    # --- operator[](int): index resolution
    docs = clang_ast("#include <dsplib/array.h>\n", "base_array::operator[]")
    ops = [d for d in docs if d.get("kind") == "CXXMethodDecl" and d.get("name") == "operator[]" and
           len(params_of(d)) == 1 and kind_of_type(qt(params_of(d)[0])) == "int" and canon_type(qt(params_of(d)[0])) == "int"]
    if len(ops) != 2:
        raise Unsupported("base_array::operator[](int): expected the const and the non-const overload, found %d" % len(ops))
    texts = []
    for m in ops:
        b = [c for c in body_of(m).get("inner", [])]
        if not (len(b) in (2, 3) and b[0].get("kind") == "DeclStmt" and len(b[0]["inner"]) == 1 and b[-1].get("kind") == "ReturnStmt"):
            raise Unsupported("base_array::operator[](int): body shape")
        for mid in b[1:-1]:   # the assert (NDEBUG: `((void)0)`)
            if find_all(mid, lambda x: x.get("kind") in ("CallExpr", "CXXMemberCallExpr", "CXXOperatorCallExpr", "BinaryOperator",
                                                          "UnaryOperator", "CompoundAssignOperator")):
                raise Unsupported("base_array::operator[](int): statement with effect between index and return")
        idx = b[0]["inner"][0]
        ret = unwrap(b[-1]["inner"][0])
        if not (ret.get("kind") == "ArraySubscriptExpr" and unwrap(ret["inner"][0]).get("kind") == "MemberExpr" and
                unwrap(ret["inner"][0]).get("name") == "_vec" and unwrap(ret["inner"][1]).get("kind") == "DeclRefExpr" and
                unwrap(ret["inner"][1])["referencedDecl"].get("name") == idx["name"]):
            raise Unsupported("base_array::operator[](int): does not return _vec[%s]" % idx["name"])
        pn = params_of(m)[0]["name"]
        tr = Tr(user_calls={"size": lambda a, n: "size"}, renames={pn: "i"})
        tr.e_CXXOperatorCallExpr = lambda n, tr=tr: _dep_plus(tr, n)
        texts.append(tr.e([c for c in idx["inner"] if c.get("kind") != "FullComment"][0]))
    if texts[0] != texts[1]:
        raise Unsupported("base_array::operator[](int): const and non-const overloads resolve the index differently")
    out.append("/-- `base_array<T>::operator[](int i)` (both overloads): the position in `_vec` that index `i` denotes,\n"
               "`size` = `_vec.size()` -/\ndef arrIdx (size i : Int) : Int :=\n  %s\n" % texts[0])
    # T(0) for the two element types: real_t(0); cmplx_t() — the default arguments of the constructor
    docs = clang_ast("#include <dsplib/types.h>\n", "cmplx_t")
    crec = [d for d in docs if d.get("kind") == "CXXRecordDecl" and d.get("inner")][0]
    ctors = [c for c in crec["inner"] if c.get("kind") == "CXXConstructorDecl" and len(params_of(c)) == 2 and
             all(kind_of_type(qt(p_)) == "real" for p_ in params_of(c))]
    if len(ctors) != 1:
        raise Unsupported("cmplx_t(real_t, real_t) not found")
    dfl = []
    for p_ in params_of(ctors[0]):
        lits = find_all(p_, lambda x: x.get("kind") in ("IntegerLiteral", "FloatingLiteral"))
        if len(lits) != 1 or float(lits[0]["value"]) != 0.0:
            raise Unsupported("cmplx_t constructor: default argument of %s is not 0" % p_["name"])
    inits = [ci for ci in ctors[0]["inner"] if ci.get("kind") == "CXXCtorInitializer"]
    tgt = [(ci.get("anyInit", {}).get("name"), find_all(ci, lambda x: x.get("kind") == "DeclRefExpr")) for ci in inits]
    if [(t, [r["referencedDecl"]["name"] for r in rs]) for t, rs in tgt] != \
            [("re", [params_of(ctors[0])[0]["name"]]), ("im", [params_of(ctors[0])[1]["name"]])]:
        raise Unsupported("cmplx_t(real_t, real_t) does not initialise re, im from its arguments")
    out.append("/-- `real_t(0)`: a value-initialised element of an `arr_real` -/\ndef zeroR : α := (Fn.ofInt (0 : Int))\n")
    out.append("/-- `cmplx_t()` = `cmplx_t(0, 0)` (default arguments of the constructor): a value-initialised element of an `arr_cmplx` -/\n"
               "def zeroC : Cx α := (Cx.mk (Fn.ofInt (0 : Int)) (Fn.ofInt (0 : Int)))\n")
    out.append("/-- read `a[i]` through `base_array::operator[](int)`; outside `0 ≤ idx < size` the C++ is undefined\n"
               "(an `assert`), the value here is `dflt` -/\n"
               "def arrGet {β : Type} (dflt : β) (a : Array β) (i : Int) : β :=\n  a.getD (arrIdx (Int.ofNat a.size) i).toNat dflt\n")
    out.append("/-- write `a[i] = v` through `base_array::operator[](int)` -/\n"
               "def arrSet {β : Type} (a : Array β) (i : Int) (v : β) : Array β :=\n  a.setIfInBounds (arrIdx (Int.ofNat a.size) i).toNat v\n")
    # --- sum(const arr_real&)
    docs = clang_ast('#include "math.cpp"\n', "dsplib::sum")
    fs = [d for d in docs if d.get("kind") == "FunctionDecl" and d.get("name") == "sum" and len(params_of(d)) == 1 and
          canon_type(strip_type(qt(params_of(d)[0]))) in ARRAY_REAL_T and any(c.get("kind") == "CompoundStmt" for c in d.get("inner", []))]
    if len(fs) != 1:
        raise Unsupported("sum(const arr_real&) not found")
    b = body_of(fs[0]).get("inner", [])
    an = params_of(fs[0])[0]["name"]
    ok = len(b) == 1 and b[0].get("kind") == "ReturnStmt"
    if ok:
        c = unwrap(b[0]["inner"][0])
        ok = c.get("kind") == "CallExpr" and Tr().callee_name(c) == "accumulate" and len(c["inner"]) == 4
    if ok:
        for a, nm in ((c["inner"][1], "begin"), (c["inner"][2], "end")):
            a = unwrap(a)
            ok = ok and a.get("kind") == "CXXMemberCallExpr" and unwrap(a["inner"][0]).get("name") == nm and \
                unwrap(unwrap(a["inner"][0])["inner"][0]).get("kind") == "DeclRefExpr" and \
                unwrap(unwrap(a["inner"][0])["inner"][0])["referencedDecl"].get("name") == an
    if not ok:
        raise Unsupported("sum(const arr_real&) is not `return std::accumulate(arr.begin(), arr.end(), init)`")
    if kind_of_type(qt(c["inner"][3])) != "real":
        raise Unsupported("sum(const arr_real&): the accumulator is not real_t")
    init = Tr().e(c["inner"][3])
    out.append("/-- `sum(const arr_real&)` of lib/math.cpp: `std::accumulate(begin, end, init)` = left fold with `+` -/\n"
               "def sumR (arr : Array α) : α :=\n  arr.foldl (fun acc v => acc + v) %s\n" % init)
    # --- max / min of two scalars (templates; the bodies are dependent, translated structurally)
    for name in ("max", "min"):
        docs = clang_ast("#include <dsplib/math.h>\n", "dsplib::" + name)
        ts = [d for d in docs if d.get("kind") == "FunctionTemplateDecl" and d.get("name") == name]
        ts = [t for t in ts for f in [[c for c in t["inner"] if c.get("kind") == "FunctionDecl"][0]] if len(params_of(f)) == 2]
        if len(ts) != 1:
            raise Unsupported("template %s(const T1&, const T2&) not found" % name)
        f = [c for c in ts[0]["inner"] if c.get("kind") == "FunctionDecl"][0]
        if canon_type(qt(f)) != "auto (const T1 &, const T2 &) -> decltype(v1 + v2)":
            raise Unsupported("template %s: signature %s" % (name, qt(f)))
        body = Tr().stmts([body_of(f)], "?", False)
        ps = [p["name"] for p in params_of(f)]
        out.append("/-- `dsplib::%s(const T1& v1, const T2& v2)` of include/dsplib/math.h at `T1 = T2 = real_t` -/\n"
                   "def %sRR (%s : α) : α :=\n%s\n" % (name, name, " ".join(ps), indent(body)))
    # --- abs2(const cmplx_t&)
    docs = clang_ast("#include <dsplib/math.h>\n", "dsplib::abs2")
    fs = [d for d in docs if d.get("kind") == "FunctionDecl" and d.get("name") == "abs2" and len(params_of(d)) == 1 and
          kind_of_type(qt(params_of(d)[0])) == "cx" and any(c.get("kind") == "CompoundStmt" for c in d.get("inner", []))]
    if len(fs) != 1:
        raise Unsupported("abs2(const cmplx_t&) not found")
    out.append("/-- `abs2(const cmplx_t&)` of include/dsplib/math.h -/\ndef abs2c (%s : Cx α) : α :=\n%s\n" % (
        params_of(fs[0])[0]["name"], indent(Tr().stmts([body_of(fs[0])], "?", False))))
    # --- conj(real_t), conj(cmplx_t)
    docs = clang_ast("#include <dsplib/math.h>\n", "dsplib::conj")
    for kind, lname, lt in (("real", "conjr", "α"), ("cx", "conjc", "Cx α")):
        fs = [d for d in docs if d.get("kind") == "FunctionDecl" and d.get("name") == "conj" and len(params_of(d)) == 1 and
              kind_of_type(qt(params_of(d)[0])) == kind and any(c.get("kind") == "CompoundStmt" for c in d.get("inner", []))]
        if len(fs) != 1:
            raise Unsupported("conj(%s) not found" % kind)
        out.append("/-- `conj(%s)` of include/dsplib/math.h -/\ndef %s (%s : %s) : %s :=\n%s\n" % (
            "real_t" if kind == "real" else "cmplx_t", lname, params_of(fs[0])[0]["name"], lt, lt,
            indent(Tr().stmts([body_of(fs[0])], "?", False))))
    out.append("end Gen\nend Dsp\n")
    return "\n".join(out)


def _dep_plus(tr, n):
    """`_vec.size() + i` inside the class template (dependent operator+)"""
    cal = find_all(n["inner"][0], lambda x: x.get("kind") in ("DeclRefExpr", "UnresolvedLookupExpr"))
    nm = (cal[0].get("name") or cal[0].get("referencedDecl", {}).get("name")) if cal else None
    if nm == "operator+" and len(n["inner"]) == 3:
        return "(%s + %s)" % (tr.e(n["inner"][1]), tr.e(n["inner"][2]))
    raise Unsupported("dependent operator %s" % nm)


# signatures by which a call of `max` / `min` is recognised as the dsplib scalar template at real_t
DSPLIB_MINMAX_SIG = "auto (const double &, const double &) -> decltype(v1 + v2)"


def steps_user_calls():
    def callee_sig(n):
        return canon_type(qt(unwrap(n["inner"][0])))

    def mm(name):
        def h(a, n):
            if callee_sig(n) == DSPLIB_MINMAX_SIG and len(a) == 2:
                return "(%sRR %s %s)" % (name, a[0], a[1])
            raise Unsupported("call of %s with signature %s" % (name, callee_sig(n)))
        return h

    def abs2(a, n):
        sig = callee_sig(n)
        if re.match(r"real_t \(const (real_t|double) &\)", sig):
            return "(abs2r %s)" % a[0]
        if re.match(r"real_t \(const cmplx_t &\)", sig):
            return "(abs2c %s)" % a[0]
        raise Unsupported("call of abs2 with signature %s" % sig)

    def conj(a, n):
        sig = callee_sig(n)
        if sig == "real_t (real_t)":
            return "(conjr %s)" % a[0]
        if sig == "cmplx_t (cmplx_t)":
            return "(conjc %s)" % a[0]
        raise Unsupported("call of conj with signature %s" % sig)

    def sum_(a, n):
        if callee_sig(n) == "real_t (const arr_real &)":
            return "(sumR %s)" % a[0]
        raise Unsupported("call of sum with signature %s" % callee_sig(n))

    def one_real(lean):
        def h(a, n):
            if callee_sig(n) == "real_t (real_t)":
                return "(%s %s)" % (lean, a[0])
            raise Unsupported("call of %s with signature %s" % (lean, callee_sig(n)))
        return h

    def dot(a, n):
        sig = callee_sig(n)
        if sig == "real_t (const arr_real &, const arr_real &)" and len(a) == 2:
            return "(dotRR %s %s)" % (a[0], a[1])
        if sig == "cmplx_t (const arr_cmplx &, const arr_cmplx &)" and len(a) == 2:
            return "(dotCC %s %s)" % (a[0], a[1])
        raise Unsupported("call of dot with signature %s" % sig)

    def zeros(a, n):
        if callee_sig(n) == "arr_real (int)" and len(a) == 1:
            return "(arrNew zeroR %s)" % a[0]        # zeros(int) (PINNED in unit StepsArray)
        raise Unsupported("call of zeros with signature %s" % callee_sig(n))

    return {"max": mm("max"), "min": mm("min"), "abs2": abs2, "sum": sum_, "conj": conj, "db2mag": one_real("db2mag"), "dot": dot, "zeros": zeros,
            "mag2db": one_real("mag2db"), "pow2db": one_real("pow2db"), "db2pow": one_real("db2pow")}


class EpsCall:
    """`eps()` is a parameter `eps : α` of every generated function that uses it (as in Gen/Dynamics)"""

    def __init__(self):
        self.used = False

    def __call__(self, a, n):
        if a:
            raise Unsupported("eps(v) with an argument")
        self.used = True
        return "eps"


def gen_processor(cls, rec, lean, table, entry, outputs, methods_spec, obj=None, subobjs=None, subobj_types=None,
                  cxx_name=None, scratch=None, procs=None):
    """one stateful processor: Params / State structures, helper member functions, step function(s).

    rec          : CXXRecordDecl holding the data members
    table        : member name -> canonical C++ type (CHECKED)
    entry        : list of (FunctionDecl / CXXMethodDecl with the sample loop, lean name suffix, sample lean type, out types)
    methods_spec : member function name -> ("translate",) | ("extern", callable(tr, args) -> str, [members read])
    """
    cxx_name = cxx_name or cls
    order = check_members(rec, table, cxx_name)
    members = {}
    for m in order:
        lt = lean_type_of(table[m], subobj_types)
        if lt is None:
            raise Unsupported("%s::%s: C++ type %s has no Lean counterpart" % (cls, m, table[m]))
        members[m] = (m.lstrip("_").rstrip("_"), lt, "%s %s" % (table[m], m))
    # loop-carried locals: arrays declared in front of the sample loop (`base_array<T> g(_n);`).  They keep their contents
    # from one iteration to the next, exactly like members during one call: they become fields of the State structure
    # (no guess about "rewritten before read"), and `<lean>Enter` gives the values their declarations leave them with.
    scratch = scratch or {}
    order = list(order)
    notes = {}
    for nm, sc in scratch.items():
        lt = lean_type_of(sc["cxx"])
        if lt not in ("Array α", "Array (Cx α)"):
            raise Unsupported("%s: loop-carried local %s : %s" % (cls, nm, sc["cxx"]))
        if nm in members or nm in [v[0] for v in members.values()] or nm in LEAN_KEYWORDS:
            raise Unsupported("%s: loop-carried local %s is named like a member" % (cls, nm))
        members[nm] = (nm, lt, "%s %s" % (canon_type(sc["cxx"]), nm))
        notes[nm] = " — a LOCAL of `%s`, declared in front of the sample loop (loop-carried)" % sc.get("fn", "process")
        order.append(nm)
    scratch_ids = {nm: sc["id"] for nm, sc in scratch.items()}
    P, S = "%sStepParams" % cls, "%sStepState" % cls

    def translate_all(state):
        """returns (texts, reads, writes, uses_eps)"""
        reads, writes = set(), set()
        texts = []
        eps = EpsCall()
        calls = steps_user_calls()
        calls["eps"] = eps
        mtab = {}
        # helper member functions first (callees), in the order of the spec
        for mname, spec in methods_spec.items():
            if spec[0] == "extern":
                def ext(tr, args, spec=spec):
                    for f in spec[2]:
                        tr.mref(f)
                    return spec[1](tr, args)
                mtab[mname] = {"extern": ext}
                continue
            ms = methods_named(rec, mname)
            if len(ms) != 1:
                raise Unsupported("%s::%s not found (or overloaded)" % (cls, mname))
            m = ms[0]
            # a first pass decides whether the function writes the state
            probe = StepTr(obj=None, members=members, state=state, methods=mtab, subobjs=subobjs, user_calls=calls, effect=True)
            for p_ in params_of(m):
                probe.declare(probe.var(p_["name"]))
            probe.stmts([body_of(m)], FALLOFF)
            effect = bool(probe.writes)
            tr = StepTr(obj=None, members=members, state=state, methods=mtab, subobjs=subobjs, user_calls=calls, effect=effect)
            tr.types.update({"p": "%s α" % P, "s": "%s α" % S})
            tr.name_hint = "%s%s" % (lean, "".join(w.capitalize() for w in mname.strip("_").split("_")))
            ps = []
            for p_ in params_of(m):
                lt = lean_type_of(qt(p_))
                if lt not in ("α", "Int", "Cx α"):
                    raise Unsupported("%s::%s parameter %s : %s" % (cls, mname, p_["name"], qt(p_)))
                tr.declare(tr.var(p_["name"]), lt)
                ps.append("(%s : %s)" % (tr.var(p_["name"]), lt))
            rt = lean_type_of(m["type"]["qualType"].split("(")[0])
            void = m["type"]["qualType"].split("(")[0].strip() == "void"
            if rt not in ("α", "Int", "Cx α") and not void:
                raise Unsupported("%s::%s returns %s" % (cls, mname, m["type"]["qualType"]))
            body = tr.stmts([body_of(m)], "s" if (void and effect) else FALLOFF)
            if FALLOFF in body:
                raise Unsupported("%s::%s: control can reach the end without a return" % (cls, mname))
            reads |= tr.reads
            writes |= tr.writes
            reads_state = any(x in state for x in tr.reads)
            lname = "%s%s" % (lean, "".join(w.capitalize() for w in mname.strip("_").split("_")))
            ret = ("%s α" % S if void else "%s α × %s" % (S, rt)) if effect else rt
            sarg = " (s : %s α)" % S if (effect or reads_state) else ""
            texts.append(("method", mname, lname, "(p : %s α)%s %s" % (P, sarg, " ".join(ps)), ret, body, tr))
            mtab[mname] = {"lean": lname + (" eps" if False else ""), "effect": effect, "reads": sorted(tr.reads),
                           "writes": sorted(tr.writes), "reads_state": reads_state, "tr": tr}
        for ent in entry:
            fn, suffix, sample_t, out_ts = ent[:4]
            opts = ent[4] if len(ent) > 4 else {}
            if opts.get("indexed"):
                var, body = opts["var"], opts["body"]
                cells = {o: "%s_%s" % (o, var) for o in outputs}
                ctypes = {cells[o]: t for o, t in zip(outputs, out_ts)}
                zero = {"α": "zeroR", "Cx α": "zeroC"}
                tr = StepTr(obj=obj, members=members, state=state, methods=mtab, subobjs=subobjs, user_calls=calls, effect=True,
                            scratch=scratch_ids,
                            loop={"var": var, "input": None, "sample": None, "outputs": cells, "cell_types": ctypes,
                                  "indexed": True, "arrays": opts["arrays"],
                                  "cell_init": {c: zero[ctypes[c]] for c in cells.values()}})
                tr.types.update({"p": "%s α" % P, "s": "%s α" % S})
                tr.name_hint = "%sStep%s" % (lean, suffix)
                names = set(d["name"] for d in find_all(body, lambda x: x.get("kind") == "VarDecl"))
                if names & (set(cells.values()) | {a[0] for a in opts["arrays"].values()} | {var}):
                    raise Unsupported("a local of the loop body is named like a generated cell / array / the index")
                res = "(s, %s)" % ", ".join(cells[o] for o in outputs)
                text = "".join("let %s : %s := %s\n" % (c, ctypes[c], zero[ctypes[c]]) for c in cells.values()) + tr.stmts([body], res)
                reads |= tr.reads
                writes |= tr.writes
                texts.append(("iloop", fn, suffix, (opts, out_ts, var), None, text, tr))
                continue
            var, xin, body = loop_skeleton(fn, obj, out_decls=opts.get("out_decls", ()))
            cells = {o: "%s_%s" % (o, var) for o in outputs}
            sample = "%s_%s" % (xin, var)
            tr = StepTr(obj=obj, members=members, state=state, methods=mtab, subobjs=subobjs, user_calls=calls, effect=True,
                        loop={"var": var, "input": xin, "sample": sample, "outputs": cells,
                              "cell_types": {cells[o]: t for o, t in zip(outputs, out_ts)}})
            tr.procs = dict(procs or {})
            tr.types.update({"p": "%s α" % P, "s": "%s α" % S, sample: sample_t})
            tr.name_hint = "%sStep%s" % (lean, suffix)
            tr.bound.add(sample)
            names = set(d["name"] for d in find_all(body, lambda x: x.get("kind") == "VarDecl"))
            if names & (set(cells.values()) | {sample}):
                raise Unsupported("a local of the loop body is named like a generated cell")
            res = "(s, %s)" % ", ".join(cells[o] for o in outputs)
            text = tr.stmts([body], res)
            if sorted(tr.cells_written) != sorted(cells.values()):
                raise Unsupported("%s: the loop body writes the output cells %s, expected %s" % (
                    fn.get("name"), sorted(tr.cells_written), sorted(cells.values())))
            reads |= tr.reads
            writes |= tr.writes
            texts.append(("loop", fn, suffix, (sample, sample_t, out_ts, xin, var), None, text, tr))
        return texts, reads, writes, eps

    texts, reads, writes, eps = translate_all(set(members))        # pass 1: everything in the state, to find the writes
    state = set(writes)
    texts, reads2, writes2, eps = translate_all(state)             # pass 2: the real split
    if writes2 != writes:
        raise Unsupported("%s: unstable state split" % cls)
    enter_text, enter_reads = None, set()
    if scratch:
        for nm in scratch:
            if nm not in state:
                raise Unsupported("%s: loop-carried local %s is never written in the loop" % (cls, nm))
        itr = StepTr(obj=obj, members=members, state=state, user_calls=steps_user_calls(), effect=False)
        sets = []
        for nm, sc in scratch.items():
            if kind_of_type(qt(sc["init"])) != "int":
                raise Unsupported("%s: size argument of %s is not an int" % (cls, nm))
            n_ = itr.e(sc["init"])
            if itr.pre:
                raise Unsupported("%s: declaration of %s has an effect" % (cls, nm))
            sets.append("%s := (arrNew %s %s)" % (nm, "zeroR" if members[nm][1] == "Array α" else "zeroC", n_))
        if (itr.reads | itr.writes) & set(scratch):
            raise Unsupported("%s: a declaration reads a loop-carried local" % cls)
        enter_reads = set(itr.reads)
        enter_text = ("/-- the loop-carried locals as their declarations in front of the sample loop leave them:\n%s -/\n"
                   "def %sEnter (p : %s α) (s : %s α) : %s α :=\n  { s with %s }\n" % (
                       "\n".join("`%s %s(%s)`" % (canon_type(sc["cxx"]), nm, sc.get("src", "…")) for nm, sc in scratch.items()),
                       lean, P, S, S, ", ".join(sets)))
    used = reads2 | writes2 | enter_reads
    out = []
    out.append(struct_text(P, "members of `%s` that the per-sample code only reads (C++ declarations CHECKED against the translator's table)" % cxx_name,
                           [members[m] for m in order if m in used and m not in state]))
    out.append(struct_text(S, "members of `%s` that the per-sample code writes%s" % (
        cxx_name, " (and the loop-carried locals of the function)" if scratch else ""), [members[m] for m in order if m in state], notes))
    unused = [m for m in order if m not in used]
    eps_arg = " (eps : α)" if eps.used else ""
    if enter_text:
        out.append(enter_text)
    for kind, a, b, c, d, body, tr in texts:
        for aux in tr.aux_defs:
            out.append(aux if not eps.used else aux)
        if kind == "method":
            # callers pass `eps` along when the unit uses it anywhere (uniform signatures)
            out.append("/-- `%s::%s(%s)`%s -/\ndef %s%s %s : %s :=\n%s\n" % (
                cxx_name, a, ", ".join(qt(p_) for p_ in params_of(methods_named(rec, a)[0])),
                ": members after the call and the value returned" if tr.effect else "", b, eps_arg, c, d, indent(body)))
        elif kind == "iloop":
            opts, out_ts, var = c
            fn = a
            arrs = " ".join("(%s : %s)" % (ln, lt) for ln, lt in opts["arrays"].values())
            out.append("/-- loop body of `%s::%s` for the sample index `%s` (an `int`); %s;\n"
                       "the output cells %s start at `T(0)`; result = (members written, %s).\n%s -/\n"
                       "def %sStep%s%s (p : %s α) (s : %s α) %s (%s : Int) : %s α × %s :=\n%s\n" % (
                           cxx_name, fn["name"], var, opts.get("doc", ""),
                           ", ".join("`%s[%s]`" % (o, var) for o in outputs), ", ".join("`%s[%s]`" % (o, var) for o in outputs),
                           opts.get("pin_doc", ""), lean, b, eps_arg, P, S, arrs, var, S, " × ".join(out_ts), indent(body)))
        else:
            sample, sample_t, out_ts, xin, var = c
            fn = a
            out.append("/-- loop body of `%s(%s)`: `%s` = `%s[%s]`; result = (members written, %s) -/\n"
                       "def %sStep%s%s (p : %s α) (s : %s α) (%s : %s) : %s α × %s :=\n%s\n" % (
                           (cls + "::" if obj is None else "") + fn["name"], ", ".join(qt(p_) for p_ in params_of(fn)),
                           sample, xin, var, ", ".join("`%s[%s]`" % (o, var) for o in outputs),
                           lean, b, eps_arg, P, S, sample, sample_t, S, " × ".join(out_ts), indent(body)))
    return out, eps.used, unused


def fix_method_calls(text, names, eps_used):
    """insert the `eps` argument in calls of the unit's own helper functions"""
    if not eps_used:
        return text
    for n in names:
        text = re.sub(r"(?<![A-Za-z0-9_])%s p " % re.escape(n), "%s eps p " % n, text)
    return text


# ------------------------------------------------------------------------------------------
# unit: StepsArray  (array primitives the stateful loops use: construction, size, memmove / fill on an array, array / scalar,
#                    whole-array assignment; `dot` of lib/math.cpp)
#
# The primitives are small Lean definitions written HERE with the index arithmetic explicit; the C++ they stand for
# (members of base_array<T> that only forward to std::vector, the scalar operator templates) is PINNED: the AST digest of each
# such declaration is compared with the value recorded below, any change makes GEN fail.  `dot` is translated.

ARR_TU = "#include <dsplib/array.h>\n"

# what (filter, predicate description) -> digests, in declaration order
ARRAY_PINS = {
    # T* data() noexcept { return _vec.data(); }   and the const overload
    "data": ['6182bb7d09b72049', '6b755eb5ae8af9fa'],
    # int size() const noexcept { return int(_vec.size()); }
    "size": ['78586b8d026a153c'],
    # iterator begin() noexcept { return _vec.begin(); }  / const;   end() likewise
    "begin": ['98198eb6ed4c1da4', '3b32e463e194df48'],
    "end": ['5b279e6861a6fb51', '433b4529c7d75c5d'],
    # operator=(const base_array<T>& rhs) { if (this == &rhs) return *this; _vec = rhs._vec; return *this; }
    # operator=(base_array<T>&& rhs) noexcept { if (this == &rhs) return *this; _vec.swap(rhs._vec); return *this; }
    "operator=": ['88bbd0e6a44e24ea', '52e88ec43679e71f'],
    # template<class T2, class R = ResultType<T, T2>> base_array<R> operator/(const T2& rhs) const
    #   { auto temp = array_cast<R>(*this); temp /= rhs; return temp; }
    "operator/(scalar)": ['b195a0b26427ec35'],
    # … base_array<R>& operator/=(const T2& rhs) noexcept { static_assert(is_same<T, R>); for (size_t i = 0; i < _vec.size(); ++i) _vec[i] /= rhs; return *this; }
    "operator/=(scalar)": ['c9873c99cd9a0539'],
    # array_cast<T_dst>(const base_array<T_src>& src): `return src;` when T_src == T_dst (the only case the primitives use)
    "array_cast": ['9cdd6dd48a6f5033'],
    # explicit base_array(int n) : _vec(n, 0) {}
    "base_array(int)": ['120383027f293a1e'],
    # template<typename T, class S_ = is_arithmetic<T>::type> constexpr cmplx_t(const T& v) : re{static_cast<real_t>(v)} {}   with   real_t im{0};
    "cmplx_t(const T&)": ['dcc116b87cb6a73e'],
    "cmplx_t::im": ['58a7d7541148e7a8'],
    # template<class T2, class R = ResultType<T, T2>> base_array<R> operator|(const base_array<T2>& rhs) const { auto temp = array_cast<R>(*this); temp |= rhs; return temp; }
    "operator|(array)": ['8474fad68874c163'],
    # … base_array<R>& operator|=(const base_array<T2>& rhs) { _vec.insert(_vec.end(), rhs.begin(), rhs.end()); return *this; }
    "operator|=(array)": ['5863ef964f59facf'],
    # base_array(const base_array<T>& v) : _vec(v._vec) {}    base_array(base_array<T>&& v) noexcept : _vec(std::move(v._vec)) {}
    "base_array(copy/move)": ['3d04e970146fffd4', 'caf1c3d8dd5271c4'],
    # inline arr_real zeros(int n) { arr_real r(n); return r; }    (translated calls: `arrNew zeroR n`)
    "zeros(int)": ['c0d5217cfd56d463'],
}


def _report_pins(name, got):
    if os.environ.get("VERIF_REPORT_PINS"):
        sys.stderr.write("PINS %s = %r\n" % (name, got))


def pinned(tu, filt, pred, key, table, what):
    """digests of the declarations selected by `pred` in the AST dump for `filt` must equal table[key]"""
    ds = [d for d in clang_ast(tu, filt) if pred(d)]
    got = [ast_digest(d) for d in ds]
    _report_pins(key, got)
    if got != table.get(key) and os.environ.get("VERIF_REPORT_PINS") != "collect":
        raise Unsupported("%s differs from the pinned form (digests now %s)" % (what, got))
    return ds


def split_guards(stmts):
    """leading `if (c) { throw …; }` statements (DSPLIB_ASSERT / DSPLIB_THROW) -> ([condition nodes], remaining statements)"""
    conds = []
    i = 0
    while i < len(stmts):
        st = stmts[i]
        if st.get("kind") == "NullStmt":
            i += 1
            continue
        if st.get("kind") == "IfStmt" and len(st["inner"]) == 2 and not st.get("hasInit") and not st.get("hasVar"):
            then = st["inner"][1]
            body = [c for c in (then.get("inner", []) if then.get("kind") == "CompoundStmt" else [then]) if c.get("kind") != "NullStmt"]
            if len(body) == 1 and unwrap(body[0]).get("kind") == "CXXThrowExpr":
                conds.append(st["inner"][0])
                i += 1
                continue
        break
    rest = stmts[i:]
    if find_all({"inner": rest}, lambda x: x.get("kind") == "CXXThrowExpr"):
        raise Unsupported("throw after the leading guards")
    return conds, rest


def gen_steps_array():
    has_body = lambda d: any(c.get("kind") == "CompoundStmt" for c in d.get("inner", []))
    prefetch([(ARR_TU, f) for f in ("base_array::data", "base_array::size", "base_array::operator=", "base_array::operator/", "base_array::operator|",
                                    "base_array::base_array", "dsplib::array_cast", "base_array::begin", "base_array::end")] +
             [("#include <dsplib/types.h>\n", "cmplx_t::cmplx_t"), ("#include <dsplib/types.h>\n", "cmplx_t::im"), ('#include "math.cpp"\n', "dsplib::dot"),
              ("#include <dsplib/utils.h>\n", "dsplib::zeros")])
    out = [HEADER % "include/dsplib/array.h (base_array<T>: `base_array(int)`, copy / move construction, `size`, `data`, `begin`, `end`, `operator=`, "
                    "`operator/(scalar)`, `operator|` — PINNED), include/dsplib/types.h (`cmplx_t(const T&)` — PINNED), lib/math.cpp (`dot`, translated)",
           "import DspVerif.Gen.StepsBase\n" + STEPS_HEAD[0], STEPS_HEAD[1]]
    meth = lambda nm: (lambda d: d.get("kind") == "CXXMethodDecl" and d.get("name") == nm and has_body(d))
    pinned(ARR_TU, "base_array::data", meth("data"), "data", ARRAY_PINS, "base_array<T>::data()")
    pinned(ARR_TU, "base_array::size", meth("size"), "size", ARRAY_PINS, "base_array<T>::size()")
    pinned(ARR_TU, "base_array::begin", meth("begin"), "begin", ARRAY_PINS, "base_array<T>::begin()")
    pinned(ARR_TU, "base_array::end", meth("end"), "end", ARRAY_PINS, "base_array<T>::end()")
    pinned(ARR_TU, "base_array::operator=", meth("operator="), "operator=", ARRAY_PINS, "base_array<T>::operator= (copy, move)")
    scalar_or_array_tmpl = lambda nm: (lambda d: d.get("kind") == "FunctionTemplateDecl" and d.get("name") == nm and
                                       [canon_type(qt(p_)) for f in d["inner"] if f.get("kind") == "CXXMethodDecl" for p_ in params_of(f)][:1] == ["const base_array<T2> &"])
    scalar_tmpl = lambda nm: (lambda d: d.get("kind") == "FunctionTemplateDecl" and d.get("name") == nm and
                              [canon_type(qt(p_)) for f in d["inner"] if f.get("kind") == "CXXMethodDecl" for p_ in params_of(f)][:1] == ["const T2 &"])
    pinned(ARR_TU, "base_array::operator/", scalar_tmpl("operator/"), "operator/(scalar)", ARRAY_PINS, "base_array<T>::operator/(const T2&)")
    pinned(ARR_TU, "base_array::operator/", scalar_tmpl("operator/="), "operator/=(scalar)", ARRAY_PINS, "base_array<T>::operator/=(const T2&)")
    pinned(ARR_TU, "dsplib::array_cast", lambda d: d.get("kind") == "FunctionTemplateDecl" and d.get("name") == "array_cast",
           "array_cast", ARRAY_PINS, "array_cast<T_dst>(const base_array<T_src>&)")
    pinned(ARR_TU, "base_array::base_array", lambda d: d.get("kind") == "CXXConstructorDecl" and has_body(d) and
           [canon_type(qt(p_)) for p_ in params_of(d)] == ["int"], "base_array(int)", ARRAY_PINS, "base_array<T>::base_array(int)")
    pinned("#include <dsplib/types.h>\n", "cmplx_t::cmplx_t", lambda d: d.get("kind") == "FunctionTemplateDecl" and
           [canon_type(qt(p_)) for f in d["inner"] if f.get("kind") == "CXXConstructorDecl" for p_ in params_of(f)][:1] == ["const T &"],
           "cmplx_t(const T&)", ARRAY_PINS, "cmplx_t::cmplx_t(const T&) (scalar -> cmplx_t)")
    pinned("#include <dsplib/types.h>\n", "cmplx_t::im", lambda d: d.get("kind") == "FieldDecl" and d.get("name") == "im",
           "cmplx_t::im", ARRAY_PINS, "`real_t im{0};` of cmplx_t")
    out.append(
        "/-- `base_array<T>::size()`: `int(_vec.size())` (PINNED) -/\n"
        "def arrSize {β : Type} (a : Array β) : Int := Int.ofNat a.size\n")
    out.append(
        "/-- `explicit base_array(int n) : _vec(n, 0)` (PINNED): `n` elements `T(0)`.  (A negative `n` converts to a huge `size_t`:\n"
        "`std::vector` throws; here the empty array.) -/\n"
        "def arrNew {β : Type} (zero : β) (n : Int) : Array β := Array.replicate n.toNat zero\n")
    out.append(
        "/-- `std::memmove(a.data() + dst, a.data() + src, cnt * sizeof(T))` inside ONE array (`data()` = `_vec.data()`, PINNED):\n"
        "cell `i` with `dst ≤ i < dst + cnt` receives the OLD cell `i - dst + src` (memmove copies as if through a temporary),\n"
        "every other cell is unchanged.  C++ is undefined when one of the two ranges leaves the array or `cnt < 0` (the byte count\n"
        "wraps to a huge `size_t`); here a negative count moves nothing and a source cell outside the array leaves the target unchanged. -/\n"
        "def arrMove {β : Type} (a : Array β) (dst src cnt : Int) : Array β :=\n"
        "  Array.ofFn (n := a.size) fun i =>\n"
        "    if dst ≤ Int.ofNat i.val ∧ Int.ofNat i.val < dst + cnt then a.getD (Int.ofNat i.val - dst + src).toNat a[i] else a[i]\n")
    out.append(
        "/-- `std::memcpy(dst.data() + d, src.data() + s, cnt * sizeof(T))` between two DIFFERENT arrays: cell `i` of `dst` with\n"
        "`d ≤ i < d + cnt` receives cell `i - d + s` of `src`, every other cell is unchanged.  C++ is undefined when a range leaves its\n"
        "array or `cnt < 0`; here a negative count copies nothing and a source cell outside `src` leaves the target unchanged. -/\n"
        "def arrCopy {β : Type} (dst : Array β) (d : Int) (src : Array β) (s cnt : Int) : Array β :=\n"
        "  Array.ofFn (n := dst.size) fun i =>\n"
        "    if d ≤ Int.ofNat i.val ∧ Int.ofNat i.val < d + cnt then src.getD (Int.ofNat i.val - d + s).toNat dst[i] else dst[i]\n")
    out.append(
        "/-- `std::fill(a.begin(), a.end(), v)` (`begin()` / `end()` = those of `_vec`, PINNED): every cell becomes `v`, the size is kept -/\n"
        "def arrFill {β : Type} (a : Array β) (v : β) : Array β := Array.replicate a.size v\n")
    out.append(
        "/-- `arr_real / real_t`: `base_array<T>::operator/(const T2&)` = `array_cast` copy, then `operator/=`: `_vec[i] /= rhs` for every `i`\n"
        "(all three PINNED) -/\n"
        "def arrDivRR (a : Array α) (d : α) : Array α := a.map fun v => v / d\n")
    out.append(
        "/-- `arr_cmplx / cmplx_t`: as `arrDivRR`; `_vec[i] /= rhs` is `cmplx_t::operator/=(const cmplx_t&)` (regenerated: `Cx.divAssign`) -/\n"
        "def arrDivCC (a : Array (Cx α)) (d : Cx α) : Array (Cx α) := a.map fun v => Cx.divAssign v d\n")
    pinned(ARR_TU, "base_array::operator|", scalar_or_array_tmpl("operator|"), "operator|(array)", ARRAY_PINS, "base_array<T>::operator|(const base_array<T2>&)")
    pinned(ARR_TU, "base_array::operator|", scalar_or_array_tmpl("operator|="), "operator|=(array)", ARRAY_PINS, "base_array<T>::operator|=(const base_array<T2>&)")
    pinned(ARR_TU, "base_array::base_array", lambda d: d.get("kind") == "CXXConstructorDecl" and has_body(d) and
           [canon_type(qt(p_)) for p_ in params_of(d)] in (["const base_array<T> &"], ["base_array<T> &&"]), "base_array(copy/move)", ARRAY_PINS,
           "base_array<T>::base_array(const base_array<T>&) / (base_array<T>&&)")
    pinned("#include <dsplib/utils.h>\n", "dsplib::zeros", lambda d: d.get("kind") == "FunctionDecl" and d.get("name") == "zeros" and has_body(d) and
           canon_type(qt(d)) == "arr_real (int)", "zeros(int)", ARRAY_PINS, "zeros(int) of include/dsplib/utils.h")
    out.append(
        "/-- `a | b` (concatenation): `base_array<T>::operator|` = `array_cast` copy of `a`, then `operator|=`:\n"
        "`_vec.insert(_vec.end(), rhs.begin(), rhs.end())` (PINNED) -/\n"
        "def arrConcat {β : Type} (a b : Array β) : Array β := a ++ b\n")
    out.append(
        "/-- `x[i]` on a raw pointer `x` to the first element of the array `a` (no index resolution: a negative or too large `i` is\n"
        "undefined in C++; here the value is then `dflt`) -/\n"
        "def ptrGet {β : Type} (dflt : β) (a : Array β) (i : Int) : β := if 0 ≤ i then a.getD i.toNat dflt else dflt\n")
    out.append(
        "/-- `x[i] = v` on a raw pointer `x` to the first element of the array `a` (outside the array: undefined in C++; here no write) -/\n"
        "def ptrSet {β : Type} (a : Array β) (i : Int) (v : β) : Array β := if 0 ≤ i then a.setIfInBounds i.toNat v else a\n")
    # --- dot(const arr_real&, const arr_real&), dot(const arr_cmplx&, const arr_cmplx&)
    docs = clang_ast('#include "math.cpp"\n', "dsplib::dot")
    for arrs, lname, elt, arr_lt in ((ARRAY_REAL_T, "dotRR", "α", "Array α"), (ARRAY_CX_T, "dotCC", "Cx α", "Array (Cx α)")):
        fs = [d for d in docs if d.get("kind") == "FunctionDecl" and d.get("name") == "dot" and len(params_of(d)) == 2 and
              all(canon_type(strip_type(qt(p_))) in arrs and "const" in qt(p_) for p_ in params_of(d)) and has_body(d)]
        if len(fs) != 1:
            raise Unsupported("dot(const %s&, const %s&) not found" % (sorted(arrs)[0], sorted(arrs)[0]))
        f = fs[0]
        if lean_type_of(f["type"]["qualType"].split("(")[0]) != elt:
            raise Unsupported("dot returns %s" % f["type"]["qualType"])
        conds, rest = split_guards(list(body_of(f).get("inner", [])))
        names = [p_["name"] for p_ in params_of(f)]

        def mk():
            tr = StepTr(members={}, single=True, user_calls=steps_user_calls(), effect=False)
            tr.bound = set()
            for nm in names:
                tr.arrays[nm] = (tr.var(nm), arr_lt)
                tr.bound.add(tr.var(nm))
                tr.types[tr.var(nm)] = arr_lt
            tr.name_hint = lname
            return tr
        tr = mk()
        sig = " ".join("(%s : %s)" % (tr.var(nm), arr_lt) for nm in names)
        if conds:
            ctexts = [mk().e(c) for c in conds]
            out.append("/-- `%s`: the call THROWS (DSPLIB_ASSERT / DSPLIB_THROW in front of the computation) exactly when this holds -/\n"
                       "def %sThrows %s : Prop :=\n  %s\n" % (qt(f), lname, sig, " ∨ ".join(ctexts)))
        body = tr.stmts(rest, FALLOFF)
        if FALLOFF in body:
            raise Unsupported("dot: control can reach the end without a return")
        if tr.pre or tr.writes:
            raise Unsupported("dot: unexpected effect")
        out += tr.aux_defs
        out.append("/-- `%s` of lib/math.cpp: the value returned when the call does not throw%s -/\n"
                   "def %s %s : %s :=\n%s\n" % (qt(f), " (see `%sThrows`)" % lname if conds else "", lname, sig, elt, indent(body)))
    out.append("end Gen\nend Dsp\n")
    return "\n".join(out)


# ------------------------------------------------------------------------------------------
# unit: StepsDyn  (sample loops of Compressor, Limiter, NoiseGate, Agc; MAFilter<real_t>::process)

DYN_TU = "#include <dsplib.h>\n"


def gen_steps_dyn():
    prefetch([(DYN_TU, "Compressor"), (DYN_TU, "Limiter"), (DYN_TU, "NoiseGate")] +
             [('#include "agc.cpp"\n', f) for f in ("MAFilter", "AgcImpl", "dsplib::_process", "dsplib::Agc", "Agc::process")])
    out = [HEADER % "include/dsplib/audio/compressor.h, limiter.h, noise-gate.h (loop bodies of `process`, `_smooth_gain`), "
                    "lib/agc.cpp (loop body of `_process`, real and complex), lib/ma-filter.h (`MAFilter<real_t>::process(const T&)`)",
           "import DspVerif.Gen.Dynamics\nimport DspVerif.Gen.StepsBase\n" + STEPS_HEAD[0], STEPS_HEAD[1]]

    def gain_extern(lname, fields):
        def f(tr, args):
            tr.user_calls["eps"]([], None)
            return "(%s eps { %s } %s)" % (lname, ", ".join("%s := %s" % (lf, tr.mref(cf)) for cf, lf in fields), args[0])
        return f

    for cls, lean, table, mspec in (
        ("Compressor", "compressor",
         {"T_": "const real_t", "R_": "const int", "W_": "const real_t", "wA_": "real_t", "wR_": "real_t", "gs_": "real_t"},
         {"_compute_gain": ("extern", gain_extern("compressorGain", [("T_", "T"), ("R_", "R"), ("W_", "W")]), ["T_", "R_", "W_"])}),
        ("Limiter", "limiter",
         {"T_": "const real_t", "W_": "const real_t", "wA_": "const real_t", "wR_": "const real_t", "gs_": "real_t"},
         {"_compute_gain": ("extern", gain_extern("limiterGain", [("T_", "T"), ("W_", "W")]), ["T_", "W_"])}),
        ("NoiseGate", "noiseGate",
         {"tlin_": "const real_t", "wA_": "const real_t", "wR_": "const real_t", "tH_": "const int", "cA_": "int", "lg_": "real_t"},
         {"_smooth_gain": ("translate",)}),
    ):
        rec = record(clang_ast(DYN_TU, cls), cls)
        ms = [m for m in methods_named(rec, "process") if len(params_of(m)) == 1]
        if len(ms) != 1:
            raise Unsupported("%s::process(const arr_real&) not found" % cls)
        if canon_type(strip_type(qt(params_of(ms[0])[0]))) not in ARRAY_REAL_T:
            raise Unsupported("%s::process takes %s" % (cls, qt(params_of(ms[0])[0])))
        texts, eps_used, unused = gen_processor(cls, rec, lean, table, [(ms[0], "", "α", ["α", "α"])], ["gain", "out"], mspec)
        names = [lean + "".join(w.capitalize() for w in k.strip("_").split("_")) for k, v in mspec.items() if v[0] == "translate"]
        out += [fix_method_calls(t, names, eps_used) for t in texts]

    # --- MAFilter<real_t>::process(const T&): every data member in ONE structure (it is a sub-object of AgcImpl)
    docs = clang_ast('#include "agc.cpp"\n', "MAFilter")
    tmpl = [d for d in docs if d.get("kind") == "ClassTemplateDecl" and d.get("name") == "MAFilter"]
    if len(tmpl) != 1:
        raise Unsupported("class template MAFilter not found")
    specs = [c for c in tmpl[0]["inner"] if c.get("kind") == "ClassTemplateSpecializationDecl" and
             [canon_type(qt(a)) for a in c.get("inner", []) if a.get("kind") == "TemplateArgument"] == ["double"] and
             any(x.get("kind") == "FieldDecl" for x in c.get("inner", []))]
    if len(specs) != 1:
        raise Unsupported("instantiation MAFilter<double> not found")
    rec = specs[0]
    table = {"_buf": "base_array<double>", "_n": "int", "_pos": "int", "_accum": "double"}
    order = check_members(rec, table, "MAFilter<real_t>")
    members = {m: (m.lstrip("_"), lean_type_of(table[m]), "%s %s" % (table[m], m)) for m in order}
    ms = [m for m in methods_named(rec, "process") if len(params_of(m)) == 1 and kind_of_type(qt(params_of(m)[0])) == "real"]
    if len(ms) != 1:
        raise Unsupported("MAFilter<real_t>::process(const real_t&) not found")
    forwards_to(rec, "operator()", "process")
    tr = StepTr(members=members, single=True, user_calls=steps_user_calls(), effect=True)
    pn = tr.var(params_of(ms[0])[0]["name"])
    tr.declare(pn)
    body = tr.stmts([body_of(ms[0])], FALLOFF)
    if FALLOFF in body:
        raise Unsupported("MAFilter::process: control can reach the end without a return")
    out.append(struct_text("MAFilterState", "data members of `MAFilter<real_t>` (lib/ma-filter.h; C++ declarations CHECKED)",
                           [members[m] for m in order]))
    out.append("/-- `MAFilter<real_t>::process(const real_t& %s)` (also `operator()(const real_t&)`, which forwards to it):\n"
               "new members and the returned average -/\n"
               "def maFilterStep (self : MAFilterState α) (%s : α) : MAFilterState α × α :=\n%s\n" % (pn, pn, indent(body)))

    # --- Agc: `_process<T>(AgcImpl&, const base_array<T>&)`, T = real_t and T = cmplx_t
    rec = record(clang_ast('#include "agc.cpp"\n', "AgcImpl"), "AgcImpl")
    table = {"trise": "real_t", "tfall": "real_t", "max_gain": "real_t", "target": "real_t", "gain": "real_t", "maflt": "MAFilterR"}
    docs = clang_ast('#include "agc.cpp"\n', "dsplib::_process")
    tmpl = [d for d in docs if d.get("kind") == "FunctionTemplateDecl" and d.get("name") == "_process"]
    if len(tmpl) != 1:
        raise Unsupported("function template _process (lib/agc.cpp) not found")
    inst = {}
    for f in [c for c in tmpl[0]["inner"] if c.get("kind") == "FunctionDecl"]:
        ta = [canon_type(qt(a)) for a in f.get("inner", []) if a.get("kind") == "TemplateArgument"]
        if ta in (["double"], ["cmplx_t"]) and any(c.get("kind") == "CompoundStmt" for c in f.get("inner", [])):
            inst[ta[0]] = f
    if sorted(inst) != ["cmplx_t", "double"]:
        raise Unsupported("_process: instantiations found %s, expected real_t and cmplx_t" % sorted(inst))
    for f in inst.values():
        ps = params_of(f)
        if not (len(ps) == 2 and canon_type(strip_type(qt(ps[0]))) == "AgcImpl" and "&" in qt(ps[0]) and "const" not in qt(ps[0])):
            raise Unsupported("_process: first parameter is not `AgcImpl&`")
    # which entry points use which instantiation: Agc::process(arr_real) / (arr_cmplx) must forward to _process(*_d, x)
    texts, eps_used, unused = gen_processor(
        "Agc", rec, "agc", table,
        [(inst["double"], "R", "α", ["α", "α"]), (inst["cmplx_t"], "C", "Cx α", ["α", "Cx α"])], ["gain", "out"], {},
        obj=params_of(inst["double"])[0]["name"],
        subobjs={"maflt": {"ops": {"operator()": "maFilterStep", "process": "maFilterStep"}}},
        subobj_types={"MAFilterR": "MAFilterState α"}, cxx_name="AgcImpl")
    # the two public entry points hand the whole input to `_process(*_d, x)`
    arec = record(clang_ast('#include "agc.cpp"\n', "dsplib::Agc"), "Agc")
    docs = clang_ast('#include "agc.cpp"\n', "Agc::process")
    seen = set()
    for d in docs:
        if d.get("kind") != "CXXMethodDecl" or d.get("name") != "process" or not any(c.get("kind") == "CompoundStmt" for c in d.get("inner", [])):
            continue
        ps = params_of(d)
        b = body_of(d).get("inner", [])
        okf = len(ps) == 1 and len(b) == 1 and b[0].get("kind") == "ReturnStmt"
        if okf:
            calls = find_all(b[0], lambda x: x.get("kind") == "CallExpr")
            okf = len(calls) == 1 and Tr().callee_name(calls[0]) == "_process" and len(calls[0]["inner"]) == 3
        if okf:
            a0, a1 = calls[0]["inner"][1], unwrap(calls[0]["inner"][2])
            okf = a1.get("kind") == "DeclRefExpr" and a1["referencedDecl"].get("name") == ps[0]["name"] and \
                [m.get("name") for m in find_all(a0, lambda x: x.get("kind") == "MemberExpr")] == ["_d"] and \
                not find_all(a0, lambda x: x.get("kind") in ("CallExpr", "CXXMemberCallExpr")) and \
                len(find_all(b[0], lambda x: x.get("kind") in ("CXXOperatorCallExpr", "BinaryOperator", "UnaryOperator"))) == 1
        if not okf:
            raise Unsupported("Agc::process(%s) is not `return _process(*_d, x)`" % (qt(ps[0]) if ps else ""))
        seen.add(canon_type(strip_type(qt(ps[0]))))
    if seen != {"arr_real", "arr_cmplx"}:
        raise Unsupported("Agc::process overloads found: %s" % sorted(seen))
    if params_of(inst["double"])[0]["name"] != params_of(inst["cmplx_t"])[0]["name"]:
        raise Unsupported("_process: parameter names differ between instantiations")
    out += texts
    out.append("end Gen\nend Dsp\n")
    return "\n".join(out)


# ------------------------------------------------------------------------------------------
# unit: StepsTuner  (sample loop of Tuner::process)


def gen_steps_tuner():
    tu = "#include <dsplib/tuner.h>\n"
    prefetch([(tu, "Tuner"), ("#include <dsplib/types.h>\n", "dsplib::pi")])
    out = [HEADER % "include/dsplib/tuner.h (loop body of `Tuner::process`), include/dsplib/types.h (`pi`)",
           "import DspVerif.Gen.StepsBase\n" + STEPS_HEAD[0], STEPS_HEAD[1]]
    rec = record(clang_ast(tu, "Tuner"), "Tuner")
    # the sample counter must be 64 bit wide: with `int` it wraps after 2^31 samples (seeded change C14-D)
    table = TUNER_TABLE
    ms = [m for m in methods_named(rec, "process") if len(params_of(m)) == 1]
    if len(ms) != 1 or canon_type(strip_type(qt(params_of(ms[0])[0]))) not in ARRAY_CX_T:
        raise Unsupported("Tuner::process(const arr_cmplx&) not found")
    texts, eps_used, unused = gen_processor("Tuner", rec, "tuner", table, [(ms[0], "", "Cx α", ["Cx α"])], ["r"], {})
    out += texts
    out.append("end Gen\nend Dsp\n")
    return "\n".join(out)


# ------------------------------------------------------------------------------------------
# unit: StepsAdaptive  (sample loop of LmsFilter<T>::process, T = real_t and cmplx_t)

LMS_TU = ("#include <dsplib/lms.h>\ntemplate class dsplib::LmsFilter<dsplib::real_t>;\n"
          "template class dsplib::LmsFilter<dsplib::cmplx_t>;\n")

# digests (ast_digest) of the statements of LmsFilter<T>::process OUTSIDE the sample loop, in order:
#   if (x.size() != d.size()) DSPLIB_THROW(...); int nx = x.size(); base_array<T> y(nx); base_array<T> e(nx);
#   base_array<T> tu = _u | x; arr_real tu2 = (_method == LmsType::NLMS) ? abs2(tu) : arr_real{};
#   _u = tu.slice(nx, nx + _len - 1);   [loop]   return {y, e};
# They are not translated (array concatenation / slicing / element-wise abs2 are modelled by hand in Model/Adaptive.lean
# and tied by the correspondence run); any change of them is an alarm.
LMS_PINS = {
    "double": ['baf4ee6a526324e2', '964e01685aa94f01', '277c1ce5296e41c4', '834479466c9a344b', '7d6ac3987c611cfc',
               'eda88ff4431490e8', 'a2dfcf504233af64', '3231d15f952a087c'],
    "cmplx_t": ['ee21b281e5836f80', '2a43f828d72d61a3', 'cf513eeeb74429ba', 'a951799ab7db94b3', '24c752d72ba1ad8d',
                '1ede173890d598c8', 'd4740aceb4142430', 'cc345f73ab54439e'],
}


def indexed_loop(fn, size_of, pins, what):
    """`fn` body = pinned statements + ONE loop `for (int k = 0; k < nx; k++)` with `int nx = <size_of>.size()`.
    Returns (loop variable, body, digests)."""
    stmts = [c for c in body_of(fn).get("inner", [])]
    fors = [c for c in stmts if c.get("kind") == "ForStmt"]
    if len(fors) != 1:
        raise Unsupported("%s: expected exactly one sample loop at top level, found %d" % (what, len(fors)))
    f = fors[0]
    digs = [ast_digest(c) for c in stmts if c is not f]
    if pins is not None and digs != pins:
        raise Unsupported("%s: the statements outside the sample loop differ from the pinned form (digests %s)" % (what, digs))
    sizes = set()
    for c in stmts:
        if c.get("kind") == "DeclStmt":
            for d in c["inner"]:
                if d.get("kind") == "VarDecl" and kind_of_type(qt(d)) == "int" and d.get("inner"):
                    i0 = unwrap(d["inner"][0])
                    if i0.get("kind") == "CXXMemberCallExpr" and unwrap(i0["inner"][0]).get("name") == "size" and \
                            unwrap(unwrap(i0["inner"][0])["inner"][0]).get("kind") == "DeclRefExpr" and \
                            unwrap(unwrap(i0["inner"][0])["inner"][0])["referencedDecl"].get("name") == size_of:
                        sizes.add(d["name"])
    init, condvar, cond, inc, body = f["inner"]
    if condvar and condvar.get("kind"):
        raise Unsupported("loop condition variable")
    if not (init.get("kind") == "DeclStmt" and len(init["inner"]) == 1 and canon_type(qt(init["inner"][0])) == "int"
            and init["inner"][0].get("inner") and unwrap(init["inner"][0]["inner"][0]).get("kind") == "IntegerLiteral"
            and unwrap(init["inner"][0]["inner"][0])["value"] == "0"):
        raise Unsupported("%s: sample loop does not start with `int k = 0`" % what)
    var = init["inner"][0]["name"]
    isvar = lambda n: unwrap(n).get("kind") == "DeclRefExpr" and unwrap(n)["referencedDecl"].get("name") == var
    hi = unwrap(cond["inner"][1]) if cond.get("kind") == "BinaryOperator" else {}
    if not (cond.get("kind") == "BinaryOperator" and cond["opcode"] == "<" and isvar(cond["inner"][0]) and
            hi.get("kind") == "DeclRefExpr" and hi["referencedDecl"].get("name") in sizes):
        raise Unsupported("%s: sample loop condition is not `%s < %s.size()`" % (what, var, size_of))
    if not (inc.get("kind") == "UnaryOperator" and inc["opcode"] == "++" and isvar(inc["inner"][0])):
        raise Unsupported("%s: sample loop increment is not `++%s`" % (what, var))
    # the size local must not be assigned anywhere (it is not const in lms.h)
    for asg in find_all(body_of(fn), lambda x: x.get("kind") in ("BinaryOperator", "CompoundAssignOperator", "UnaryOperator") and
                        (x.get("opcode") in ("=", "++", "--") or x.get("kind") == "CompoundAssignOperator")):
        t = unwrap(asg["inner"][0])
        if t.get("kind") == "DeclRefExpr" and t["referencedDecl"].get("name") in sizes:
            raise Unsupported("%s: the size local %s is modified" % (what, t["referencedDecl"]["name"]))
    return var, body, digs


def gen_steps_adaptive(report_pins=None):
    prefetch([(LMS_TU, "LmsFilter"), (LMS_TU, "LmsType")])
    out = [HEADER % ("include/dsplib/lms.h (loop body of `LmsFilter<T>::process`, T = real_t and cmplx_t; `enum class LmsType`), "
                     "include/dsplib/rls.h (loop body of `RlsFilter<T>::process`, T = real_t and cmplx_t)"),
           "import DspVerif.Gen.StepsArray\n" + STEPS_HEAD[0], STEPS_HEAD[1]]
    vals = load_enum(LMS_TU, "LmsType")
    out.append("/-! `enum class LmsType` (members of that type are `Int`s holding the enumerator value) -/\n" +
               "\n".join("def LmsType_%s : Int := %d" % (k, v) for k, v in vals.items()) + "\n")
    docs = clang_ast(LMS_TU, "LmsFilter")
    specs = {}
    for d in docs:
        if d.get("kind") == "ClassTemplateSpecializationDecl" and d.get("name") == "LmsFilter" and \
                any(x.get("kind") == "FieldDecl" for x in d.get("inner", [])):
            ta = [canon_type(qt(a)) for a in d.get("inner", []) if a.get("kind") == "TemplateArgument"]
            if len(ta) == 1:
                specs[ta[0]] = d
    if sorted(specs) != ["cmplx_t", "double"]:
        raise Unsupported("LmsFilter instantiations found: %s" % sorted(specs))
    for targ, suffix, elt, arr in (("double", "R", "α", "Array α"), ("cmplx_t", "C", "Cx α", "Array (Cx α)")):
        rec = specs[targ]
        cxx = "LmsFilter<%s>" % ("real_t" if targ == "double" else "cmplx_t")
        table = {"_u": "base_array<%s>" % targ, "_w": "base_array<%s>" % targ, "_mu": "real_t", "_len": "int",
                 "_locked": "bool", "_method": "LmsType", "_lk": "real_t"}
        ms = [m for m in methods_named(rec, "process") if len(params_of(m)) == 2]
        if len(ms) != 1:
            raise Unsupported("%s::process(x, d) not found" % cxx)
        fn = ms[0]
        ps = params_of(fn)
        for p_ in ps:
            if canon_type(strip_type(qt(p_))) != "base_array<%s>" % targ:
                raise Unsupported("%s::process parameter %s : %s" % (cxx, p_["name"], qt(p_)))
        var, body, digs = indexed_loop(fn, ps[0]["name"], LMS_PINS[targ], cxx + "::process")
        if report_pins is not None:
            report_pins[targ] = digs
        # arrays the loop body may read: the second parameter and the two working buffers declared before the loop
        arrays = {ps[1]["name"]: (ps[1]["name"], arr)}
        for c in body_of(fn)["inner"]:
            if c.get("kind") == "DeclStmt":
                for d in c["inner"]:
                    t = canon_type(strip_type(qt(d)))
                    if d.get("kind") == "VarDecl" and d["name"] in ("tu", "tu2"):
                        lt = "Array α" if t in ARRAY_REAL_T else ("Array (Cx α)" if t in ARRAY_CX_T else None)
                        if lt is None:
                            raise Unsupported("%s: working buffer %s : %s" % (cxx, d["name"], qt(d)))
                        arrays[d["name"]] = (d["name"], lt)
        if sorted(arrays) != sorted([ps[1]["name"], "tu", "tu2"]):
            raise Unsupported("%s: working buffers tu / tu2 not found" % cxx)
        for o in ("y", "e"):
            ok = False
            for c in body_of(fn)["inner"]:
                if c.get("kind") == "DeclStmt":
                    for d in c["inner"]:
                        if d.get("kind") == "VarDecl" and d["name"] == o and canon_type(strip_type(qt(d))) == "base_array<%s>" % targ:
                            ce = unwrap(d["inner"][0]) if d.get("inner") else {}
                            ok = ce.get("kind") == "CXXConstructExpr" and len(ce.get("inner", [])) == 1 and \
                                kind_of_type(qt(ce["inner"][0])) == "int"
            if not ok:
                raise Unsupported("%s: output array %s is not declared as a zero-filled `base_array<T> %s(nx)`" % (cxx, o, o))
        texts, eps_used, unused = gen_processor(
            "LmsFilter" + suffix, rec, "lms" + suffix, table,
            [(fn, "", elt, [elt, elt], {"indexed": True, "var": var, "body": body, "arrays": arrays,
                                        "doc": "`tu` = `_u | x`, `tu2` = `abs2(tu)` for NLMS (else empty), `%s` = the desired signal" % ps[1]["name"],
                                        "pin_doc": "The statements of `process` outside this loop are PINNED by an AST digest in tools/cxx2lean.py (not translated)."})],
            ["y", "e"], {}, cxx_name=cxx)
        out += texts
    out += gen_rls(report_pins)
    out.append("end Gen\nend Dsp\n")
    return "\n".join(out)


# --- RlsFilter<T>::process (include/dsplib/rls.h), T = real_t and cmplx_t

RLS_TU = ("#include <dsplib.h>\ntemplate class dsplib::RlsFilter<dsplib::real_t>;\n"
          "template class dsplib::RlsFilter<dsplib::cmplx_t>;\n")

# digests of the statements of RlsFilter<T>::process OUTSIDE the sample loop, in order:
#   if (x.size() != d.size()) DSPLIB_THROW(...); const int nx = x.size(); base_array<T> y(nx); base_array<T> e(nx);
#   base_array<T> g(_n); base_array<T> Pu(_n); base_array<T> uTP(_n); base_array<T> guP(_n * _n);   [loop]   return {y, e};
# The four working arrays are ALSO translated (they are loop-carried: fields of the generated State, initial values in `rls?Enter`);
# the size guard, `nx`, the zero-filled outputs and the return are not (hand-modelled in Model/Adaptive.lean).
RLS_PINS = {
    "double": ['baf4ee6a526324e2', '583cdcfdcc98eba2', '9900f1ee21ce5712', '296065514838d6df', '9230ef305d3ac801', '974a2fe84decd76c',
               '016bd8fe656e1f2c', '84e355da0ef72e0c', 'eb68dc9ce36337a4'],
    "cmplx_t": ['ee21b281e5836f80', '631af0defa7a8a73', 'eabb1cf97c6b2fbb', '040ecb5b2f294ec0', '12fc265ed8674f3a', '373e60f14ed8c7b1',
                '51516d805bf6b860', '85ff1daae89b2c03', '8f0bdace89549f7e'],
}


def gen_rls(report_pins=None):
    prefetch([(RLS_TU, "RlsFilter")])
    out = []
    docs = clang_ast(RLS_TU, "RlsFilter")
    specs = {}
    for d in docs:
        if d.get("kind") == "ClassTemplateSpecializationDecl" and d.get("name") == "RlsFilter" and \
                any(x.get("kind") == "FieldDecl" for x in d.get("inner", [])):
            ta = [canon_type(qt(a)) for a in d.get("inner", []) if a.get("kind") == "TemplateArgument"]
            if len(ta) == 1:
                specs[ta[0]] = d
    if sorted(specs) != ["cmplx_t", "double"]:
        raise Unsupported("RlsFilter instantiations found: %s" % sorted(specs))
    for targ, suffix, elt, arr in (("double", "R", "α", "Array α"), ("cmplx_t", "C", "Cx α", "Array (Cx α)")):
        rec = specs[targ]
        cxx = "RlsFilter<%s>" % ("real_t" if targ == "double" else "cmplx_t")
        table = {"_n": "int", "_mu": "real_t", "_u": "base_array<%s>" % targ, "_w": "base_array<%s>" % targ,
                 "_p": "base_array<%s>" % targ, "_locked": "bool"}
        ms = [m for m in methods_named(rec, "process") if len(params_of(m)) == 2]
        if len(ms) != 1:
            raise Unsupported("%s::process(x, d) not found" % cxx)
        fn = ms[0]
        ps = params_of(fn)
        for p_ in ps:
            if canon_type(strip_type(qt(p_))) != "base_array<%s>" % targ or "const" not in qt(p_):
                raise Unsupported("%s::process parameter %s : %s" % (cxx, p_["name"], qt(p_)))
        var, body, digs = indexed_loop(fn, ps[0]["name"], None if os.environ.get("VERIF_REPORT_PINS") == "collect" else RLS_PINS[targ],
                                       cxx + "::process")
        _report_pins("RLS_PINS[%s]" % targ, digs)
        arrays = {p_["name"]: (p_["name"], arr) for p_ in ps}
        # declarations in front of the loop: the outputs y, e (zero-filled, length nx) and the loop-carried working arrays
        scratch = {}
        seen_out = set()
        seen_for = False
        for c in body_of(fn)["inner"]:
            if c.get("kind") == "ForStmt":
                seen_for = True
            if c.get("kind") != "DeclStmt":
                continue
            for d in c["inner"]:
                if d.get("kind") != "VarDecl" or canon_type(strip_type(qt(d))) != "base_array<%s>" % targ:
                    continue
                if seen_for:
                    raise Unsupported("%s: array %s declared behind the sample loop" % (cxx, d["name"]))
                ce = unwrap(d["inner"][0]) if d.get("inner") else {}
                if not (ce.get("kind") == "CXXConstructExpr" and len(ce.get("inner", [])) == 1 and
                        kind_of_type(qt(ce["inner"][0])) == "int" and canon_type(ce.get("ctorType", {}).get("qualType", "")) == "void (int)"):
                    raise Unsupported("%s: array %s is not declared as a zero-filled `base_array<T> %s(n)`" % (cxx, d["name"], d["name"]))
                if d["name"] in ("y", "e"):
                    a0 = unwrap(ce["inner"][0])
                    if not (a0.get("kind") == "DeclRefExpr" and a0["referencedDecl"].get("name") == "nx"):
                        raise Unsupported("%s: output array %s does not have length nx" % (cxx, d["name"]))
                    seen_out.add(d["name"])
                else:
                    scratch[d["name"]] = {"cxx": "base_array<%s>" % targ, "id": d["id"], "init": ce["inner"][0], "fn": cxx + "::process",
                                          "src": "n" if unwrap(ce["inner"][0]).get("kind") == "MemberExpr" else "n * n"}
        if seen_out != {"y", "e"}:
            raise Unsupported("%s: output arrays y, e not found" % cxx)
        texts, eps_used, unused = gen_processor(
            "RlsFilter" + suffix, rec, "rls" + suffix, table,
            [(fn, "", elt, [elt, elt], {"indexed": True, "var": var, "body": body, "arrays": arrays,
                                        "doc": "`%s` = the input, `%s` = the desired signal" % (ps[0]["name"], ps[1]["name"]),
                                        "pin_doc": "The size guard, the zero-filled outputs and the `return` of `process` are PINNED by an AST digest in tools/cxx2lean.py (not translated)."})],
            ["y", "e"], {}, cxx_name=cxx, scratch=scratch)
        out += texts
    return out


# ------------------------------------------------------------------------------------------
# unit: StepsSlice  (conversion of a stride-1 slice to an array: `A = B.slice(i1, i2);`)
#
# Whether the slice is accepted, and which elements it denotes, is decided by the REGENERATED constructor of unit Slice
# (`Gen.BaseSlice.ctor`); the plumbing from `slice(i1, i2)` to that constructor and from the accepted slice to the new array
# (copy of `nc` elements from `i1` on, stride 1) is PINNED here — its meaning is the subject of C04.

SLICE_PINS = {
    # slice_t<T> slice(int i1, int i2, int m = 1) { return slice_t<T>(*this, i1, i2, m); }   + const overload; the two `indexing::end_t` overloads
    "base_array::slice": ['a35366fb121e5591', '3e54228fe565062d', '43d7b900d5ab7d2c', 'df9aa71886cf3736'],
    # base_array(const const_slice_t<T>& rhs) : base_array(rhs.size()) { if (rhs.size() == 0) return; this->slice(0, indexing::end) = rhs; }
    # base_array(const slice_t<T>& rhs) : base_array(const_slice_t<T>(rhs)) {}
    "base_array(slice)": ['22becc53bf68be4d', '9d637827e7ddb610'],
    # const_slice_t(const base_array<T>& arr, int i1, int i2, int m) : base_slice_t(arr.size(), i1, i2, m), _base{arr} {}  (+ the two copy forms; slice_t likewise)
    "slice ctors": ['a778a1ab1a9d1878', '04b30e1af0fbc3d4', '044ec6f31bf6d734', 'b5e3e7a0f1e0cd5b', 'f25ac8e835073d72'],
    # int size() const noexcept { return _nc; }   (const_slice_t, slice_t)
    "slice size": ['acf8a5c488902ce6', '5de055f7ffe3c498'],
    # slice_t& operator=(const const_slice_t<T>& rhs): size check, empty -> return, stride 1/1 -> memcpy / memmove of `count` elements from &*rhs.begin()
    "slice_t::operator=": ['938cf4e32a1395d6'],
    # begin(): iterator(_base.data() + _i1, _m)   (const_slice_t: 1, slice_t: 2)
    "slice begin": ['ec31efb5cac1e1c7', '07be1c422644cb85', '91f40660245c71c7'],
}


def gen_steps_slice():
    tu = "#include <dsplib/array.h>\n#include <dsplib/slice.h>\n"
    has_body = lambda d: any(c.get("kind") == "CompoundStmt" for c in d.get("inner", []))
    prefetch([(tu, f) for f in ("base_array::slice", "base_array::base_array", "slice_t::slice_t", "const_slice_t::const_slice_t",
                                "slice_t::size", "slice_t::operator=", "slice_t::begin")])
    out = [HEADER % "include/dsplib/array.h (`slice(int, int, int)`, `base_array(const slice_t&)` — PINNED), include/dsplib/slice.h "
                    "(slice constructors, `size`, `begin`, `slice_t::operator=(const const_slice_t&)` — PINNED; the acceptance test is the regenerated `Gen.BaseSlice.ctor`)",
           "import DspVerif.Gen.Slice\nimport DspVerif.Gen.StepsArray\n" + STEPS_HEAD[0], STEPS_HEAD[1]]
    pinned(tu, "base_array::slice", lambda d: d.get("kind") == "CXXMethodDecl" and d.get("name") == "slice" and has_body(d),
           "base_array::slice", SLICE_PINS, "base_array<T>::slice")
    pinned(tu, "base_array::base_array", lambda d: d.get("kind") == "CXXConstructorDecl" and has_body(d) and
           [canon_type(qt(p_)) for p_ in params_of(d)] in (["const const_slice_t<T> &"], ["const slice_t<T> &"]),
           "base_array(slice)", SLICE_PINS, "base_array<T>::base_array(const (const_)slice_t<T>&)")
    ctors = lambda d: d.get("kind") == "CXXConstructorDecl" and has_body(d)
    ds = [d for f in ("const_slice_t::const_slice_t", "slice_t::slice_t") for d in clang_ast(tu, f) if ctors(d)]
    got = [ast_digest(d) for d in ds]
    _report_pins("slice ctors", got)
    if got != SLICE_PINS["slice ctors"] and os.environ.get("VERIF_REPORT_PINS") != "collect":
        raise Unsupported("the constructors of const_slice_t / slice_t differ from the pinned form (digests now %s)" % got)
    pinned(tu, "slice_t::size", lambda d: d.get("kind") == "CXXMethodDecl" and d.get("name") == "size" and has_body(d),
           "slice size", SLICE_PINS, "const_slice_t<T>::size / slice_t<T>::size")
    pinned(tu, "slice_t::operator=", lambda d: d.get("kind") == "CXXMethodDecl" and d.get("name") == "operator=" and has_body(d) and
           [canon_type(qt(p_)) for p_ in params_of(d)] == ["const const_slice_t<T> &"], "slice_t::operator=", SLICE_PINS,
           "slice_t<T>::operator=(const const_slice_t<T>&)")
    pinned(tu, "slice_t::begin", lambda d: d.get("kind") == "CXXMethodDecl" and d.get("name") == "begin" and has_body(d),
           "slice begin", SLICE_PINS, "const_slice_t<T>::begin / slice_t<T>::begin")
    out.append(
        "/-- `base_array<T>(a.slice(i1, i2))` with the default stride 1: the slice constructor (REGENERATED: `BaseSlice.ctor`, called with\n"
        "`n = a.size()`) throws or accepts; an accepted slice is copied into a new array: its `nc` elements from `i1` (resolved) on -/\n"
        "def arrSlice {β : Type} (a : Array β) (i1 i2 : Int) : Except String (Array β) :=\n"
        "  match BaseSlice.ctor (arrSize a) i1 i2 (1 : Int) with\n"
        "  | .error e => .error e\n"
        "  | .ok sl => .ok (a.extract sl.i1.toNat (sl.i1 + sl.nc).toNat)\n")
    out.append(
        "/-- `D.slice(d1, d2) = S.slice(s1, s2);` (default strides; `D`, `S` different arrays): the source slice is constructed first\n"
        "(C++17 sequencing of `=`), then the destination slice — both by the REGENERATED `BaseSlice.ctor`, either may throw —, then\n"
        "`slice_t::operator=(const const_slice_t&)` (PINNED): throws when the element counts differ, else copies `count` elements,\n"
        "`D[d1 + j] = S[s1 + j]` -/\n"
        "def arrSliceAssign {β : Type} (dst : Array β) (d1 d2 : Int) (src : Array β) (s1 s2 : Int) : Except String (Array β) :=\n"
        "  match BaseSlice.ctor (arrSize src) s1 s2 (1 : Int) with\n"
        "  | .error e => .error e\n"
        "  | .ok ss =>\n"
        "    match BaseSlice.ctor (arrSize dst) d1 d2 (1 : Int) with\n"
        "    | .error e => .error e\n"
        "    | .ok ds =>\n"
        "      if ds.nc ≠ ss.nc then .error \"Slices size must be equal\"\n"
        "      else .ok (Array.ofFn (n := dst.size) fun i =>\n"
        "        if ds.i1 ≤ Int.ofNat i.val ∧ Int.ofNat i.val < ds.i1 + ds.nc then src.getD (Int.ofNat i.val - ds.i1 + ss.i1).toNat dst[i] else dst[i])\n")
    out.append("end Gen\nend Dsp\n")
    return "\n".join(out)


# ------------------------------------------------------------------------------------------
# unit: StepsFir  (lib/fir.cpp `_conv<T>`, `FirFilter<T>::conv`; include/dsplib/fir.h `FirFilter<T>::process`; T = real_t, cmplx_t)

FIR_TU = ('#include "fir.cpp"\ntemplate class dsplib::FirFilter<dsplib::real_t>;\n'
          'template class dsplib::FirFilter<dsplib::cmplx_t>;\n')


def gen_steps_fir():
    prefetch([(FIR_TU, "FirFilter"), (FIR_TU, "dsplib::_conv")])
    has_body = lambda d: any(c.get("kind") == "CompoundStmt" for c in d.get("inner", []))
    out = [HEADER % "lib/fir.cpp (`_conv<T>`, `FirFilter<T>::conv`), include/dsplib/fir.h (`FirFilter<T>::process`), T = real_t and cmplx_t",
           "import DspVerif.Gen.StepsSlice\n" + STEPS_HEAD[0], STEPS_HEAD[1]]
    # --- template<class T> static void _conv(const T* x, const T* h, T* r, int nh, int nx): the two instantiations
    tmpl = [d for d in clang_ast(FIR_TU, "dsplib::_conv") if d.get("kind") == "FunctionTemplateDecl" and d.get("name") == "_conv"]
    if len(tmpl) != 1:
        raise Unsupported("function template _conv (lib/fir.cpp) not found")
    inst = {}
    for f in [c for c in tmpl[0]["inner"] if c.get("kind") == "FunctionDecl"]:
        ta = [canon_type(qt(a)) for a in f.get("inner", []) if a.get("kind") == "TemplateArgument"]
        if ta in (["double"], ["cmplx_t"]) and has_body(f):
            inst[ta[0]] = f
    if sorted(inst) != ["cmplx_t", "double"]:
        raise Unsupported("_conv: instantiations found %s, expected real_t and cmplx_t" % sorted(inst))
    docs = clang_ast(FIR_TU, "FirFilter")
    specs = {}
    for d in docs:
        if d.get("kind") == "ClassTemplateSpecializationDecl" and d.get("name") == "FirFilter" and \
                any(x.get("kind") == "FieldDecl" for x in d.get("inner", [])):
            ta = [canon_type(qt(a)) for a in d.get("inner", []) if a.get("kind") == "TemplateArgument"]
            if len(ta) == 1:
                specs[ta[0]] = d
    if sorted(specs) != ["cmplx_t", "double"]:
        raise Unsupported("FirFilter instantiations found: %s" % sorted(specs))
    for targ, suffix, elt, arr, arrname in (("double", "R", "α", "Array α", "arr_real"), ("cmplx_t", "C", "Cx α", "Array (Cx α)", "arr_cmplx")):
        cxx = "FirFilter<%s>" % ("real_t" if targ == "double" else "cmplx_t")
        f = inst[targ]
        sig = canon_type(qt(f))
        want = "void (const %s *__restrict, const %s *__restrict, %s *__restrict, int, int)" % (targ, targ, targ)
        if sig != want:
            raise Unsupported("_conv<%s> has signature %s" % (targ, sig))
        texts, pinfo = gen_proc(f, "fir%sConvKernel" % suffix, "`_conv<%s>(const T* x, const T* h, T* r, int nh, int nx)` of lib/fir.cpp" %
                                ("real_t" if targ == "double" else "cmplx_t"))
        out += texts
        # --- FirFilter<T>::conv(x, h) (explicit specialisation in lib/fir.cpp)
        cs = [d for d in docs if d.get("kind") == "CXXMethodDecl" and d.get("name") == "conv" and has_body(d) and len(params_of(d)) == 2 and
              all(canon_type(strip_type(qt(p_))) == arrname and "const" in qt(p_) and "&" in qt(p_) for p_ in params_of(d))]
        if len(cs) != 1:
            raise Unsupported("%s::conv(const %s&, const %s&) not found" % (cxx, arrname, arrname))
        cf = cs[0]
        if canon_type(cf["type"]["qualType"].split("(")[0]) != arrname:
            raise Unsupported("%s::conv returns %s" % (cxx, cf["type"]["qualType"]))
        tr = StepTr(members={}, single=True, user_calls=steps_user_calls(), effect=False)
        tr.bound = set()
        cargs = []
        for p_ in params_of(cf):
            v = tr.var(p_["name"])
            tr.arrays[p_["name"]] = (v, arr)
            tr.bound.add(v)
            tr.decl_order.append(v)
            tr.types[v] = arr
            cargs.append("(%s : %s)" % (v, arr))
        tr.procs = {"_conv": {sig: pinfo}}
        tr.name_hint = "fir%sConv" % suffix
        body = tr.stmts([body_of(cf)], FALLOFF)
        if FALLOFF in body or tr.pre or tr.writes or tr.uninit or tr.aux_defs:
            raise Unsupported("%s::conv: unexpected shape" % cxx)
        out.append("/-- `%s::conv(const %s& x, const %s& h)` of lib/fir.cpp -/\ndef fir%sConv %s : %s :=\n%s\n" % (
            cxx, arrname, arrname, suffix, " ".join(cargs), arr, indent(body)))
        # --- FirFilter<T>::process(const base_array<T>& s)
        rec = specs[targ]
        table = {"_h": "base_array<%s>" % targ, "_d": "base_array<%s>" % targ}
        order = check_members(rec, table, cxx)
        members = {m: (m.lstrip("_"), arr, "%s %s" % (table[m], m)) for m in order}
        ms = [m for m in methods_named(rec, "process") if len(params_of(m)) == 1]
        if len(ms) != 1 or canon_type(strip_type(qt(params_of(ms[0])[0]))) != "base_array<%s>" % targ:
            raise Unsupported("%s::process(const base_array<T>&) not found" % cxx)
        pf = ms[0]
        forwards_to_array(rec, "operator()", "process")
        calls = steps_user_calls()
        conv_sig = "%s (const %s &, const %s &)" % (arrname, arrname, arrname)

        def conv_call(a, n, conv_sig=conv_sig, suffix=suffix):
            rd = unwrap(n["inner"][0]).get("referencedDecl", {})
            if canon_type(qt(unwrap(n["inner"][0]))) != conv_sig or rd.get("kind") != "CXXMethodDecl" or len(a) != 2:
                raise Unsupported("call of conv with signature %s" % canon_type(qt(unwrap(n["inner"][0]))))
            return "(fir%sConv %s %s)" % (suffix, a[0], a[1])
        calls["conv"] = conv_call
        tr = StepTr(members=members, single=True, user_calls=calls, effect=True)
        tr.fallible = True
        pn = params_of(pf)[0]["name"]
        pv = tr.var(pn)
        tr.arrays[pn] = (pv, arr)
        tr.bound.add(pv)
        tr.decl_order.append(pv)
        tr.types.update({pv: arr, "self": "FirFilter%sState α" % suffix})
        tr.name_hint = "fir%sProcess" % suffix
        body = tr.stmts([body_of(pf)], FALLOFF)
        if FALLOFF in body or tr.aux_defs:
            raise Unsupported("%s::process: control can reach the end without a return" % cxx)
        out.append(struct_text("FirFilter%sState" % suffix, "data members of `%s` (include/dsplib/fir.h; C++ declarations CHECKED)" % cxx,
                               [members[m] for m in order]))
        out.append("/-- `%s::process(const base_array<T>& %s)` (also `operator()`, which forwards to it): `.error` = the exception thrown\n"
                   "(by the slice that hands the history over), else the members afterwards and the returned array -/\n"
                   "def fir%sProcess (self : FirFilter%sState α) (%s : %s) : Except String (FirFilter%sState α × %s) :=\n%s\n" % (
                       cxx, pn, suffix, suffix, pv, arr, suffix, arr, indent(body)))
    out.append("end Gen\nend Dsp\n")
    return "\n".join(out)


# ------------------------------------------------------------------------------------------
# unit: StepsDelay  (include/dsplib/delay.h `Delay<T>::process`, T = real_t, cmplx_t; lib/hilbert.cpp `HilbertFilter::process`)

DELAY_TU = ('#include "hilbert.cpp"\ntemplate class dsplib::Delay<dsplib::real_t>;\n'
            'template class dsplib::Delay<dsplib::cmplx_t>;\n')


def gen_steps_delay():
    prefetch([(DELAY_TU, "Delay"), (DELAY_TU, "HilbertFilter"), (DELAY_TU, "HilbertFilter::process")])
    has_body = lambda d: any(c.get("kind") == "CompoundStmt" for c in d.get("inner", []))
    out = [HEADER % "include/dsplib/delay.h (`Delay<T>::process`, T = real_t and cmplx_t), lib/hilbert.cpp (`HilbertFilter::process`), "
                    "include/dsplib/hilbert.h (members)",
           "import DspVerif.Gen.StepsFir\n" + STEPS_HEAD[0], STEPS_HEAD[1]]
    docs = clang_ast(DELAY_TU, "Delay")
    specs = {}
    for d in docs:
        if d.get("kind") == "ClassTemplateSpecializationDecl" and d.get("name") == "Delay" and \
                any(x.get("kind") == "FieldDecl" for x in d.get("inner", [])):
            ta = [canon_type(qt(a)) for a in d.get("inner", []) if a.get("kind") == "TemplateArgument"]
            if len(ta) == 1:
                specs[ta[0]] = d
    if sorted(specs) != ["cmplx_t", "double"]:
        raise Unsupported("Delay instantiations found: %s" % sorted(specs))
    for targ, suffix, arr in (("double", "R", "Array α"), ("cmplx_t", "C", "Array (Cx α)")):
        cxx = "Delay<%s>" % ("real_t" if targ == "double" else "cmplx_t")
        rec = specs[targ]
        table = {"_buffer": "base_array<%s>" % targ}
        order = check_members(rec, table, cxx)
        members = {m: (m.lstrip("_"), arr, "%s %s" % (table[m], m)) for m in order}
        ms = [m for m in methods_named(rec, "process") if len(params_of(m)) == 1]
        if len(ms) != 1 or canon_type(strip_type(qt(params_of(ms[0])[0]))) != "base_array<%s>" % targ:
            raise Unsupported("%s::process(const base_array<T>&) not found" % cxx)
        pf = ms[0]
        forwards_to_array(rec, "operator()", "process")
        tr = StepTr(members=members, single=True, user_calls=steps_user_calls(), effect=True)
        tr.fallible = True
        pn = params_of(pf)[0]["name"]
        pv = tr.var(pn)
        tr.arrays[pn] = (pv, arr)
        tr.bound.add(pv)
        tr.decl_order.append(pv)
        tr.types.update({pv: arr, "self": "Delay%sState α" % suffix})
        tr.name_hint = "delay%sProcess" % suffix
        body = tr.stmts([body_of(pf)], FALLOFF)
        if FALLOFF in body or tr.aux_defs:
            raise Unsupported("%s::process: control can reach the end without a return" % cxx)
        out.append(struct_text("Delay%sState" % suffix, "data members of `%s` (include/dsplib/delay.h; C++ declarations CHECKED)" % cxx,
                               [members[m] for m in order]))
        out.append("/-- `%s::process(const base_array<T>& %s)` (also `operator()`, which forwards to it): `.error` = the exception thrown\n"
                   "(by one of the slices), else the member afterwards and the returned array -/\n"
                   "def delay%sProcess (self : Delay%sState α) (%s : %s) : Except String (Delay%sState α × %s) :=\n%s\n" % (
                       cxx, pn, suffix, suffix, pv, arr, suffix, arr, indent(body)))
    # --- HilbertFilter::process(const arr_real& s): `_d.process(s)` -> real parts, `_fir.process(s)` -> imaginary parts
    rec = record(clang_ast(DELAY_TU, "HilbertFilter"), "HilbertFilter")
    table = {"_fir": "FirFilter<real_t>", "_d": "DelayReal"}
    order = check_members(rec, table, "HilbertFilter")
    sub_t = {"_fir": "FirFilterRState α", "_d": "DelayRState α"}
    members = {m: (m.lstrip("_"), sub_t[m], "%s %s" % (table[m], m)) for m in order}
    ms = [d for d in clang_ast(DELAY_TU, "HilbertFilter::process") if d.get("kind") == "CXXMethodDecl" and d.get("name") == "process" and has_body(d)]
    if len(ms) != 1 or len(params_of(ms[0])) != 1 or canon_type(strip_type(qt(params_of(ms[0])[0]))) not in ARRAY_REAL_T:
        raise Unsupported("HilbertFilter::process(const arr_real&) not found")
    pf = ms[0]
    forwards_to_array(rec, "operator()", "process")
    subobjs = {"_d": {"ops": {"process": {"lean": "delayRProcess", "ret": "Array α"}}},
               "_fir": {"ops": {"process": {"lean": "firRProcess", "ret": "Array α"}}}}
    # the two calls must resolve to the functions generated above: Delay<real_t>::process / FirFilter<real_t>::process
    for c in find_all(body_of(pf), lambda x: x.get("kind") == "CXXMemberCallExpr" and unwrap(x["inner"][0]).get("name") == "process"):
        bt = canon_type(strip_type(qt(unwrap(unwrap(c["inner"][0])["inner"][0]))))
        if bt not in ("DelayReal", "FirFilter<real_t>"):
            raise Unsupported("HilbertFilter::process calls process on %s" % bt)
    tr = StepTr(members=members, single=True, user_calls=steps_user_calls(), effect=True, subobjs=subobjs)
    tr.fallible = True
    pn = params_of(pf)[0]["name"]
    pv = tr.var(pn)
    tr.arrays[pn] = (pv, "Array α")
    tr.bound.add(pv)
    tr.decl_order.append(pv)
    tr.types.update({pv: "Array α", "self": "HilbertFilterState α"})
    tr.name_hint = "hilbertProcess"
    body = tr.stmts([body_of(pf)], FALLOFF)
    if FALLOFF in body:
        raise Unsupported("HilbertFilter::process: control can reach the end without a return")
    out.append(struct_text("HilbertFilterState", "data members of `HilbertFilter` (include/dsplib/hilbert.h; C++ declarations CHECKED): the two sub-objects",
                           [members[m] for m in order]))
    out += tr.aux_defs
    out.append("/-- `HilbertFilter::process(const arr_real& %s)` (also `operator()`): `.error` = an exception thrown by `_d.process` / `_fir.process` -/\n"
               "def hilbertProcess (self : HilbertFilterState α) (%s : Array α) : Except String (HilbertFilterState α × Array (Cx α)) :=\n%s\n" % (
                   pn, pv, indent(body)))
    out.append("end Gen\nend Dsp\n")
    return "\n".join(out)


# ------------------------------------------------------------------------------------------
# unit: StepsResample  (lib/resample/fir-decimator.cpp, fir-interpolator.cpp, fir-rate-converter.cpp: the three `process` functions)

RESAMPLE_TU = ('#include "resample/fir-decimator.cpp"\n#include "resample/fir-interpolator.cpp"\n'
               '#include "resample/fir-rate-converter.cpp"\n')


def gen_steps_resample():
    classes = (
        ("FIRDecimator", "firDecim", {"h_": "std::vector<arr_real>", "d_": "arr_real", "decim_": "int", "sublen_": "int"}),
        ("FIRInterpolator", "firInterp", {"h_": "std::vector<arr_real>", "d_": "arr_real", "interp_": "int", "sublen_": "int"}),
        ("FIRRateConverter", "firRate", {"h_": "std::vector<arr_real>", "d_": "arr_real", "interp_": "int", "decim_": "int",
                                         "sublen_": "int", "xidxs_": "std::vector<int>"}),
    )
    prefetch([(RESAMPLE_TU, c[0]) for c in classes] + [(RESAMPLE_TU, c[0] + "::process") for c in classes])
    has_body = lambda d: any(c.get("kind") == "CompoundStmt" for c in d.get("inner", []))
    out = [HEADER % "lib/resample/fir-decimator.cpp, fir-interpolator.cpp, fir-rate-converter.cpp (`process` of FIRDecimator, FIRInterpolator, "
                    "FIRRateConverter), include/dsplib/resample.h (members)",
           "import DspVerif.Gen.StepsArray\n" + STEPS_HEAD[0], STEPS_HEAD[1]]
    for cls, lean, table in classes:
        rec = record(clang_ast(RESAMPLE_TU, cls), cls)
        order = check_members(rec, table, cls)
        members = {}
        for m in order:
            lt = lean_type_of(table[m])
            if lt is None:
                raise Unsupported("%s::%s: C++ type %s has no Lean counterpart" % (cls, m, table[m]))
            members[m] = (m.lstrip("_").rstrip("_"), lt, "%s %s" % (table[m], m))
        ms = [d for d in clang_ast(RESAMPLE_TU, cls + "::process") if d.get("kind") == "CXXMethodDecl" and d.get("name") == "process" and has_body(d)]
        if len(ms) != 1 or len(params_of(ms[0])) != 1 or canon_type(strip_type(qt(params_of(ms[0])[0]))) not in ARRAY_REAL_T or \
                canon_type(ms[0]["type"]["qualType"].split("(")[0]) not in ARRAY_REAL_T:
            raise Unsupported("%s::process(const arr_real&) -> arr_real not found" % cls)
        pf = ms[0]
        tr = StepTr(members=members, single=True, user_calls=steps_user_calls(), effect=True)
        tr.fallible = True
        pn = params_of(pf)[0]["name"]
        pv = tr.var(pn)
        tr.arrays[pn] = (pv, "Array α")
        tr.bound.add(pv)
        tr.decl_order.append(pv)
        S = "%sState" % cls
        tr.types.update({pv: "Array α", "self": "%s α" % S})
        tr.name_hint = lean + "Process"
        body = tr.stmts([body_of(pf)], FALLOFF)
        if FALLOFF in body:
            raise Unsupported("%s::process: control can reach the end without a return" % cls)
        if tr.writes - {"d_"}:
            raise Unsupported("%s::process writes the members %s" % (cls, sorted(tr.writes)))
        out.append(struct_text(S, "data members of `%s` (include/dsplib/resample.h; C++ declarations CHECKED); `process` writes `d_` only" % cls,
                               [members[m] for m in order]))
        out += tr.aux_defs
        out.append("/-- `%s::process(const arr_real& %s)`: `.error` = the exception thrown (if the function has a throwing guard), else the\n"
                   "members afterwards and the returned array -/\n"
                   "def %sProcess (self : %s α) (%s : Array α) : Except String (%s α × Array α) :=\n%s\n" % (
                       cls, pn, lean, S, pv, S, indent(body)))
    out.append("end Gen\nend Dsp\n")
    return "\n".join(out)


# ------------------------------------------------------------------------------------------
# unit: StepsSnr  (lib/snr.cpp: `_locate_peak`, `_left_descent`, `_right_descent`, the walk skeleton of `_get_psd_tone`)

SNR_TU = '#include "snr.cpp"\n'

# digests of the statements of `_get_psd_tone(const arr_real& spec, real_t tone_freq)` that are NOT translated, in order:
#   const real_t fpos = std::round(tone_freq * n);  int freq_num = (fpos >= 0) ? ((fpos < n) ? int(fpos) : (n - 1)) : 0;
#   freq_num = max(freq_num, 0);            [translated: n, ipeak, ltop + loop, rtop + loop, lpos, rpos]
#   const arr_real f_fund = arange(lpos, rpos + 1) / n;  const arr_real s_fund = spec.slice(lpos, rpos + 1);
#   const auto freq = dot(f_fund, s_fund) / sum(s_fund);  ToneInfo info;  info.size = n; … info.power = sum(s_fund);  return info;
SNR_PINS = {"_get_psd_tone": ['4e04c82bd379b808', 'b213486239b8e565', '02e378013d71b8dc', '205ec58512803cd6', '529c5fd05bb7d22c',
                              '61becf6a64af64a5', 'fbc1f1081e1fc371', '65d7d9234b8c3003', '885df3241fdc3e04', '8b1808728ad9e339',
                              '68ff68e6b6d8108a', 'e2f9c48bfc7da6cc', '802236315e7b2378']}


def gen_steps_snr():
    prefetch([(SNR_TU, f) for f in ("_locate_peak", "_left_descent", "_right_descent", "_get_psd_tone")] +
             [("#include <dsplib/math.h>\n", "dsplib::max"), ("#include <dsplib/math.h>\n", "dsplib::min")])
    has_body = lambda d: any(c.get("kind") == "CompoundStmt" for c in d.get("inner", []))
    out = [HEADER % "lib/snr.cpp (`_locate_peak`, `_left_descent`, `_right_descent`, the walks of `_get_psd_tone`), "
                    "include/dsplib/math.h (`max` / `min` of two scalars at `int`)",
           "import DspVerif.Gen.StepsArray\n" + STEPS_HEAD[0], STEPS_HEAD[1]]
    # max / min of two ints: the same templates StepsBase translates at real_t
    minmax_sig = "auto (const int &, const int &) -> decltype(v1 + v2)"
    for name in ("max", "min"):
        docs = clang_ast("#include <dsplib/math.h>\n", "dsplib::" + name)
        ts = [d for d in docs if d.get("kind") == "FunctionTemplateDecl" and d.get("name") == name]
        ts = [t for t in ts for f in [[c for c in t["inner"] if c.get("kind") == "FunctionDecl"][0]] if len(params_of(f)) == 2]
        if len(ts) != 1:
            raise Unsupported("template %s(const T1&, const T2&) not found" % name)
        f = [c for c in ts[0]["inner"] if c.get("kind") == "FunctionDecl"][0]
        if canon_type(qt(f)) != "auto (const T1 &, const T2 &) -> decltype(v1 + v2)":
            raise Unsupported("template %s: signature %s" % (name, qt(f)))
        body = Tr().stmts([body_of(f)], "?", False)
        ps = [p_["name"] for p_ in params_of(f)]
        out.append("/-- `dsplib::%s(const T1& v1, const T2& v2)` of include/dsplib/math.h at `T1 = T2 = int` -/\n"
                   "def %sII (%s : Int) : Int :=\n%s\n" % (name, name, " ".join(ps), indent(body)))

    def calls():
        c = steps_user_calls()
        csig = lambda n: canon_type(qt(unwrap(n["inner"][0])))

        def mmi(name, real):
            def h(a, n):
                if csig(n) == minmax_sig and len(a) == 2:
                    return "(%sII %s %s)" % (name, a[0], a[1])
                return real(a, n)
            return h
        c["max"], c["min"] = mmi("max", c["max"]), mmi("min", c["min"])
        for cn, ln in (("_locate_peak", "snrLocatePeak"), ("_left_descent", "snrLeftDescent"), ("_right_descent", "snrRightDescent")):
            def h(a, n, cn=cn, ln=ln):
                if csig(n) != "int (const arr_real &, int)" or len(a) != 2:
                    raise Unsupported("call of %s with signature %s" % (cn, csig(n)))
                return "(%s %s %s)" % (ln, a[0], a[1])
            c[cn] = h
        return c

    def walk_fn(cname, lname):
        fs = [d for d in clang_ast(SNR_TU, cname) if d.get("kind") == "FunctionDecl" and d.get("name") == cname and has_body(d)]
        if len(fs) != 1 or canon_type(qt(fs[0])) != "int (const arr_real &, int)":
            raise Unsupported("%s(const arr_real&, int) -> int not found" % cname)
        f = fs[0]
        tr = StepTr(members={}, single=True, user_calls=calls(), effect=False)
        tr.bound = set()
        ps = params_of(f)
        av, iv = tr.var(ps[0]["name"]), tr.var(ps[1]["name"])
        tr.arrays[ps[0]["name"]] = (av, "Array α")
        for v, lt in ((av, "Array α"), (iv, "Int")):
            tr.bound.add(v)
            tr.decl_order.append(v)
            tr.types[v] = lt
        tr.name_hint = lname
        body = tr.stmts([body_of(f)], FALLOFF)
        if FALLOFF in body or tr.pre or tr.writes or tr.uninit:
            raise Unsupported("%s: unexpected shape" % cname)
        out.extend(tr.aux_defs)
        out.append("/-- `int %s(const arr_real& %s, int %s)` of lib/snr.cpp -/\ndef %s (%s : Array α) (%s : Int) : Int :=\n%s\n" % (
            cname, ps[0]["name"], ps[1]["name"], lname, av, iv, indent(body)))

    walk_fn("_locate_peak", "snrLocatePeak")
    walk_fn("_left_descent", "snrLeftDescent")
    walk_fn("_right_descent", "snrRightDescent")
    # --- _get_psd_tone(const arr_real& spec, real_t tone_freq): the statements from `ipeak` to `rpos` (and `n`)
    fs = [d for d in clang_ast(SNR_TU, "_get_psd_tone") if d.get("kind") == "FunctionDecl" and d.get("name") == "_get_psd_tone" and has_body(d) and
          canon_type(qt(d)).replace("(anonymous namespace)::", "") == "ToneInfo (const arr_real &, real_t)"]
    if len(fs) != 1:
        raise Unsupported("_get_psd_tone(const arr_real&, real_t) not found")
    f = fs[0]
    stmts = list(body_of(f).get("inner", []))
    declares = lambda st, nm: st.get("kind") == "DeclStmt" and any(d.get("kind") == "VarDecl" and d.get("name") == nm for d in st["inner"])
    idx = {nm: [i for i, st in enumerate(stmts) if declares(st, nm)] for nm in ("n", "freq_num", "ipeak", "rpos")}
    if any(len(v) != 1 for v in idx.values()) or not (idx["n"][0] == 0 and idx["n"][0] < idx["freq_num"][0] < idx["ipeak"][0] < idx["rpos"][0]):
        raise Unsupported("_get_psd_tone: the declarations of n, freq_num, ipeak, rpos are not found in that order")
    a, b = idx["ipeak"][0], idx["rpos"][0]
    part = [stmts[0]] + stmts[a:b + 1]
    others = stmts[1:a] + stmts[b + 1:]
    digs = [ast_digest(c) for c in others]
    _report_pins("SNR_PINS[_get_psd_tone]", digs)
    if digs != SNR_PINS["_get_psd_tone"] and os.environ.get("VERIF_REPORT_PINS") != "collect":
        raise Unsupported("_get_psd_tone: the statements around the walks differ from the pinned form (digests %s)" % digs)
    # freq_num must not be assigned after the statements skipped in front (it is the input of the translated part)
    for st in stmts[a:]:
        for asg in find_all(st, lambda x: x.get("kind") in ("BinaryOperator", "CompoundAssignOperator", "UnaryOperator") and
                            (x.get("opcode") in ("=", "++", "--") or x.get("kind") == "CompoundAssignOperator")):
            t = unwrap(asg["inner"][0])
            if t.get("kind") == "DeclRefExpr" and t["referencedDecl"].get("name") in ("freq_num", "n"):
                raise Unsupported("_get_psd_tone: %s is modified inside / behind the translated statements" % t["referencedDecl"]["name"])
    tr = StepTr(members={}, single=True, user_calls=calls(), effect=False)
    tr.bound = set()
    ps = params_of(f)
    av = tr.var(ps[0]["name"])
    tr.arrays[ps[0]["name"]] = (av, "Array α")
    for v, lt in ((av, "Array α"), ("freq_num", "Int")):
        tr.bound.add(v)
        tr.decl_order.append(v)
        tr.types[v] = lt
    tr.name_hint = "snrToneBounds"
    body = tr.stmts(part, "(lpos, rpos)")
    if tr.pre or tr.writes or tr.uninit:
        raise Unsupported("_get_psd_tone: unexpected effect")
    out.extend(tr.aux_defs)
    out.append("/-- the walks of `ToneInfo _get_psd_tone(const arr_real& %s, real_t tone_freq)` of lib/snr.cpp: from the clamped bin number\n"
               "`freq_num` (computed by the statements in front, PINNED) to the lobe limits `(lpos, rpos)` — peak, the plateau of bins equal\n"
               "to the peak, the two descents.  The statements behind (`arange`, `slice`, `dot`, `sum`, `ToneInfo`) are PINNED. -/\n"
               "def snrToneBounds (%s : Array α) (freq_num : Int) : Int × Int :=\n%s\n" % (ps[0]["name"], av, indent(body)))
    out.append("end Gen\nend Dsp\n")
    return "\n".join(out)


# ------------------------------------------------------------------------------------------
# unit: StepsMedian  (lib/medfilt.cpp: `_update_sort`, sample loop of MedianFilter::process)

MED_TU = '#include "medfilt.cpp"\n'


def gen_steps_median():
    prefetch([(MED_TU, "dsplib::_update_sort"), (MED_TU, "MedianFilter"), (MED_TU, "MedianFilter::process")])
    out = [HEADER % "lib/medfilt.cpp (`_update_sort`, loop body of `MedianFilter::process`), include/dsplib/medfilt.h (members)",
           "import DspVerif.Gen.StepsArray\n" + STEPS_HEAD[0], STEPS_HEAD[1]]
    # --- static void _update_sort(real_t* x, int nx, real_t v_new, real_t v_old): works in place on x[0 … nx-1]
    fs = [d for d in clang_ast(MED_TU, "dsplib::_update_sort") if d.get("kind") == "FunctionDecl" and d.get("name") == "_update_sort" and
          any(c.get("kind") == "CompoundStmt" for c in d.get("inner", []))]
    if len(fs) != 1:
        raise Unsupported("_update_sort not found")
    sig = "void (real_t *, int, real_t, real_t)"
    if canon_type(qt(fs[0])) != sig:
        raise Unsupported("_update_sort has signature %s, expected %s" % (canon_type(qt(fs[0])), sig))
    texts, pinfo = gen_proc(fs[0], "medianUpdateSort", "`static void _update_sort(real_t* x, int nx, real_t v_new, real_t v_old)` of lib/medfilt.cpp")
    out += texts
    # --- MedianFilter::process
    rec = record(clang_ast(MED_TU, "MedianFilter"), "MedianFilter")
    table = MEDIAN_TABLE
    ms = [d for d in clang_ast(MED_TU, "MedianFilter::process") if d.get("kind") == "CXXMethodDecl" and d.get("name") == "process" and
          any(c.get("kind") == "CompoundStmt" for c in d.get("inner", []))]
    if len(ms) != 1 or len(params_of(ms[0])) != 1 or canon_type(strip_type(qt(params_of(ms[0])[0]))) not in ARRAY_REAL_T:
        raise Unsupported("MedianFilter::process(const arr_real&) not found")
    forwards_to_array(rec, "operator()", "process")
    texts, eps_used, unused = gen_processor(
        "MedianFilter", rec, "median", table, [(ms[0], "", "α", ["α"], {"out_decls": ("y",)})], ["y"], {},
        procs={"_update_sort": {sig: pinfo}})
    out += texts
    out.append("end Gen\nend Dsp\n")
    return "\n".join(out)


def ptr_param(t):
    """C++ type of a pointer parameter -> (lean array type, pointee is const) or None"""
    t = canon_type(t).replace("__restrict", "").strip()
    t = re.sub(r"\*\s*const$", "*", t).strip()                     # the pointer itself may be const
    t = re.sub(r"^(double|real_t|cmplx_t) const \*$", r"const \1 *", t)   # east const
    m = re.match(r"^(const )?(double|real_t|cmplx_t) \*$", t)
    if not m:
        return None
    return ("Array (Cx α)" if m.group(2) == "cmplx_t" else "Array α"), bool(m.group(1))


def gen_proc(f, lname, what):
    """a free function `void f(T* a, const T* b, …, scalars…)` that works IN PLACE on the array whose first element its single
    pointer-to-non-const parameter points to: translated as a function from the arrays and scalars to that array afterwards.
    Returns (texts, dict(lean=…, kinds=[("ptr" | "cptr" | "val", lean type)…]))."""
    if f["type"]["qualType"].split("(")[0].strip() != "void":
        raise Unsupported("%s does not return void" % f.get("name"))
    tr = StepTr(members={}, single=True, user_calls=steps_user_calls(), effect=False)
    tr.bound = set()
    kinds, args, out_arr = [], [], []
    for p_ in params_of(f):
        v = tr.var(p_["name"])
        pp = ptr_param(qt(p_))
        if pp is not None:
            lt, is_const = pp
            tr.ptr_arrays[p_["name"]] = (v, lt, is_const)
            kinds.append(("cptr" if is_const else "ptr", lt))
            if not is_const:
                out_arr.append(v)
        else:
            lt = lean_type_of(qt(p_))
            if lt not in ("α", "Int", "Cx α") or "*" in qt(p_) or "&" in qt(p_):
                raise Unsupported("%s: parameter %s : %s" % (f.get("name"), p_["name"], qt(p_)))
            kinds.append(("val", lt))
        if v in tr.bound:
            raise Unsupported("%s: duplicate parameter name %s" % (f.get("name"), v))
        tr.bound.add(v)
        tr.decl_order.append(v)
        tr.types[v] = lt
        args.append("(%s : %s)" % (v, lt))
    if len(out_arr) != 1:
        raise Unsupported("%s: expected exactly one pointer-to-non-const parameter, found %d" % (f.get("name"), len(out_arr)))
    tr.name_hint = lname
    body = tr.stmts([body_of(f)], out_arr[0])
    if tr.pre or tr.writes or tr.uninit:
        raise Unsupported("%s: unexpected effect / unassigned local" % f.get("name"))
    rt = tr.types[out_arr[0]]
    texts = list(tr.aux_defs)
    texts.append("/-- %s: works in place on the array\nwhose first element `%s` points to; result = that array afterwards -/\n"
                 "def %s %s : %s :=\n%s\n" % (what, out_arr[0], lname, " ".join(args), rt, indent(body)))
    return texts, {"lean": lname, "kinds": kinds}


def forwards_to_array(rec, name, target):
    """`R name(const arr& x) { return this->target(x); }`"""
    ms = [m for m in methods_named(rec, name) if len(params_of(m)) == 1]
    if len(ms) != 1:
        raise Unsupported("%s(x) not found" % name)
    b = body_of(ms[0]).get("inner", [])
    if len(b) != 1 or b[0].get("kind") != "ReturnStmt":
        raise Unsupported("%s does not simply forward to %s" % (name, target))
    calls = find_all(b[0], lambda x: x.get("kind") == "CXXMemberCallExpr")
    if len(calls) != 1 or unwrap(calls[0]["inner"][0]).get("name") != target or \
            unwrap(unwrap(calls[0]["inner"][0])["inner"][0]).get("kind") != "CXXThisExpr" or len(calls[0]["inner"]) != 2:
        raise Unsupported("%s does not simply forward to %s" % (name, target))
    a = unwrap(calls[0]["inner"][1])
    if not (a.get("kind") == "DeclRefExpr" and a["referencedDecl"].get("name") == params_of(ms[0])[0]["name"]):
        raise Unsupported("%s does not pass its argument to %s" % (name, target))
    if find_all(b[0], lambda x: x.get("kind") in ("CallExpr", "CXXOperatorCallExpr", "BinaryOperator", "UnaryOperator")):
        raise Unsupported("%s computes besides forwarding to %s" % (name, target))


# ------------------------------------------------------------------------------------------
# Constructors: `C::C(params) : mem-initialisers { body }`  -->  def cCtor (params) : Except String (CObj α)
#
# Every data member becomes a Lean local `m_<field>`, bound in the order C++ initialises the members (declaration order:
# mem-initialiser, else the default member initialiser of the declaration, else — class types — the default constructor), then
# the body runs (assignments to members rebind the local, DSPLIB_ASSERT / DSPLIB_THROW give `.error`), and the object is the
# record of the locals.  A member read before it is initialised, or left without a value on some path, is refused.


class CtorTr(StepTr):
    def __init__(self, members, user_calls=None, rec=None, obj_pred=None, subctors=None):
        super().__init__(members=members, single=True, user_calls=user_calls or steps_user_calls(), effect=True)
        self.bound = set()
        self.fallible = True
        self.loop_param_order = "decl"
        self.rec = rec
        self.obj_pred = obj_pred       # None: the object is `*this`; else a predicate on AST nodes (`*_d` of a pimpl class)
        self.subctors = subctors or {}  # canonical C++ type of a sub-object -> dict(lean=…, sig=…, assign=[signatures of operator=])
        self.uses_trunc = False
        self.stmt_hooks = []
        self.extra_params = []         # functions the constructor calls that stay parameters: (lean name, lean type, doc)
        self.empty_bases = set()       # canonical names of base classes without data members (default-constructed: nothing to do)

    def is_obj(self, n):
        if self.obj_pred is not None:
            return self.obj_pred(n)
        return super().is_obj(n)

    def e_FloatingLiteral(self, n):
        """a floating literal: exact when it is k/2^j, else the exact value of the shortest DECIMAL text denoting the same double,
        as a quotient of integers (C++ takes the double nearest to it; rounding is not modelled anywhere)"""
        v = n["value"]
        self.literals.append(v)
        d = dyadic(float(v))
        if d is not None:
            return d
        from fractions import Fraction
        # clang prints 17 significant digits; the shortest decimal that denotes the same double is the literal as written
        fr = Fraction(repr(float(v)))
        if float(fr) != float(v) or fr.denominator > 10 ** 15:
            raise Unsupported("floating literal %s is not a short decimal" % v)
        return "((Fn.ofInt (%d : Int)) / (Fn.ofInt (%d : Int)))" % (fr.numerator, fr.denominator)

    def e_BinaryOperator(self, n):
        if n.get("opcode") == "<<":
            l, r = n["inner"]
            lu = unwrap(l)
            if lu.get("kind") == "IntegerLiteral" and lu.get("value") == "1" and canon_type(strip_type(qt(n))) in ("long", "long long") and \
                    canon_type(strip_type(qt(r))) == "int":
                # `1L << e`: 2^e for 0 <= e < 63 (a negative or too large count is undefined)
                self.prims.add("shl1")
                return "(shl1 %s)" % self.e(r)
            raise Unsupported("shift %s << %s" % (qt(l), qt(r)))
        return super().e_BinaryOperator(n)

    def cast(self, n):
        if n.get("castKind") == "IntegralCast" and canon_type(strip_type(qt(n))) == "int" and \
                canon_type(strip_type(qt(n["inner"][0]))) in ("long", "long long") and getattr(self, "allow_long_to_int", False):
            # a `long` value stored into an `int`: value-preserving below 2^31 — 32-bit overflow is NOT modelled (as for every `int`)
            self.narrowed = True
            return self.e(n["inner"][0])
        if n.get("castKind") == "FloatingToIntegral":
            # `int(v)` / `(int) v` / implicit: truncation towards zero (undefined when the value does not fit): the function
            # `truncToInt` is a parameter of the generated constructor
            if canon_type(strip_type(qt(n))) != "int" or kind_of_type(qt(n["inner"][0])) != "real":
                raise Unsupported("conversion %s -> %s" % (qt(n["inner"][0]), qt(n)))
            self.uses_trunc = True
            return "(truncToInt %s)" % self.e(n["inner"][0])
        return super().cast(n)

    def subobj_value(self, n, lt):
        """`T(args)` / `{args}` for a sub-object member whose class has a generated constructor"""
        while n.get("kind") in ("MaterializeTemporaryExpr", "CXXBindTemporaryExpr", "ExprWithCleanups", "ParenExpr") or \
                (n.get("kind") in ("CXXFunctionalCastExpr", "ImplicitCastExpr") and n.get("castKind") in ("ConstructorConversion", "NoOp")) or \
                (n.get("kind") == "InitListExpr" and len(n.get("inner", [])) == 1):
            n = n["inner"][0]
        ct = canon_type(strip_type(qt(n)))
        if n.get("kind") not in ("CXXConstructExpr", "CXXTemporaryObjectExpr") or ct not in self.subctors or self.subctors[ct]["ret"] != lt:
            raise Unsupported("value of type %s (%s) for a sub-object member of Lean type %s" % (qt(n), n.get("kind"), lt))
        sc = self.subctors[ct]
        if canon_type(n.get("ctorType", {}).get("qualType", "")) != sc["sig"]:
            raise Unsupported("construction of %s through %s" % (ct, n.get("ctorType", {}).get("qualType")))
        args = [self.e(a) for a in n.get("inner", []) if a.get("kind") != "CXXDefaultArgExpr"]
        return "(%s %s)" % (sc["lean"], " ".join(args))

    def mvar(self, name):
        return "m_" + self.members[name][0]

    def mref(self, name, write=False):
        if name not in self.members:
            raise Unsupported("member %s is not in the unit's member table" % name)
        (self.writes if write else self.reads).add(name)
        v = self.mvar(name)
        if not write and v not in self.bound:
            raise Unsupported("member %s is read before it is initialised (or is not initialised on every path)" % name)
        return v

    def set_member(self, m, val):
        self.mref(m, write=True)
        v = self.mvar(m)
        if v not in self.bound:
            self.declare(v, self.members[m][1])
            return "let %s : %s := %s\n" % (v, self.members[m][1], val)
        self.note_assigned(v)
        return "let %s := %s\n" % (v, val)

    def bool_value(self, n):
        """Lean `Bool` for a C++ expression of type bool"""
        u = unwrap(n)
        if u.get("kind") == "CXXBoolLiteralExpr":
            return "true" if u["value"] else "false"
        if kind_of_type(qt(n)) != "bool":
            raise Unsupported("value of type %s for a bool" % qt(n))
        return "(decide %s)" % self.e(n)

    def assign(self, lhs, r, whole=False):
        m = self.member_of_obj(lhs)
        if m is not None and self.members.get(m, (0, ""))[1] == "Bool":
            raise Unsupported("assignment to the bool member %s outside CtorTr.stmts" % m)
        return super().assign(lhs, r, whole=whole)

    def stmts(self, lst, final, throws=False):
        if lst:
            s = lst[0]
            k = s.get("kind")
            for h in self.stmt_hooks:
                t = h(self, s)
                if t is not None:
                    return t + self.stmts(lst[1:], final)
            su = s
            while su.get("kind") == "ExprWithCleanups" and len(su.get("inner", [])) == 1:
                su = su["inner"][0]
            if su.get("kind") == "CXXOperatorCallExpr" and self.callee_name(su) == "operator=":
                m = self.member_of_obj(su["inner"][1])
                ct = canon_type(strip_type(qt(su["inner"][1])))
                if m is not None and ct in self.subctors:
                    sc = self.subctors[ct]
                    if canon_type(qt(unwrap(su["inner"][0]))) not in sc["assign"]:
                        raise Unsupported("assignment to the sub-object %s through %s" % (m, qt(unwrap(su["inner"][0]))))
                    v = self.subobj_value(su["inner"][2], self.members[m][1])
                    return self.flush() + self.set_member(m, v) + self.stmts(lst[1:], final)
            if k == "ReturnStmt":
                if s.get("inner"):
                    raise Unsupported("constructor returns a value")
                return self.obj_text()
            if k == "BinaryOperator" and s.get("opcode") == "=":
                m = self.member_of_obj(s["inner"][0])
                if m is not None and self.members.get(m, (0, ""))[1] == "Bool":
                    v = self.bool_value(s["inner"][1])
                    return self.flush() + self.set_member(m, v) + self.stmts(lst[1:], final)
        if not lst:
            return self.obj_text() if final == CTOR_END else final
        return super().stmts(lst, final)

    def obj_text(self):
        fs = []
        for m, (f, lt, _) in self.members.items():
            if self.mvar(m) not in self.bound:
                raise Unsupported("member %s has no value at the end of the constructor (on some path)" % m)
            fs.append("%s := %s" % (f, self.mvar(m)))
        return ("{ %s }" if getattr(self, "pure", False) else "(.ok { %s })") % ", ".join(fs)

    def init_value(self, m, n):
        """Lean value of the initialiser expression `n` for member `m`"""
        lt = self.members[m][1]
        k = n.get("kind")
        if k in ("ExprWithCleanups",):
            return self.init_value(m, n["inner"][0])
        if k == "InitListExpr":
            inner = n.get("inner", [])
            if lt in ("α", "Int", "Bool") and len(inner) == 1:
                return self.init_value(m, inner[0])
            if lt == "Cx α":
                return self.e(n)
            raise Unsupported("braced initialiser with %d elements for member %s : %s" % (len(inner), m, lt))
        if k == "ParenListExpr" and len(n.get("inner", [])) == 1:
            return self.init_value(m, n["inner"][0])
        if lt == "Bool":
            return self.bool_value(n)
        if lt in ("α", "Int", "Cx α"):
            if lean_type_of(qt(n)) != lt:
                raise Unsupported("initialiser of type %s for member %s : %s" % (qt(n), m, lt))
            return self.e(n)
        if lt in ("Array α", "Array (Cx α)"):
            return self.array_init(m, n)
        if lt in [sc["ret"] for sc in self.subctors.values()]:
            return self.subobj_value(n, lt)
        if lt in ("Array (Array α)", "Array Int"):
            u = unwrap(n)
            if u.get("kind") == "CXXConstructExpr" and not u.get("inner") and \
                    canon_type(u.get("ctorType", {}).get("qualType", "")) in ("void () noexcept", "void ()"):
                return "#[]"          # std::vector(): empty
        raise Unsupported("initialiser for member %s of type %s" % (m, self.members[m][2]))

    def array_init(self, m, n):
        lt = self.members[m][1]
        u = unwrap(n)
        if u.get("kind") != "CXXConstructExpr" or lean_type_of(qt(u)) != lt:
            raise Unsupported("initialiser of the array member %s: %s of type %s" % (m, u.get("kind"), qt(u)))
        ct = canon_type(u.get("ctorType", {}).get("qualType", ""))
        args = [a for a in u.get("inner", []) if a.get("kind") != "CXXDefaultArgExpr"]
        if ct == "void (int)" and len(args) == 1:
            # explicit base_array(int n) : _vec(n, 0)   (PINNED in unit StepsArray)
            self.prims.add("arrNew")
            return "(arrNew %s %s)" % (self.arr_default(lt), self.e(args[0]))
        if ct in ("void ()", "void () noexcept") and not args:
            default_array_ctor_is_empty()
            return "#[]"          # `base_array() = default;` with `std::vector<T> _vec;` (CHECKED): the empty array
        return self.e(u)            # copy / move construction from an array expression (StepTr.e_CXXConstructExpr)

    def init_phase(self, ctor):
        """the mem-initialiser phase: text of the `let`s, members in the order clang initialises them"""
        fields = {c["name"]: c for c in self.rec["inner"] if c.get("kind") == "FieldDecl"}
        order = [c["name"] for c in self.rec["inner"] if c.get("kind") == "FieldDecl"]
        text = ""
        seen = []
        for ci in [c for c in ctor.get("inner", []) if c.get("kind") == "CXXCtorInitializer"]:
            if "baseInit" in ci and canon_type(ci["baseInit"].get("qualType", "")) in self.empty_bases and len(ci.get("inner", [])) == 1 and \
                    ci["inner"][0].get("kind") == "CXXConstructExpr" and not ci["inner"][0].get("inner"):
                continue              # default construction of a base class without data members (CHECKED by the unit)
            if "anyInit" not in ci:
                raise Unsupported("base-class / delegating initialiser in the constructor")
            m = ci["anyInit"].get("name")
            if m not in self.members:
                raise Unsupported("initialiser for %s, which is not in the unit's member table" % m)
            seen.append(m)
            inner = [c for c in ci.get("inner", [])]
            if len(inner) != 1:
                raise Unsupported("initialiser of %s with %d expressions" % (m, len(inner)))
            n = inner[0]
            if n.get("kind") == "CXXDefaultInitExpr":
                fi = [c for c in fields[m].get("inner", []) if c.get("kind") not in ("FullComment",)]
                if len(fi) != 1:
                    raise Unsupported("default member initialiser of %s not found" % m)
                n = fi[0]
            val = self.init_value(m, n)
            text += self.flush() + self.set_member(m, val)
        if seen != [m for m in order if m in seen]:
            raise Unsupported("constructor initialisers are not in declaration order: %s" % seen)
        return text


CTOR_END = "\x00CTOR_END\x00"

_dflt_arr = []


def default_array_ctor_is_empty():
    """`base_array() = default;` and the only data member `std::vector<T> _vec;` has no default member initialiser"""
    if not _dflt_arr:
        ds = [d for d in clang_ast(ARR_TU, "base_array::base_array") if d.get("kind") == "CXXConstructorDecl" and not params_of(d)]
        fs = [d for d in clang_ast(ARR_TU, "base_array::_vec") if d.get("kind") == "FieldDecl" and d.get("name") == "_vec"]
        ok = len(ds) == 1 and ds[0].get("explicitlyDefaulted") == "default" and len(fs) == 1 and \
            canon_type(qt(fs[0])) == "std::vector<T>" and not [c for c in fs[0].get("inner", []) if c.get("kind") != "FullComment"]
        rec = record(clang_ast(ARR_TU, "base_array"), "base_array")
        ok = ok and [c["name"] for c in rec["inner"] if c.get("kind") == "FieldDecl"] == ["_vec"]
        _dflt_arr.append(ok)
    if not _dflt_arr[0]:
        raise Unsupported("base_array<T>: the default constructor is not `= default` over the single member `std::vector<T> _vec;`")
    return True


def gen_ctor(rec, ctor, table, lean, cxx_name, obj_struct, want_sig, doc_extra="", user_calls=None, emit_struct=True,
             subobj_types=None, setup=None, subctors=None, obj_pred=None, own_init=True, pure=False, ctor_label=None,
             defaults_from=None):
    """one constructor -> ([texts], CtorTr).  `want_sig`: canonical C++ signature of the constructor (CHECKED).
    `rec` holds the data members of the OBJECT (the class itself, or the pimpl record); `own_init` = False: the constructor's own
    mem-initialiser list is not the object's (pimpl: checked by the caller, the object is created by a statement hook);
    `pure`: a constructor that cannot throw -> the generated function returns the record itself."""
    order = check_members(rec, table, cxx_name)
    members = {}
    for m in order:
        lt = lean_type_of(table[m], subobj_types)
        if lt is None:
            raise Unsupported("%s::%s: C++ type %s has no Lean counterpart" % (cxx_name, m, table[m]))
        members[m] = (m.lstrip("_").rstrip("_"), lt, "%s %s" % (table[m], m))
    if canon_type(qt(ctor)) != want_sig:
        raise Unsupported("constructor of %s has signature `%s`, the unit expects `%s`" % (cxx_name, canon_type(qt(ctor)), want_sig))
    calls = steps_user_calls()
    eps = EpsCall()
    calls["eps"] = eps
    calls.update(user_calls or {})
    tr = CtorTr(members, user_calls=calls, rec=rec, obj_pred=obj_pred, subctors=subctors)
    tr.pure = pure
    if pure:
        tr.fallible = False
    tr.name_hint = lean
    ps = []
    defaults = []
    dparams = params_of(defaults_from) if defaults_from is not None else params_of(ctor)
    if [p_.get("name") for p_ in dparams] != [p_.get("name") for p_ in params_of(ctor)]:
        raise Unsupported("%s constructor: parameter names of the template pattern differ" % cxx_name)
    for p_, dp_ in zip(params_of(ctor), dparams):
        lt = lean_type_of(qt(p_))
        if lt is None or ("&" in qt(p_) and "const" not in qt(p_)) or "*" in qt(p_):
            raise Unsupported("%s constructor parameter %s : %s" % (cxx_name, p_.get("name"), qt(p_)))
        v = tr.var(p_["name"])
        if v.startswith("m_") or v in tr.bound or v == "truncToInt":
            raise Unsupported("%s constructor parameter named %s" % (cxx_name, v))
        if lt in ("Array α", "Array (Cx α)"):
            tr.arrays[p_["name"]] = (v, lt)
        tr.declare(v, lt)
        ps.append((v, lt, qt(p_)))
        dflt = [c for c in dp_.get("inner", []) if c.get("kind") not in ("FullComment",)]
        if dflt:
            if lt not in ("α", "Int"):
                raise Unsupported("%s constructor: default argument of %s : %s" % (cxx_name, p_["name"], qt(p_)))
            dtr = CtorTr({}, user_calls=steps_user_calls())
            defaults.append((v, lt, dtr.e(dflt[0])))
            if dtr.uses_trunc or dtr.pre:
                raise Unsupported("%s constructor: default argument of %s computes" % (cxx_name, p_["name"]))
    if setup:
        setup(tr)
    text = ""
    if own_init:
        text = tr.init_phase(ctor)
    body = [c for c in ctor.get("inner", []) if c.get("kind") == "CompoundStmt"]
    if len(body) != 1:
        raise Unsupported("%s constructor has no body" % cxx_name)
    text += tr.stmts([body[0]], CTOR_END)
    if CTOR_END in text or FALLOFF in text or tr.pre:
        raise Unsupported("%s constructor: unexpected shape" % cxx_name)
    out = []
    if emit_struct:
        out.append(struct_text(obj_struct, "ALL data members of `%s` (C++ declarations CHECKED against the translator's table): the object a constructor leaves" % cxx_name,
                               [members[m] for m in order]))
    out += tr.aux_defs
    extra = ("(eps : α) " if eps.used else "") + ("(truncToInt : α → Int) " if tr.uses_trunc else "") + \
        "".join("(%s : %s) " % (nm, ty) for nm, ty, _ in tr.extra_params)
    for nm, ty, doc in tr.extra_params:
        doc_extra += "\n`%s` = %s" % (nm, doc)
    label = ctor_label or cxx_name
    if tr.uses_trunc:
        doc_extra += ("\n`truncToInt` = the C++ conversion `real_t -> int` (truncation towards zero; undefined when the value does not fit an `int`).")
    if defaults:
        for v, lt, val in defaults:
            out.append("/-- default argument of the parameter `%s` of `%s::%s(…)` -/\ndef %sDefault_%s : %s := %s\n" % (
                v, label, label.split("<")[0], lean, v.rstrip("'"), lt, val))
    rt = ("%s α" % obj_struct) if pure else ("Except String (%s α)" % obj_struct)
    out.append("/-- `%s::%s(%s)`: %s the members of the constructed\n"
               "object.  Members are initialised in declaration order (mem-initialiser, else the default member initialiser), then the body runs.%s -/\n"
               "def %s %s%s : %s :=\n%s\n" % (
                   label, label.split("<")[0], ", ".join("%s %s" % (canon_type(t), v) for v, _, t in ps),
                   "(cannot throw)" if pure else "`.error` = the exception thrown (DSPLIB_ASSERT / DSPLIB_THROW), else", doc_extra,
                   lean, extra, " ".join("(%s : %s)" % (v, lt) for v, lt, _ in ps), rt, indent(text)))
    return out, tr


def ctors_of(rec, nparams=None, sig=None):
    cs = [c for c in rec["inner"] if c.get("kind") == "CXXConstructorDecl" and not c.get("isImplicit") and
          any(x.get("kind") == "CompoundStmt" for x in c.get("inner", []))]
    if sig is not None:
        cs = [c for c in cs if canon_type(qt(c)) == sig]
    if nparams is not None:
        cs = [c for c in cs if len(params_of(c)) == nparams]
    return cs


# ------------------------------------------------------------------------------------------
# unit: CtorTuner  (include/dsplib/tuner.h: Tuner::Tuner(int, real_t))

TUNER_TABLE = {"_fs": "int", "_freq": "real_t", "_periodic": "bool", "_phase": "long long"}


def gen_ctor_tuner():
    tu = "#include <dsplib/tuner.h>\n"
    out = [HEADER % "include/dsplib/tuner.h (constructor `Tuner::Tuner(int sample_rate, real_t freq)`)",
           "import DspVerif.Gen.StepsBase\n" + STEPS_HEAD[0], STEPS_HEAD[1]]
    rec = record(clang_ast(tu, "Tuner"), "Tuner")
    cs = ctors_of(rec)
    if len(cs) != 1:
        raise Unsupported("Tuner: expected exactly one user-written constructor, found %d" % len(cs))
    texts, tr = gen_ctor(rec, cs[0], TUNER_TABLE, "tunerCtor", "Tuner", "TunerObj", "void (int, real_t)")
    out += texts
    out.append("end Gen\nend Dsp\n")
    return "\n".join(out)


# ------------------------------------------------------------------------------------------
# unit: CtorDyn  (constructors of Compressor, Limiter, NoiseGate, MAFilter<real_t>, Agc)

COMPRESSOR_TABLE = {"T_": "const real_t", "R_": "const int", "W_": "const real_t", "wA_": "real_t", "wR_": "real_t", "gs_": "real_t"}
LIMITER_TABLE = {"T_": "const real_t", "W_": "const real_t", "wA_": "const real_t", "wR_": "const real_t", "gs_": "real_t"}
NOISEGATE_TABLE = {"tlin_": "const real_t", "wA_": "const real_t", "wR_": "const real_t", "tH_": "const int", "cA_": "int", "lg_": "real_t"}
MAFILTER_TABLE = {"_buf": "base_array<double>", "_n": "int", "_pos": "int", "_accum": "double"}
AGCIMPL_TABLE = {"trise": "real_t", "tfall": "real_t", "max_gain": "real_t", "target": "real_t", "gain": "real_t", "maflt": "MAFilterR"}


def gen_ctor_dyn():
    prefetch([(DYN_TU, "Compressor"), (DYN_TU, "Limiter"), (DYN_TU, "NoiseGate")] +
             [('#include "agc.cpp"\n', f) for f in ("MAFilter", "AgcImpl", "Agc::Agc", "dsplib::Agc")])
    out = [HEADER % "include/dsplib/audio/compressor.h, limiter.h, noise-gate.h (constructors), lib/ma-filter.h (`MAFilter<real_t>::MAFilter(int)`), "
                    "lib/agc.cpp (`Agc::Agc(real_t, real_t, int, real_t, real_t)`, `struct AgcImpl` default member initialisers)",
           "import DspVerif.Gen.StepsDyn\nimport DspVerif.Gen.StepsArray\n" + STEPS_HEAD[0], STEPS_HEAD[1]]
    for cls, lean, table, sig in (
            ("Compressor", "compressorCtor", COMPRESSOR_TABLE, "void (int, real_t, int, real_t, real_t, real_t)"),
            ("Limiter", "limiterCtor", LIMITER_TABLE, "void (int, real_t, real_t, real_t, real_t)"),
            ("NoiseGate", "noiseGateCtor", NOISEGATE_TABLE, "void (int, real_t, real_t, real_t, real_t)")):
        rec = record(clang_ast(DYN_TU, cls), cls)
        cs = ctors_of(rec)
        if len(cs) != 1:
            raise Unsupported("%s: expected exactly one user-written constructor, found %d" % (cls, len(cs)))
        texts, tr = gen_ctor(rec, cs[0], table, lean, cls, cls + "Obj", sig)
        out += texts
    # --- MAFilter<real_t>::MAFilter(int n)
    docs = clang_ast('#include "agc.cpp"\n', "MAFilter")
    tmpl = [d for d in docs if d.get("kind") == "ClassTemplateDecl" and d.get("name") == "MAFilter"]
    if len(tmpl) != 1:
        raise Unsupported("class template MAFilter not found")
    specs = [c for c in tmpl[0]["inner"] if c.get("kind") == "ClassTemplateSpecializationDecl" and
             [canon_type(qt(a)) for a in c.get("inner", []) if a.get("kind") == "TemplateArgument"] == ["double"] and
             any(x.get("kind") == "FieldDecl" for x in c.get("inner", []))]
    if len(specs) != 1:
        raise Unsupported("instantiation MAFilter<double> not found")
    mrec = specs[0]
    cs = ctors_of(mrec)
    if len(cs) != 1:
        raise Unsupported("MAFilter<real_t>: expected exactly one user-written constructor, found %d" % len(cs))
    texts, tr = gen_ctor(mrec, cs[0], MAFILTER_TABLE, "maFilterCtor", "MAFilter<real_t>", "MAFilterState", "void (int)", emit_struct=False, pure=True,
                         doc_extra="\n(`base_array(int n)` with a negative `n` throws `std::length_error` in C++: see `arrNew`.)")
    out += texts
    # the assignment `maflt = MAFilterR(n)` must be the implicit (memberwise) one
    asg = [m for m in mrec["inner"] if m.get("kind") == "CXXMethodDecl" and m.get("name") == "operator="]
    if not asg or any(not m.get("isImplicit") for m in asg):
        raise Unsupported("MAFilter<real_t> has a user-written operator=")
    subctors = {"MAFilterR": {"lean": "maFilterCtor", "sig": "void (int)", "ret": "MAFilterState α",
                              "assign": ["MAFilter<double> &(MAFilter<double> &&) noexcept", "MAFilter<double> &(const MAFilter<double> &)"]},
                }
    subctors["MAFilter<double>"] = subctors["MAFilterR"]
    # --- Agc::Agc(real_t target_level, real_t max_gain, int average_len, real_t t_rise, real_t t_fall): the object is `*_d` (AgcImpl)
    irec = record(clang_ast('#include "agc.cpp"\n', "AgcImpl"), "AgcImpl")
    arec = record(clang_ast('#include "agc.cpp"\n', "dsplib::Agc"), "Agc")
    if {c["name"]: canon_type(qt(c)) for c in arec["inner"] if c.get("kind") == "FieldDecl"} != {"_d": "std::shared_ptr<AgcImpl>"}:
        raise Unsupported("Agc: data members are not just `std::shared_ptr<AgcImpl> _d`")
    ictors = [c for c in irec["inner"] if c.get("kind") == "CXXConstructorDecl"]
    if any(not c.get("isImplicit") for c in ictors):
        raise Unsupported("AgcImpl has a user-written constructor")
    idef = [c for c in ictors if canon_type(qt(c)).startswith("void ()")]
    if len(idef) != 1 or not any(x.get("kind") == "CXXCtorInitializer" for x in idef[0].get("inner", [])):
        raise Unsupported("AgcImpl: implicit default constructor (with its member initialisers) not found")
    want = "void (real_t, real_t, int, real_t, real_t)"
    acs = [d for d in clang_ast('#include "agc.cpp"\n', "Agc::Agc") if d.get("kind") == "CXXConstructorDecl" and canon_type(qt(d)) == want and
           any(x.get("kind") == "CompoundStmt" for x in d.get("inner", []))]
    if len(acs) != 1:
        raise Unsupported("Agc::Agc(%s) not found" % want)
    actor = acs[0]
    inits = [c for c in actor.get("inner", []) if c.get("kind") == "CXXCtorInitializer"]
    if not (len(inits) == 1 and inits[0].get("anyInit", {}).get("name") == "_d" and len(inits[0].get("inner", [])) == 1 and
            inits[0]["inner"][0].get("kind") == "CXXConstructExpr" and not inits[0]["inner"][0].get("inner")):
        raise Unsupported("Agc::Agc: `_d` is not default-constructed (null) by the initialiser list")

    def is_d(n):
        """`_d` of `this`"""
        n = unwrap(n)
        return n.get("kind") == "MemberExpr" and n.get("name") == "_d" and unwrap(n["inner"][0]).get("kind") == "CXXThisExpr"

    def obj_pred(n):
        """`_d.operator->()` / `*_d`"""
        n = unwrap(n)
        if n.get("kind") == "CXXOperatorCallExpr" and len(n["inner"]) == 2:
            cal = unwrap(n["inner"][0])
            if cal.get("kind") == "DeclRefExpr" and cal.get("referencedDecl", {}).get("name") in ("operator->", "operator*"):
                return is_d(n["inner"][1])
        return False

    state = {"made": False}

    def make_hook(tr, st):
        """`_d = std::make_shared<AgcImpl>();` — creates the object: AgcImpl's implicit default constructor = its default member initialisers"""
        su = st
        while su.get("kind") == "ExprWithCleanups" and len(su.get("inner", [])) == 1:
            su = su["inner"][0]
        if not (su.get("kind") == "CXXOperatorCallExpr" and tr.callee_name(su) == "operator=" and is_d(su["inner"][1])):
            if find_all(st, lambda x: x.get("kind") == "MemberExpr" and x.get("name") == "_d" and not find_all(st, obj_pred)):
                raise Unsupported("Agc::Agc: `_d` used other than through `_d->member` / `_d = std::make_shared<AgcImpl>()`")
            return None
        rhs = su["inner"][2]
        while rhs.get("kind") in ("MaterializeTemporaryExpr", "CXXBindTemporaryExpr"):
            rhs = rhs["inner"][0]
        if not (rhs.get("kind") == "CallExpr" and tr.callee_name(rhs) == "make_shared" and len(rhs["inner"]) == 1 and
                canon_type(qt(rhs)) in ("shared_ptr<_NonArray<AgcImpl>>", "std::shared_ptr<AgcImpl>", "shared_ptr<AgcImpl>")):
            raise Unsupported("Agc::Agc: `_d` is assigned something other than `std::make_shared<AgcImpl>()`")
        if state["made"] or tr.frames or tr.bound & {tr.mvar(m) for m in tr.members}:
            raise Unsupported("Agc::Agc: `_d = std::make_shared<AgcImpl>()` is not the single, first statement touching the object")
        state["made"] = True
        return tr.init_phase(idef[0])

    def setup(tr):
        tr.stmt_hooks.append(make_hook)

    texts, tr = gen_ctor(irec, actor, AGCIMPL_TABLE, "agcCtor", "AgcImpl", "AgcObj", want, subobj_types={"MAFilterR": "MAFilterState α"},
                         subctors=subctors, obj_pred=obj_pred, own_init=False, setup=setup, ctor_label="Agc",
                         doc_extra="\nThe object is `*_d`: `_d = std::make_shared<AgcImpl>()` runs AgcImpl's implicit default constructor "
                                   "(the default member initialisers of `struct AgcImpl`), the statements behind assign its members.")
    if not state["made"]:
        raise Unsupported("Agc::Agc: `_d = std::make_shared<AgcImpl>()` not found")
    out += texts
    out.append("end Gen\nend Dsp\n")
    return "\n".join(out)


# ------------------------------------------------------------------------------------------
# unit: CtorAdaptive  (constructors of LmsFilter<T>, RlsFilter<T>, T = real_t and cmplx_t)


def template_specs(docs, name):
    """instantiations of the class template `name` that have data members: canonical template argument -> record"""
    specs = {}
    for d in docs:
        cands = [d] if d.get("kind") == "ClassTemplateSpecializationDecl" else \
            [c for c in d.get("inner", []) if c.get("kind") == "ClassTemplateSpecializationDecl"] if d.get("kind") == "ClassTemplateDecl" else []
        for c in cands:
            if c.get("name") == name and any(x.get("kind") == "FieldDecl" for x in c.get("inner", [])):
                ta = [canon_type(qt(a)) for a in c.get("inner", []) if a.get("kind") == "TemplateArgument"]
                if len(ta) == 1:
                    specs[ta[0]] = c
    return specs


def lms_table(targ):
    return {"_u": "base_array<%s>" % targ, "_w": "base_array<%s>" % targ, "_mu": "real_t", "_len": "int",
            "_locked": "bool", "_method": "LmsType", "_lk": "real_t"}


def rls_table(targ):
    return {"_n": "int", "_mu": "real_t", "_u": "base_array<%s>" % targ, "_w": "base_array<%s>" % targ,
            "_p": "base_array<%s>" % targ, "_locked": "bool"}


def gen_ctor_adaptive():
    prefetch([(LMS_TU, "LmsFilter"), (LMS_TU, "LmsType"), (RLS_TU, "RlsFilter")])
    out = [HEADER % "include/dsplib/lms.h (`LmsFilter<T>::LmsFilter(int, real_t, LmsType, real_t)`), include/dsplib/rls.h "
                    "(`RlsFilter<T>::RlsFilter(int, real_t, real_t)`), T = real_t and cmplx_t",
           "import DspVerif.Gen.StepsAdaptive\n" + STEPS_HEAD[0], STEPS_HEAD[1]]
    load_enum(LMS_TU, "LmsType")
    lspecs = template_specs(clang_ast(LMS_TU, "LmsFilter"), "LmsFilter")
    rspecs = template_specs(clang_ast(RLS_TU, "RlsFilter"), "RlsFilter")
    if sorted(lspecs) != ["cmplx_t", "double"] or sorted(rspecs) != ["cmplx_t", "double"]:
        raise Unsupported("LmsFilter / RlsFilter instantiations found: %s / %s" % (sorted(lspecs), sorted(rspecs)))
    for targ, suffix in (("double", "R"), ("cmplx_t", "C")):
        tname = "real_t" if targ == "double" else "cmplx_t"
        for specs, cls, lean, table, sig in (
                (lspecs, "LmsFilter", "lms%sCtor" % suffix, lms_table(targ), "void (int, real_t, LmsType, real_t)"),
                (rspecs, "RlsFilter", "rls%sCtor" % suffix, rls_table(targ), "void (int, real_t, real_t)")):
            rec = specs[targ]
            cs = ctors_of(rec)
            # default arguments are instantiated lazily: they are read from the constructor of the class template itself
            pat = ctors_of(record(clang_ast(LMS_TU if cls == "LmsFilter" else RLS_TU, cls), cls))
            if len(cs) != 1 or len(pat) != 1:
                raise Unsupported("%s<%s>: expected exactly one user-written constructor, found %d" % (cls, tname, len(cs)))
            texts, tr = gen_ctor(rec, cs[0], table, lean, "%s<%s>" % (cls, tname), "%s%sObj" % (cls, suffix), sig, pure=True, defaults_from=pat[0],
                                 doc_extra="\n(`base_array(int n)` with a negative `n` throws `std::length_error` in C++: see `arrNew`.)")
            out += texts
    out.append("end Gen\nend Dsp\n")
    return "\n".join(out)


# ------------------------------------------------------------------------------------------
# unit: CtorMedian  (lib/medfilt.cpp: MedianFilter::MedianFilter(int, real_t))

MEDIAN_TABLE = {"_d": "arr_real", "_s": "arr_real", "_i": "int", "_n": "const int"}


def gen_ctor_median():
    prefetch([(MED_TU, "MedianFilter"), (MED_TU, "MedianFilter::MedianFilter")])
    out = [HEADER % "lib/medfilt.cpp (`MedianFilter::MedianFilter(int n, real_t init_value)`), include/dsplib/medfilt.h (members, default arguments)",
           "import DspVerif.Gen.StepsMedian\n" + STEPS_HEAD[0], STEPS_HEAD[1]]
    rec = record(clang_ast(MED_TU, "MedianFilter"), "MedianFilter")
    want = "void (int, real_t)"
    cs = [d for d in clang_ast(MED_TU, "MedianFilter::MedianFilter") if d.get("kind") == "CXXConstructorDecl" and canon_type(qt(d)) == want and
          any(x.get("kind") == "CompoundStmt" for x in d.get("inner", []))]
    decl = ctors_of_decl(rec, want)
    if len(cs) != 1 or len(decl) != 1:
        raise Unsupported("MedianFilter::MedianFilter(int, real_t) not found")
    texts, tr = gen_ctor(rec, cs[0], MEDIAN_TABLE, "medianCtor", "MedianFilter", "MedianFilterObj", want, defaults_from=decl[0])
    out += texts
    out.append("end Gen\nend Dsp\n")
    return "\n".join(out)


def ctors_of_decl(rec, sig):
    """constructor DECLARATIONS (with or without body) of the record with the given canonical signature"""
    return [c for c in rec["inner"] if c.get("kind") == "CXXConstructorDecl" and not c.get("isImplicit") and canon_type(qt(c)) == sig]


# ------------------------------------------------------------------------------------------
# unit: CtorFir  (include/dsplib/fir.h: FirFilter<T>::FirFilter(const base_array<T>&), T = real_t and cmplx_t)


def fir_table(targ):
    return {"_h": "base_array<%s>" % targ, "_d": "base_array<%s>" % targ}


def gen_ctor_fir():
    prefetch([(FIR_TU, "FirFilter")])
    out = [HEADER % "include/dsplib/fir.h (`FirFilter<T>::FirFilter(const base_array<T>& h)`, T = real_t and cmplx_t)",
           "import DspVerif.Gen.StepsFir\n" + STEPS_HEAD[0], STEPS_HEAD[1]]
    specs = template_specs(clang_ast(FIR_TU, "FirFilter"), "FirFilter")
    if sorted(specs) != ["cmplx_t", "double"]:
        raise Unsupported("FirFilter instantiations found: %s" % sorted(specs))
    for targ, suffix in (("double", "R"), ("cmplx_t", "C")):
        tname = "real_t" if targ == "double" else "cmplx_t"
        cs = ctors_of(specs[targ])
        if len(cs) != 1:
            raise Unsupported("FirFilter<%s>: expected exactly one user-written constructor, found %d" % (tname, len(cs)))
        texts, tr = gen_ctor(specs[targ], cs[0], fir_table(targ), "fir%sCtor" % suffix, "FirFilter<%s>" % tname, "FirFilter%sState" % suffix,
                             "void (const base_array<%s> &)" % targ, emit_struct=False, pure=True,
                             doc_extra="\n(`base_array(int n)` with a negative `n` — an EMPTY tap vector — throws `std::length_error` in C++: see `arrNew`.)")
        out += texts
    out.append("end Gen\nend Dsp\n")
    return "\n".join(out)


# ------------------------------------------------------------------------------------------
# unit: CtorDelay  (include/dsplib/delay.h: the two constructors of Delay<T>; lib/hilbert.cpp: the two constructors of HilbertFilter,
#                   `real_hilbert`; lib/math.cpp: `imag(const arr_cmplx&)`)

CTOR_ARRAY_PINS = {
    # template<class T2, class R = ResultType<T, T2>> base_array<R> operator*(const T2& rhs) const { auto temp = array_cast<R>(*this); temp *= rhs; return temp; }
    "operator*(scalar)": ['8b16af5baef10f1e'],
    # … base_array<R>& operator*=(const T2& rhs) noexcept { static_assert(is_same<T, R>); for (size_t i = 0; i < _vec.size(); ++i) _vec[i] *= rhs; return *this; }
    "operator*=(scalar)": ['1c662ebbb8065664'],
}


def gen_ctor_delay():
    prefetch([(DELAY_TU, "Delay"), (DELAY_TU, "HilbertFilter"), (DELAY_TU, "HilbertFilter::HilbertFilter"), (DELAY_TU, "real_hilbert"),
              (DELAY_TU, "FirType"), ('#include "math.cpp"\n', "dsplib::imag"), (ARR_TU, "base_array::operator*")])
    has_body = lambda d: any(c.get("kind") == "CompoundStmt" for c in d.get("inner", []))
    out = [HEADER % "include/dsplib/delay.h (`Delay<T>::Delay(int)`, `Delay<T>::Delay(const base_array<T>&)`, T = real_t and cmplx_t), "
                    "lib/hilbert.cpp (`HilbertFilter::HilbertFilter(const arr_real&)`, `HilbertFilter::HilbertFilter(int, real_t)`, `real_hilbert`), "
                    "lib/math.cpp (`imag(const arr_cmplx&)`), include/dsplib/keywords.h (`enum class FirType`), include/dsplib/array.h (`operator*(scalar)` — PINNED)",
           "import DspVerif.Gen.StepsDelay\nimport DspVerif.Gen.CtorFir\n" + STEPS_HEAD[0], STEPS_HEAD[1]]
    specs = template_specs(clang_ast(DELAY_TU, "Delay"), "Delay")
    if sorted(specs) != ["cmplx_t", "double"]:
        raise Unsupported("Delay instantiations found: %s" % sorted(specs))
    for targ, suffix in (("double", "R"), ("cmplx_t", "C")):
        tname = "real_t" if targ == "double" else "cmplx_t"
        cs = ctors_of(specs[targ])
        sigs = sorted(canon_type(qt(c)) for c in cs)
        if sigs != sorted(["void (int)", "void (const dsplib::base_array<%s> &)" % targ.replace("cmplx_t", "cmplx_t")]) and \
                sigs != sorted(["void (int)", "void (const base_array<%s> &)" % targ]):
            raise Unsupported("Delay<%s>: constructors found: %s" % (tname, sigs))
        for c in cs:
            by_len = canon_type(qt(c)) == "void (int)"
            texts, tr = gen_ctor(specs[targ], c, {"_buffer": "base_array<%s>" % targ}, "delay%sCtor%s" % (suffix, "Len" if by_len else "Init"),
                                 "Delay<%s>" % tname, "Delay%sState" % suffix, canon_type(qt(c)), emit_struct=False, pure=True,
                                 doc_extra="\n(`base_array(int n)` with a negative `n` throws `std::length_error` in C++: see `arrNew`.)" if by_len else "")
            out += texts
    # --- enum class FirType
    vals = load_enum(DELAY_TU, "FirType")
    out.append("/-! `enum class FirType : int` (values of that type are `Int`s holding the enumerator value) -/\n" +
               "\n".join("def FirType_%s : Int := %d" % (k, v) for k, v in vals.items()) + "\n")
    # --- imag(const arr_cmplx&) of lib/math.cpp (translated)
    fs = [d for d in clang_ast('#include "math.cpp"\n', "dsplib::imag") if d.get("kind") == "FunctionDecl" and d.get("name") == "imag" and has_body(d) and
          canon_type(qt(d)) == "arr_real (const arr_cmplx &)"]
    if len(fs) != 1:
        raise Unsupported("imag(const arr_cmplx&) not found")
    tr = StepTr(members={}, single=True, user_calls=steps_user_calls(), effect=False)
    tr.bound = set()
    pn = params_of(fs[0])[0]["name"]
    pv = tr.var(pn)
    tr.arrays[pn] = (pv, "Array (Cx α)")
    tr.bound.add(pv)
    tr.decl_order.append(pv)
    tr.types[pv] = "Array (Cx α)"
    tr.name_hint = "imagArr"
    body = tr.stmts([body_of(fs[0])], FALLOFF)
    if FALLOFF in body or tr.pre or tr.writes or tr.uninit:
        raise Unsupported("imag(const arr_cmplx&): unexpected shape")
    out += tr.aux_defs
    out.append("/-- `arr_real imag(const arr_cmplx& %s)` of lib/math.cpp -/\ndef imagArr (%s : Array (Cx α)) : Array α :=\n%s\n" % (pn, pv, indent(body)))
    # --- arr_real * int  (PINNED templates of base_array)
    scalar_tmpl = lambda nm: (lambda d: d.get("kind") == "FunctionTemplateDecl" and d.get("name") == nm and
                              [canon_type(qt(p_)) for f in d["inner"] if f.get("kind") == "CXXMethodDecl" for p_ in params_of(f)][:1] == ["const T2 &"])
    pinned(ARR_TU, "base_array::operator*", scalar_tmpl("operator*"), "operator*(scalar)", CTOR_ARRAY_PINS, "base_array<T>::operator*(const T2&)")
    pinned(ARR_TU, "base_array::operator*", scalar_tmpl("operator*="), "operator*=(scalar)", CTOR_ARRAY_PINS, "base_array<T>::operator*=(const T2&)")
    out.append("/-- `arr_real * int`: `base_array<T>::operator*(const T2&)` = `array_cast` copy, then `operator*=`: `_vec[i] *= rhs` for every `i`\n"
               "(PINNED; `double *= int` converts the `int`) -/\n"
               "def arrMulRI (a : Array α) (k : Int) : Array α := a.map fun v => v * (Fn.ofInt k)\n")
    # --- real_hilbert(const arr_cmplx& h)  (anonymous namespace of lib/hilbert.cpp)
    fs = [d for d in clang_ast(DELAY_TU, "real_hilbert") if d.get("kind") == "FunctionDecl" and d.get("name") == "real_hilbert" and has_body(d)]
    if len(fs) != 1 or canon_type(qt(fs[0])) != "arr_real (const arr_cmplx &)":
        raise Unsupported("real_hilbert(const arr_cmplx&) not found")
    calls = steps_user_calls()

    def imag_call(a, n):
        if canon_type(qt(unwrap(n["inner"][0]))) != "arr_real (const arr_cmplx &)" or len(a) != 1:
            raise Unsupported("call of imag with signature %s" % qt(unwrap(n["inner"][0])))
        return "(imagArr %s)" % a[0]
    calls["imag"] = imag_call
    tr = StepTr(members={}, single=True, user_calls=calls, effect=False)
    tr.bound = set()
    pn = params_of(fs[0])[0]["name"]
    pv = tr.var(pn)
    tr.arrays[pn] = (pv, "Array (Cx α)")
    tr.bound.add(pv)
    tr.decl_order.append(pv)
    tr.types[pv] = "Array (Cx α)"
    tr.name_hint = "hilbertRealHilbert"
    b = [c for c in body_of(fs[0]).get("inner", [])]
    if len(b) != 1 or b[0].get("kind") != "ReturnStmt":
        raise Unsupported("real_hilbert: body is not a single return")
    ex = b[0]["inner"][0]
    while ex.get("kind") in ("ExprWithCleanups", "CXXBindTemporaryExpr", "MaterializeTemporaryExpr") or \
            (ex.get("kind") == "CXXConstructExpr" and len(ex.get("inner", [])) == 1 and lean_type_of(qt(ex)) == "Array α"):
        ex = ex["inner"][0]
    if not (ex.get("kind") == "CXXOperatorCallExpr" and tr.callee_name(ex) == "operator*" and len(ex["inner"]) == 3 and
            canon_type(qt(unwrap(ex["inner"][0]))) == "base_array<double> (const int &) const"):
        raise Unsupported("real_hilbert: does not return `<arr_real> * <int>`")
    k_ = ex["inner"][2]
    while k_.get("kind") in ("MaterializeTemporaryExpr",) or (k_.get("kind") == "ImplicitCastExpr" and k_.get("castKind") == "NoOp"):
        k_ = k_["inner"][0]
    a_ = ex["inner"][1]
    while a_.get("kind") in ("MaterializeTemporaryExpr", "CXXBindTemporaryExpr") or (a_.get("kind") == "ImplicitCastExpr" and a_.get("castKind") == "NoOp"):
        a_ = a_["inner"][0]
    if kind_of_type(qt(k_)) != "int" or lean_type_of(qt(a_)) != "Array α":
        raise Unsupported("real_hilbert: operands of `*` are %s, %s" % (qt(a_), qt(k_)))
    out.append("/-- `arr_real real_hilbert(const arr_cmplx& %s)` of lib/hilbert.cpp -/\ndef hilbertRealHilbert (%s : Array (Cx α)) : Array α :=\n  (arrMulRI %s %s)\n" % (
        pn, pv, tr.e(a_), tr.e(k_)))
    # --- HilbertFilter::HilbertFilter(const arr_real& h)
    rec = record(clang_ast(DELAY_TU, "HilbertFilter"), "HilbertFilter")
    cdocs = [d for d in clang_ast(DELAY_TU, "HilbertFilter::HilbertFilter") if d.get("kind") == "CXXConstructorDecl" and has_body(d)]
    taps = [d for d in cdocs if canon_type(qt(d)) == "void (const arr_real &)"]
    design = [d for d in cdocs if canon_type(qt(d)) == "void (int, real_t)"]
    if len(taps) != 1 or len(design) != 1 or len([d for d in cdocs if not d.get("isImplicit")]) != 2:
        raise Unsupported("HilbertFilter: constructors with a body found: %s" % [canon_type(qt(d)) for d in cdocs])
    subctors = {}
    for k in ("FirFilter<real_t>", "FirFilter<double>"):
        subctors[k] = {"lean": "firRCtor", "sig": "void (const base_array<double> &)", "ret": "FirFilterRState α", "assign": []}
    for k in ("DelayReal", "Delay<double>", "Delay<real_t>"):
        subctors[k] = {"lean": "delayRCtorLen", "sig": "void (int)", "ret": "DelayRState α", "assign": []}

    def firtype_call(a, n, holder={}):
        if canon_type(qt(unwrap(n["inner"][0]))) != "FirType (const arr_real &)" or len(a) != 1:
            raise Unsupported("call of firtype with signature %s" % qt(unwrap(n["inner"][0])))
        return "(firtype %s)" % a[0]

    def setup(tr):
        tr.extra_params.append(("firtype", "Array α → Int", "`FirType firtype(const arr_real&)` of lib/fir.cpp (NOT translated: a parameter; the "
                                "enumerators are `FirType_*`)"))
    texts, tr = gen_ctor(rec, taps[0], {"_fir": "FirFilter<real_t>", "_d": "DelayReal"}, "hilbertCtorTaps", "HilbertFilter", "HilbertFilterState",
                         "void (const arr_real &)", emit_struct=False, subctors=subctors, setup=setup, user_calls={"firtype": firtype_call},
                         subobj_types={"FirFilter<real_t>": "FirFilterRState α", "DelayReal": "DelayRState α"})
    out += texts
    # --- HilbertFilter::HilbertFilter(int flen, real_t tw): delegates to the constructor above
    decl = ctors_of_decl(rec, "void (int, real_t)")
    if len(decl) != 1:
        raise Unsupported("HilbertFilter(int, real_t): declaration not found")
    dc = design[0]
    inits = [c for c in dc.get("inner", []) if c.get("kind") == "CXXCtorInitializer"]
    bodyd = [c for c in body_of(dc).get("inner", []) if c.get("kind") != "NullStmt"]
    if len(inits) != 1 or "anyInit" in inits[0] or "baseInit" in inits[0] or bodyd:
        raise Unsupported("HilbertFilter(int, real_t) is not a delegating constructor with an empty body")
    ce = inits[0]["inner"][0]
    while ce.get("kind") == "ExprWithCleanups":
        ce = ce["inner"][0]
    if not (ce.get("kind") == "CXXConstructExpr" and canon_type(ce.get("ctorType", {}).get("qualType", "")) == "void (const arr_real &)" and
            canon_type(strip_type(qt(ce))) == "HilbertFilter" and len(ce.get("inner", [])) == 1):
        raise Unsupported("HilbertFilter(int, real_t) does not delegate to HilbertFilter(const arr_real&)")
    strip_tmp = lambda x: strip_tmp(x["inner"][0]) if (x.get("kind") in ("MaterializeTemporaryExpr", "CXXBindTemporaryExpr") or
                                                       (x.get("kind") == "ImplicitCastExpr" and x.get("castKind") == "NoOp")) else x
    rh = strip_tmp(ce["inner"][0])
    if not (rh.get("kind") == "CallExpr" and Tr().callee_name(rh) == "real_hilbert" and len(rh["inner"]) == 2):
        raise Unsupported("HilbertFilter(int, real_t): the taps are not `real_hilbert(…)`")
    df = strip_tmp(rh["inner"][1])
    if not (df.get("kind") == "CallExpr" and Tr().callee_name(df) == "design_fir" and len(df["inner"]) == 4 and
            canon_type(qt(unwrap(df["inner"][0]))) == "arr_cmplx (int, real_t, real_t)"):
        raise Unsupported("HilbertFilter(int, real_t): the argument of real_hilbert is not `design_fir(int, real_t, real_t)`")
    dtr = CtorTr({}, user_calls=steps_user_calls())
    ps = []
    for p_ in params_of(dc):
        v = dtr.var(p_["name"])
        dtr.declare(v, lean_type_of(qt(p_)))
        ps.append((v, lean_type_of(qt(p_))))
    dargs = [dtr.e(a) for a in df["inner"][1:]]
    if dtr.pre or dtr.uses_trunc:
        raise Unsupported("HilbertFilter(int, real_t): arguments of design_fir compute")
    for p_, dp_ in zip(params_of(dc), params_of(decl[0])):
        dflt = [c for c in dp_.get("inner", []) if c.get("kind") not in ("FullComment",)]
        if dflt:
            out.append("/-- default argument of the parameter `%s` of `HilbertFilter::HilbertFilter(int, real_t)` -/\ndef hilbertCtorDesignDefault_%s : %s := %s\n" % (
                p_["name"], p_["name"], lean_type_of(qt(p_)), CtorTr({}, user_calls=steps_user_calls()).e(dflt[0])))
    out.append("/-- `HilbertFilter::HilbertFilter(int flen, real_t tw)`: delegates to `HilbertFilter(real_hilbert(HilbertFilter::design_fir(%s)))`.\n"
               "`designFir` = `HilbertFilter::design_fir(int, real_t, real_t)` (NOT translated: a parameter; `.error` = it throws) -/\n"
               "def hilbertCtorDesign (firtype : Array α → Int) (designFir : Int → α → α → Except String (Array (Cx α))) %s : Except String (HilbertFilterState α) :=\n"
               "  match designFir %s with\n  | .error err => (.error err)\n  | .ok hh => hilbertCtorTaps firtype (hilbertRealHilbert hh)\n" % (
                   ", ".join(dargs), " ".join("(%s : %s)" % (v, lt) for v, lt in ps), " ".join(dargs)))
    out.append("end Gen\nend Dsp\n")
    return "\n".join(out)


# ------------------------------------------------------------------------------------------
# unit: CtorResample  (lib/resample/resample.cpp `IResampler::polyphase`; include/dsplib/utils.h `zeropad`; the constructors of
#                      FIRDecimator, FIRInterpolator, FIRRateConverter)

RESAMPLE_CTOR_TU = RESAMPLE_TU + '#include "resample/resample.cpp"\n'

RESAMPLE_PINS = {
    # arr_real flip(const arr_real& x) { arr_real r(x); std::reverse(r.begin(), r.end()); return r; }   (lib/utils.cpp)
    "flip(arr_real)": ['5f5917a52b13a24f'],
}


def gen_free_fn(f, lname, doc, calls=None, fallible=False, fallible_fns=None, ret_lt=None):
    """a free / static function over arrays and scalars -> (texts, StepTr).  Array parameters by const reference are read-only
    arrays, array parameters BY VALUE are locals of the function; `bool` parameters are `Bool`s."""
    tr = StepTr(members={}, single=True, user_calls=calls or steps_user_calls(), effect=False)
    tr.bound = set()
    tr.fallible = fallible
    tr.loop_param_order = "decl"
    tr.fallible_fns = dict(fallible_fns or {})
    args = []
    for p_ in params_of(f):
        lt = lean_type_of(qt(p_))
        if kind_of_type(qt(p_)) == "bool":
            lt = "Bool"
        if lt is None or "*" in qt(p_) or ("&" in qt(p_) and "const" not in qt(p_)):
            raise Unsupported("%s: parameter %s : %s" % (f.get("name"), p_.get("name"), qt(p_)))
        v = tr.var(p_["name"])
        if v in tr.bound:
            raise Unsupported("%s: duplicate parameter name %s" % (f.get("name"), v))
        if lt in ("Array α", "Array (Cx α)"):
            if "&" in qt(p_):
                tr.arrays[p_["name"]] = (v, lt)
            else:
                tr.local_arrays[p_["name"]] = (v, lt)
                tr.local_const[p_["name"]] = "const" in qt(p_)
        tr.bound.add(v)
        tr.decl_order.append(v)
        tr.types[v] = lt
        args.append("(%s : %s)" % (v, lt))
    tr.name_hint = lname
    body = tr.stmts([body_of(f)], FALLOFF)
    if FALLOFF in body or tr.pre or tr.writes or tr.uninit:
        raise Unsupported("%s: unexpected shape (control reaches the end / effect / unassigned local)" % f.get("name"))
    rt = ret_lt
    texts = list(tr.aux_defs)
    texts.append("/-- %s%s -/\ndef %s %s : %s :=\n%s\n" % (
        doc, ": `.error` = the exception thrown" if fallible else "", lname, " ".join(args),
        ("Except String (%s)" % rt) if fallible else rt, indent(body)))
    return texts, tr


def gen_ctor_resample():
    classes = (
        ("FIRDecimator", "firDecimCtor", {"h_": "std::vector<arr_real>", "d_": "arr_real", "decim_": "int", "sublen_": "int"},
         "void (int, const arr_real &)", "void (int)"),
        ("FIRInterpolator", "firInterpCtor", {"h_": "std::vector<arr_real>", "d_": "arr_real", "interp_": "int", "sublen_": "int"},
         "void (int, const arr_real &)", "void (int)"),
        ("FIRRateConverter", "firRateCtor", {"h_": "std::vector<arr_real>", "d_": "arr_real", "interp_": "int", "decim_": "int",
                                             "sublen_": "int", "xidxs_": "std::vector<int>"},
         "void (int, int, const arr_real &)", "void (int, int)"),
    )
    prefetch([(RESAMPLE_CTOR_TU, c[0]) for c in classes] + [(RESAMPLE_CTOR_TU, c[0] + "::" + c[0]) for c in classes] +
             [(RESAMPLE_CTOR_TU, "IResampler::polyphase"), (RESAMPLE_CTOR_TU, "dsplib::zeropad"), (RESAMPLE_CTOR_TU, "IResampler"),
              ('#include "utils.cpp"\n', "dsplib::flip")])
    has_body = lambda d: any(c.get("kind") == "CompoundStmt" for c in d.get("inner", []))
    out = [HEADER % "lib/resample/resample.cpp (`IResampler::polyphase`), include/dsplib/utils.h (`zeropad<real_t>`), lib/utils.cpp (`flip` — PINNED), "
                    "lib/resample/fir-decimator.cpp, fir-interpolator.cpp, fir-rate-converter.cpp (constructors), include/dsplib/resample.h (members)",
           "import DspVerif.Gen.StepsResample\n" + STEPS_HEAD[0], STEPS_HEAD[1]]
    out.append("/-- `std::vector<T>(size_type n, const T& v)`: `n` copies of `v` (the `int` argument converts to `size_type`: a negative one is a huge\n"
               "size and `std::vector` throws; here the empty vector) -/\n"
               "def vecNew {β : Type} (n : Int) (v : β) : Array β := Array.replicate n.toNat v\n")
    out.append("/-- `v.push_back(x)` / `v.emplace_back(x)` on a `std::vector`: `x` (a copy) is appended -/\n"
               "def vecPush {β : Type} (v : Array β) (x : β) : Array β := v.push x\n")
    pinned('#include "utils.cpp"\n', "dsplib::flip", lambda d: d.get("kind") == "FunctionDecl" and d.get("name") == "flip" and has_body(d) and
           canon_type(qt(d)) == "arr_real (const arr_real &)", "flip(arr_real)", RESAMPLE_PINS, "flip(const arr_real&) of lib/utils.cpp")
    out.append("/-- `arr_real flip(const arr_real& x)` of lib/utils.cpp (PINNED): a copy of `x`, then `std::reverse(r.begin(), r.end())` -/\n"
               "def arrFlip {β : Type} (x : Array β) : Array β := x.reverse\n")
    # --- zeropad<real_t>(const base_array<T>& x, int n)
    zs = [t for t in clang_ast(RESAMPLE_CTOR_TU, "dsplib::zeropad") if t.get("kind") == "FunctionTemplateDecl" and t.get("name") == "zeropad"]
    if len(zs) != 1:
        raise Unsupported("function template zeropad not found")
    zi = [c for c in zs[0]["inner"] if c.get("kind") == "FunctionDecl" and has_body(c) and
          [canon_type(qt(a)) for a in c.get("inner", []) if a.get("kind") == "TemplateArgument"] == ["double"]]
    zsig = "base_array<double> (const base_array<double> &, int)"
    if len(zi) != 1 or canon_type(qt(zi[0])) != zsig:
        raise Unsupported("instantiation zeropad<real_t> not found")
    texts, ztr = gen_free_fn(zi[0], "zeropadR", "`base_array<T> zeropad(const base_array<T>& x, int n)` of include/dsplib/utils.h at `T = real_t`",
                             fallible=True, ret_lt="Array α")
    out += texts
    # --- IResampler::polyphase(arr_real h, int m, real_t gain, bool flip_coeffs)
    psig = "std::vector<arr_real> (arr_real, int, real_t, bool)"
    pf = [d for d in clang_ast(RESAMPLE_CTOR_TU, "IResampler::polyphase") if d.get("kind") == "CXXMethodDecl" and d.get("name") == "polyphase" and
          has_body(d) and canon_type(qt(d)) == psig]
    if len(pf) != 1:
        raise Unsupported("IResampler::polyphase(arr_real, int, real_t, bool) not found")
    calls = steps_user_calls()

    def flip_call(a, n):
        if canon_type(qt(unwrap(n["inner"][0]))) != "arr_real (const arr_real &)" or len(a) != 1:
            raise Unsupported("call of flip with signature %s" % qt(unwrap(n["inner"][0])))
        return "(arrFlip %s)" % a[0]
    calls["flip"] = flip_call
    texts, ptr = gen_free_fn(pf[0], "polyphase", "`std::vector<arr_real> IResampler::polyphase(arr_real h, int m, real_t gain, bool flip_coeffs)` of lib/resample/resample.cpp",
                             calls=calls, fallible=True, fallible_fns={"zeropad": {zsig: "zeropadR"}}, ret_lt="Array (Array α)")
    out += texts
    # default arguments of polyphase (declaration in resample.h)
    for p_ in params_of(pf[0]):
        dflt = [c for c in p_.get("inner", []) if c.get("kind") not in ("FullComment",)]
        if dflt:
            u = unwrap(dflt[0])
            val = ("true" if u["value"] else "false") if u.get("kind") == "CXXBoolLiteralExpr" else CtorTr({}, user_calls=steps_user_calls()).e(dflt[0])
            out.append("/-- default argument of the parameter `%s` of `IResampler::polyphase` -/\ndef polyphaseDefault_%s : %s := %s\n" % (
                p_["name"], p_["name"], "Bool" if kind_of_type(qt(p_)) == "bool" else lean_type_of(qt(p_)), val))
    # --- the constructors
    irec = record(clang_ast(RESAMPLE_CTOR_TU, "IResampler"), "IResampler")
    if [c for c in irec["inner"] if c.get("kind") == "FieldDecl"] or [c for c in irec.get("bases", [])]:
        raise Unsupported("IResampler has data members / base classes")
    for cls, lean, table, sig, dsig in classes:
        rec = record(clang_ast(RESAMPLE_CTOR_TU, cls), cls)
        if [canon_type(b.get("type", {}).get("qualType", "")) for b in rec.get("bases", [])] != ["IResampler"]:
            raise Unsupported("%s: base classes are not just IResampler" % cls)
        cdocs = [d for d in clang_ast(RESAMPLE_CTOR_TU, cls + "::" + cls) if d.get("kind") == "CXXConstructorDecl" and has_body(d) and not d.get("isImplicit")]
        main = [d for d in cdocs if canon_type(qt(d)) == sig]
        dele = [d for d in cdocs if canon_type(qt(d)) == dsig]
        if len(main) != 1 or len(dele) != 1 or len(cdocs) != 2:
            raise Unsupported("%s: constructors with a body found: %s" % (cls, [canon_type(qt(d)) for d in cdocs]))

        def setup(tr):
            tr.empty_bases.add("IResampler")
            tr.fallible_fns = {"polyphase": {psig: "polyphase"}}
        texts, tr = gen_ctor(rec, main[0], table, lean, cls, cls + "State", sig, emit_struct=False, setup=setup)
        out += texts
        # the delegating constructor: `C(args) : C(args, design_multirate_fir(p, q))`
        dc = dele[0]
        inits = [c for c in dc.get("inner", []) if c.get("kind") == "CXXCtorInitializer"]
        bodyd = [c for c in body_of(dc).get("inner", []) if c.get("kind") != "NullStmt"]
        if len(inits) != 1 or "anyInit" in inits[0] or "baseInit" in inits[0] or bodyd:
            raise Unsupported("%s(%s) is not a delegating constructor with an empty body" % (cls, dsig))
        ce = inits[0]["inner"][0]
        while ce.get("kind") == "ExprWithCleanups":
            ce = ce["inner"][0]
        if not (ce.get("kind") == "CXXConstructExpr" and canon_type(ce.get("ctorType", {}).get("qualType", "")) == sig and
                canon_type(strip_type(qt(ce))) == cls):
            raise Unsupported("%s(%s) does not delegate to %s(%s)" % (cls, dsig, cls, sig))
        dtr = CtorTr({}, user_calls=steps_user_calls())
        ps = []
        for p_ in params_of(dc):
            v = dtr.var(p_["name"])
            dtr.declare(v, lean_type_of(qt(p_)))
            ps.append((v, lean_type_of(qt(p_))))
        dargs = []
        for a in ce["inner"]:
            a_ = a
            while a_.get("kind") in ("MaterializeTemporaryExpr", "CXXBindTemporaryExpr") or (a_.get("kind") == "ImplicitCastExpr" and a_.get("castKind") == "NoOp"):
                a_ = a_["inner"][0]
            if a_.get("kind") == "CallExpr" and Tr().callee_name(a_) == "design_multirate_fir":
                if canon_type(qt(unwrap(a_["inner"][0]))) != "arr_real (int, int, int, real_t)" or len(a_["inner"]) != 5 or \
                        [x.get("kind") for x in a_["inner"][3:]] != ["CXXDefaultArgExpr", "CXXDefaultArgExpr"]:
                    raise Unsupported("%s(%s): call of design_multirate_fir is not `design_multirate_fir(p, q)` with the default hlen, astop" % (cls, dsig))
                dargs.append("(designMultirateFir %s %s)" % (dtr.e(a_["inner"][1]), dtr.e(a_["inner"][2])))
            else:
                dargs.append(dtr.e(a_))
        if dtr.pre or dtr.uses_trunc or not any(x.startswith("(designMultirateFir") for x in dargs):
            raise Unsupported("%s(%s): unexpected arguments of the delegation" % (cls, dsig))
        out.append("/-- `%s::%s(%s)`: delegates to `%s(%s)`.\n`designMultirateFir p q` = `design_multirate_fir(p, q)` with its default `hlen`, `astop` "
                   "(NOT translated: a parameter; its meaning belongs to C11) -/\n"
                   "def %sDesign (designMultirateFir : Int → Int → Array α) %s : Except String (%sState α) :=\n  %s %s\n" % (
                       cls, cls, ", ".join("int " + v for v, _ in ps), cls, ", ".join(dargs),
                       lean, " ".join("(%s : %s)" % (v, lt) for v, lt in ps), cls, lean, " ".join(dargs)))
    out.append("end Gen\nend Dsp\n")
    return "\n".join(out)


# ------------------------------------------------------------------------------------------
# unit: StepsFftFilter  (lib/fir.cpp: the two constructors of FftFilter, FftFilter::process (complex and real);
#                        lib/math.cpp: conj / real of an arr_cmplx translated, complex(arr_real) pinned)

FFTFILTER_TABLE = {"_x": "arr_cmplx", "_h": "arr_cmplx", "_olap": "arr_cmplx", "_nx": "int", "_m": "int", "_n": "int"}

FFTFILTER_PINS = {
    # template<class T2, class R = ResultType<T, T2>> base_array<R> operator*(const base_array<T2>& rhs) const { auto temp = array_cast<R>(*this); temp *= rhs; return temp; }
    "operator*(array)": ['9bd6757c6cb6ffcd'],
    # … base_array<R>& operator*=(const base_array<T2>& rhs) { DSPLIB_ASSERT(this->size() == rhs.size(), …); for (i < _vec.size()) _vec[i] *= rhs[i]; return *this; }
    "operator*=(array)": ['89d34b21b9956014'],
    # arr_cmplx complex(const arr_real& re) noexcept { return array_cast<cmplx_t>(re); }     (lib/math.cpp; array_cast is pinned in unit StepsArray)
    "complex(arr_real)": ['3033fdb193418436'],
}


def gen_steps_fftfilter():
    math_tu = '#include "math.cpp"\n'
    prefetch([(FIR_TU, "FftFilter"), (FIR_TU, "FftFilter::FftFilter"), (FIR_TU, "FftFilter::process"), (ARR_TU, "base_array::operator*"),
              (math_tu, "dsplib::complex"), (math_tu, "dsplib::conj"), (math_tu, "dsplib::real")])
    has_body = lambda d: any(c.get("kind") == "CompoundStmt" for c in d.get("inner", []))
    out = [HEADER % "lib/fir.cpp (`FftFilter::FftFilter(const arr_cmplx&)`, `FftFilter::FftFilter(const arr_real&)`, `FftFilter::process` complex and real), "
                    "include/dsplib/fir.h (members), lib/math.cpp (`conj(const arr_cmplx&)`, `real(const arr_cmplx&)` translated; `complex(const arr_real&)` — PINNED), "
                    "include/dsplib/array.h (`operator*(array)` — PINNED)",
           "import DspVerif.Gen.StepsArray\n" + STEPS_HEAD[0], STEPS_HEAD[1]]
    # --- pinned array operations
    arr_tmpl = lambda nm: (lambda d: d.get("kind") == "FunctionTemplateDecl" and d.get("name") == nm and
                           [canon_type(qt(p_)) for f in d["inner"] if f.get("kind") == "CXXMethodDecl" for p_ in params_of(f)][:1] == ["const base_array<T2> &"])
    pinned(ARR_TU, "base_array::operator*", arr_tmpl("operator*"), "operator*(array)", FFTFILTER_PINS, "base_array<T>::operator*(const base_array<T2>&)")
    pinned(ARR_TU, "base_array::operator*", arr_tmpl("operator*="), "operator*=(array)", FFTFILTER_PINS, "base_array<T>::operator*=(const base_array<T2>&)")
    pinned(math_tu, "dsplib::complex", lambda d: d.get("kind") == "FunctionDecl" and d.get("name") == "complex" and has_body(d) and
           canon_type(qt(d)) == "arr_cmplx (const arr_real &) noexcept", "complex(arr_real)", FFTFILTER_PINS, "complex(const arr_real&) of lib/math.cpp")
    out.append("/-- `arr_cmplx * arr_cmplx`: `base_array<T>::operator*(const base_array<T2>&)` = `array_cast` copy, then `operator*=` (PINNED):\n"
               "`DSPLIB_ASSERT(this->size() == rhs.size())`, then `_vec[i] *= rhs[i]` (`cmplx_t::operator*=`, regenerated: `Cx.mulAssign`).\n"
               "The call THROWS exactly when this holds -/\n"
               "def arrMulCCThrows (a b : Array (Cx α)) : Prop := a.size ≠ b.size\n")
    out.append("/-- … and the value returned when it does not throw (see `arrMulCCThrows`) -/\n"
               "def arrMulCC (a b : Array (Cx α)) : Array (Cx α) :=\n"
               "  Array.ofFn (n := a.size) fun i => Cx.mulAssign a[i] (b.getD i.val zeroC)\n")
    out.append("/-- `arr_cmplx complex(const arr_real& re)` of lib/math.cpp (PINNED): `array_cast<cmplx_t>(re)` (PINNED in unit StepsArray):\n"
               "a zero-filled `arr_cmplx` of the same length with `dst[i].re = src[i]` -/\n"
               "def arrComplex (re : Array α) : Array (Cx α) := re.map fun v => Cx.mk v (Fn.ofInt (0 : Int))\n")
    out.append("/-- `1L << e`: `2^e` (for `0 ≤ e < 63`; otherwise the shift is undefined) -/\ndef shl1 (e : Int) : Int := (2 : Int) ^ e.toNat\n")
    # --- conj(const arr_cmplx&), real(const arr_cmplx&) of lib/math.cpp (translated)
    for cname, lname, sig, rt in (("conj", "conjArr", "arr_cmplx (const arr_cmplx &)", "Array (Cx α)"),
                                  ("real", "realArr", "arr_real (const arr_cmplx &)", "Array α")):
        fs = [d for d in clang_ast(math_tu, "dsplib::" + cname) if d.get("kind") == "FunctionDecl" and d.get("name") == cname and has_body(d) and
              canon_type(qt(d)) == sig]
        if len(fs) != 1:
            raise Unsupported("%s(const arr_cmplx&) not found" % cname)
        texts, _tr = gen_free_fn(fs[0], lname, "`%s %s(const arr_cmplx& x)` of lib/math.cpp" % (sig.split(" (")[0], cname), ret_lt=rt)
        out += texts

    def mk_calls(tr_holder):
        calls = steps_user_calls()
        csig = lambda n: canon_type(qt(unwrap(n["inner"][0])))
        scalar_conj = calls["conj"]

        def conj_call(a, n):
            if csig(n) == "arr_cmplx (const arr_cmplx &)" and len(a) == 1:
                return "(conjArr %s)" % a[0]
            return scalar_conj(a, n)

        def real_call(a, n):
            if csig(n) == "arr_real (const arr_cmplx &)" and len(a) == 1:
                return "(realArr %s)" % a[0]
            raise Unsupported("call of real with signature %s" % csig(n))

        def complex_call(a, n):
            if csig(n) == "arr_cmplx (const arr_real &) noexcept" and len(a) == 1:
                return "(arrComplex %s)" % a[0]
            raise Unsupported("call of complex with signature %s" % csig(n))

        def param_fn(cxx, table):
            def h(a, n):
                sg = csig(n)
                if sg not in table or len(a) != table[sg][1]:
                    raise Unsupported("call of %s with signature %s" % (cxx, sg))
                nm, _, ty, doc = table[sg]
                if nm not in [e[0] for e in tr_holder["extra"]]:
                    tr_holder["extra"].append((nm, ty, doc))
                return "(%s %s)" % (nm, " ".join(a))
            return h
        calls.update({
            "conj": conj_call, "real": real_call, "complex": complex_call,
            "nextpow2": param_fn("nextpow2", {"int (int)": ("nextpow2", 1, "Int → Int", "`int nextpow2(int)` of lib/math.cpp (NOT translated: a parameter)")}),
            "fft": param_fn("fft", {
                "arr_cmplx (const arr_cmplx &, int)": ("fftN", 2, "Array (Cx α) → Int → Array (Cx α)",
                                                       "`arr_cmplx fft(const arr_cmplx&, int n)` (NOT translated: a parameter; its meaning is the subject of C01)"),
                "arr_cmplx (const arr_cmplx &)": ("fft1", 1, "Array (Cx α) → Array (Cx α)",
                                                  "`arr_cmplx fft(const arr_cmplx&)` (NOT translated: a parameter; C01)")}),
            "ifft": param_fn("ifft", {"arr_cmplx (const arr_cmplx &)": ("ifft1", 1, "Array (Cx α) → Array (Cx α)",
                                                                        "`arr_cmplx ifft(const arr_cmplx&)` (NOT translated: a parameter; C02)")}),
        })
        return calls

    rec = record(clang_ast(FIR_TU, "FftFilter"), "FftFilter")
    cdocs = [d for d in clang_ast(FIR_TU, "FftFilter::FftFilter") if d.get("kind") == "CXXConstructorDecl" and has_body(d) and not d.get("isImplicit")]
    cc = [d for d in cdocs if canon_type(qt(d)) == "void (const arr_cmplx &)"]
    cr = [d for d in cdocs if canon_type(qt(d)) == "void (const arr_real &)"]
    if len(cc) != 1 or len(cr) != 1 or len(cdocs) != 2:
        raise Unsupported("FftFilter: constructors with a body found: %s" % [canon_type(qt(d)) for d in cdocs])
    dflt = [c for c in rec["inner"] if c.get("kind") == "CXXConstructorDecl" and not params_of(c) and not c.get("isImplicit")]
    if len(dflt) != 1 or dflt[0].get("explicitlyDefaulted") != "default":
        raise Unsupported("FftFilter: `FftFilter() = default;` not found")
    holder = {"extra": []}

    def setup(tr):
        tr.allow_long_to_int = True
        tr.extra_params = holder["extra"]
    texts, tr = gen_ctor(rec, cc[0], FFTFILTER_TABLE, "fftFilterCtor", "FftFilter", "FftFilterState", "void (const arr_cmplx &)", pure=True,
                         user_calls=mk_calls(holder), setup=setup,
                         doc_extra="\n(`const int fft_len = 1L << …`: the `long` value is stored into an `int`; 32-bit overflow is NOT modelled.)")
    if not getattr(tr, "narrowed", False):
        pass
    out += texts
    ctor_extra = list(holder["extra"])
    # the delegating constructor `FftFilter(const arr_real& h) : FftFilter(complex(h))`
    dc = cr[0]
    inits = [c for c in dc.get("inner", []) if c.get("kind") == "CXXCtorInitializer"]
    bodyd = [c for c in body_of(dc).get("inner", []) if c.get("kind") != "NullStmt"]
    if len(inits) != 1 or "anyInit" in inits[0] or "baseInit" in inits[0] or bodyd:
        raise Unsupported("FftFilter(const arr_real&) is not a delegating constructor with an empty body")
    ce = inits[0]["inner"][0]
    while ce.get("kind") == "ExprWithCleanups":
        ce = ce["inner"][0]
    a_ = ce["inner"][0] if ce.get("kind") == "CXXConstructExpr" and len(ce.get("inner", [])) == 1 else {}
    while a_.get("kind") in ("MaterializeTemporaryExpr", "CXXBindTemporaryExpr") or (a_.get("kind") == "ImplicitCastExpr" and a_.get("castKind") == "NoOp"):
        a_ = a_["inner"][0]
    hn = params_of(dc)[0]["name"]
    ok = ce.get("kind") == "CXXConstructExpr" and canon_type(ce.get("ctorType", {}).get("qualType", "")) == "void (const arr_cmplx &)" and \
        a_.get("kind") == "CallExpr" and Tr().callee_name(a_) == "complex" and len(a_["inner"]) == 2 and \
        canon_type(qt(unwrap(a_["inner"][0]))) == "arr_cmplx (const arr_real &) noexcept" and \
        unwrap(a_["inner"][1]).get("kind") == "DeclRefExpr" and unwrap(a_["inner"][1])["referencedDecl"].get("name") == hn
    if not ok:
        raise Unsupported("FftFilter(const arr_real& h) does not delegate to FftFilter(complex(h))")
    eargs = "".join("(%s : %s) " % (nm, ty) for nm, ty, _ in ctor_extra)
    out.append("/-- `FftFilter::FftFilter(const arr_real& %s)`: delegates to `FftFilter(complex(%s))` -/\n"
               "def fftFilterCtorR %s(%s : Array α) : FftFilterState α :=\n  fftFilterCtor %s(arrComplex %s)\n" % (
                   hn, hn, eargs, hn, "".join(nm + " " for nm, _, _ in ctor_extra), hn))
    # --- FftFilter::process(const arr_cmplx& x): the whole function (frame level)
    pdocs = [d for d in clang_ast(FIR_TU, "FftFilter::process") if d.get("kind") == "CXXMethodDecl" and d.get("name") == "process" and has_body(d)]
    pc = [d for d in pdocs if canon_type(qt(d)) == "arr_cmplx (const arr_cmplx &)"]
    pr_ = [d for d in pdocs if canon_type(qt(d)) == "arr_real (const arr_real &)"]
    if len(pc) != 1 or len(pr_) != 1:
        raise Unsupported("FftFilter::process overloads found: %s" % [canon_type(qt(d)) for d in pdocs])
    order = check_members(rec, FFTFILTER_TABLE, "FftFilter")
    members = {m: (m.lstrip("_"), lean_type_of(FFTFILTER_TABLE[m]), "%s %s" % (FFTFILTER_TABLE[m], m)) for m in order}
    holder2 = {"extra": []}
    tr = StepTr(members=members, single=True, user_calls=mk_calls(holder2), effect=True)
    tr.block_arrays = True
    tr.loop_param_order = "decl"
    pn = params_of(pc[0])[0]["name"]
    pv = tr.var(pn)
    tr.arrays[pn] = (pv, "Array (Cx α)")
    tr.bound.add(pv)
    tr.decl_order.append(pv)
    for nm, ty, _ in (("fft1", "Array (Cx α) → Array (Cx α)", ""), ("ifft1", "Array (Cx α) → Array (Cx α)", "")):
        tr.bound.add(nm)
        tr.decl_order.append(nm)
        tr.types[nm] = ty
    tr.types.update({pv: "Array (Cx α)", "self": "FftFilterState α"})
    tr.name_hint = "fftFilterProcess"
    body = tr.stmts([body_of(pc[0])], FALLOFF)
    if FALLOFF in body:
        raise Unsupported("FftFilter::process: control can reach the end without a return")
    if [e[0] for e in holder2["extra"]] not in (["fft1", "ifft1"], ["ifft1", "fft1"]):
        raise Unsupported("FftFilter::process: transform calls found: %s" % [e[0] for e in holder2["extra"]])
    if tr.writes - {"_x", "_nx", "_olap"}:
        raise Unsupported("FftFilter::process writes the members %s" % sorted(tr.writes))
    out += tr.aux_defs
    out.append("/-- `arr_cmplx FftFilter::process(const arr_cmplx& %s)`: the members afterwards and the returned array.  `fft1` / `ifft1` = `fft(const arr_cmplx&)` /\n"
               "`ifft(const arr_cmplx&)` (NOT translated: parameters; C01 / C02).  The product `fft(_x) * _h` throws when the lengths differ: see `arrMulCCThrows`. -/\n"
               "def fftFilterProcess (fft1 ifft1 : Array (Cx α) → Array (Cx α)) (self : FftFilterState α) (%s : Array (Cx α)) : FftFilterState α × Array (Cx α) :=\n%s\n" % (
                   pn, pv, indent(body)))
    # --- FftFilter::process(const arr_real& x) { return real(process(complex(x))); }
    b = [c for c in body_of(pr_[0]).get("inner", []) if c.get("kind") != "NullStmt"]
    xn = params_of(pr_[0])[0]["name"]
    ok = len(b) == 1 and b[0].get("kind") == "ReturnStmt"
    if ok:
        calls_ = find_all(b[0], lambda x: x.get("kind") in ("CallExpr", "CXXMemberCallExpr"))
        names_ = [(c.get("kind"), Tr().callee_name(c) if c.get("kind") == "CallExpr" else unwrap(c["inner"][0]).get("name")) for c in calls_]
        ok = names_ == [("CallExpr", "real"), ("CXXMemberCallExpr", "process"), ("CallExpr", "complex")]
    if ok:
        mc = calls_[1]
        ok = unwrap(unwrap(mc["inner"][0])["inner"][0]).get("kind") == "CXXThisExpr" and \
            canon_type(qt(calls_[0]["inner"][0]["inner"][0] if False else unwrap(calls_[0]["inner"][0]))) == "arr_real (const arr_cmplx &)" and \
            canon_type(qt(unwrap(calls_[2]["inner"][0]))) == "arr_cmplx (const arr_real &) noexcept" and \
            unwrap(calls_[2]["inner"][1]).get("kind") == "DeclRefExpr" and unwrap(calls_[2]["inner"][1])["referencedDecl"].get("name") == xn and \
            canon_type(strip_type(qt(mc))) in ARRAY_CX_T and \
            not find_all(b[0], lambda x: x.get("kind") in ("BinaryOperator", "UnaryOperator", "CXXOperatorCallExpr"))
    if not ok:
        raise Unsupported("FftFilter::process(const arr_real&) is not `return real(process(complex(x)))`")
    out.append("/-- `arr_real FftFilter::process(const arr_real& %s)`: `return real(process(complex(%s)));` -/\n"
               "def fftFilterProcessR (fft1 ifft1 : Array (Cx α) → Array (Cx α)) (self : FftFilterState α) (%s : Array α) : FftFilterState α × Array α :=\n"
               "  let r := fftFilterProcess fft1 ifft1 self (arrComplex %s)\n  (r.1, realArr r.2)\n" % (xn, xn, xn, xn))
    out.append("end Gen\nend Dsp\n")
    return "\n".join(out)


# ------------------------------------------------------------------------------------------
# unit: StepsDetector  (lib/detector.cpp: `_is_valid`, `CDelay<cmplx_t>` (constructor, push, extract), `PreambleDetectorImpl`
#                       (constructor, `_convert_impulse`, `frame_len`, the WHOLE `process` incl. the first-hit sample loop);
#                       lib/ma-filter.h: `MAFilter<real_t>::process(const base_array<T>&)`; include/dsplib/fir.h: `FftFilter::block_size`;
#                       lib/math.cpp: `abs2(const arr_cmplx&)`, `rms(const arr_cmplx&)` translated; array operators / flip PINNED)

DETECTOR_TU = '#include "detector.cpp"\n'
CDELAY_TABLE = {"_idx": "int", "_size": "int", "_buf": "std::vector<cmplx_t>"}
DETECTOR_TABLE = {"_corr_flt": "FftFilter", "_pow_flt": "MAFilterR", "_threshold": "real_t", "_delay": "CDelay<cmplx_t>"}
DETRESULT_TABLE = {"offset": "int", "preamble": "arr_cmplx", "score": "real_t"}

DETECTOR_PINS = {
    # template<class T2, class R = ResultType<T, T2>> base_array<R> operator+(const T2& rhs) const { auto temp = array_cast<R>(*this); temp += rhs; return temp; }
    "operator+(scalar)": ['c343fcd22aec87db'],
    # … base_array<R>& operator+=(const T2& rhs) noexcept { static_assert(is_same<T, R>); for (size_t i = 0; i < _vec.size(); ++i) _vec[i] += rhs; return *this; }
    "operator+=(scalar)": ['6e55fe6ed86b39c0'],
    # template<class T2, class R = ResultType<T, T2>> base_array<R> operator/(const base_array<T2>& rhs) const { auto temp = array_cast<R>(*this); temp /= rhs; return temp; }
    "operator/(array)": ['96713df59c37c2a1'],
    # … base_array<R>& operator/=(const base_array<T2>& rhs) { DSPLIB_ASSERT(this->size() == rhs.size(), …); for (i < _vec.size()) _vec[i] /= rhs[i]; return *this; }
    "operator/=(array)": ['d4c86700989cbb3f'],
    # base_array(std::vector<T>&& v) : _vec(std::move(v)) {}
    "base_array(vector&&)": ['23b6d2e1ab0c91d3'],
    # arr_cmplx flip(const arr_cmplx& x) { arr_cmplx r(x); std::reverse(r.begin(), r.end()); return r; }   (lib/utils.cpp)
    "flip(arr_cmplx)": ['7e9788c7181584f4'],
}

HIT_NONE = "\x00HIT_NONE\x00"


class DetTr(StepTr):
    """StepTr + what lib/detector.cpp needs: calls on sub-objects / on the object itself resolved BY SIGNATURE (method name, Lean types of
    the arguments, Lean type of the result), `void` sub-object calls as statements, a local of a plain struct type whose fields are
    all assigned before it is returned, `std::optional` results (`return res;` / `return std::nullopt;`), and a counted loop whose
    body may `return` (first-hit search: `firstHit`)."""

    def __init__(self, **kw):
        self.sig_ops = kw.pop("sig_ops", {})         # member (or None = the object itself) -> {(method, (arg types…), ret type): (lean fn, effect)}
        self.struct_types = kw.pop("struct_types", {})   # canonical C++ struct type -> (lean structure, {field: (lean field, lean type)})
        self.opt_of = kw.pop("opt_of", {})           # canonical std::optional<…> type -> canonical struct type
        so = {m: {"ops": {}} for m in self.sig_ops if m is not None}
        super().__init__(subobjs=so, **kw)
        self.struct_locals = {}
        self.hit_ctx = False
        self.n_hits = 0

    def op_lookup(self, m, meth, n, arg_nodes):
        key = (meth, tuple(lean_type_of(qt(a)) for a in arg_nodes), lean_type_of(qt(n)) if canon_type(qt(n)) != "void" else "Unit")
        tab = self.sig_ops.get(m, {})
        if key not in tab:
            raise Unsupported("call of %s%s with argument types %s returning %s" % (
                (m + ".") if m else "", meth, [qt(a) for a in arg_nodes], qt(n)))
        return tab[key]

    def call_op(self, m, meth, n, arg_nodes):
        """a call of a generated function on the sub-object `m` (or on the object itself, m = None)"""
        lean, effect = self.op_lookup(m, meth, n, arg_nodes)
        args = [self.e(a) for a in arg_nodes]
        cur = self.mref(m) if m is not None else self.svar()
        if not effect:
            return "(%s %s%s)" % (lean, cur, "".join(" " + a for a in args))
        self.hoist(None)
        base = self.members[m][0] if m is not None else lean.split(" ")[0]
        r = "r_%s" % base
        k = 0
        while r in self.bound:
            k += 1
            r = "r_%s_%d" % (base, k)
        self.bound.add(r)
        self.pre.append("let %s := %s %s%s\n" % (r, lean, cur, "".join(" " + a for a in args)))
        if m is not None:
            self.pre.append(self.set_member(m, "%s.1" % r))
        else:
            for f in self.members:
                self.mref(f, write=True)
            self.note_assigned(self.svar())
            self.pre.append("let %s := %s.1\n" % (self.svar(), r))
        return "%s.2" % r

    def e_CXXMemberCallExpr(self, n):
        me = unwrap(n["inner"][0])
        base = me["inner"][0]
        arg_nodes = [a for a in n["inner"][1:] if a.get("kind") != "CXXDefaultArgExpr"]
        if len(arg_nodes) != len(n["inner"]) - 1:
            return super().e_CXXMemberCallExpr(n)
        m = self.member_of_obj(base)
        if m is not None and m in self.sig_ops:
            return self.call_op(m, me["name"], n, arg_nodes)
        if self.is_obj(base) and None in self.sig_ops and me["name"] in [k[0] for k in self.sig_ops[None]]:
            return self.call_op(None, me["name"], n, arg_nodes)
        return super().e_CXXMemberCallExpr(n)

    def e_CXXConstructExpr(self, n):
        args = [a for a in n.get("inner", []) if a.get("kind") != "CXXDefaultArgExpr"]
        ta = canon_type(strip_type(qt(n)))
        ct = canon_type(n.get("ctorType", {}).get("qualType", ""))
        if ta in ARRAY_CX_T and len(args) == 1 and ct == "void (std::vector<cmplx_t> &&)":
            # base_array(std::vector<T>&& v) : _vec(std::move(v))   (PINNED in this unit): the same elements
            self.prims.add("arrOfVec")
            return "(arrOfVec %s)" % self.e(args[0])
        return super().e_CXXConstructExpr(n)

    def struct_local(self, n):
        n = unwrap(n)
        if n.get("kind") == "ImplicitCastExpr" and n.get("castKind") == "NoOp":
            n = unwrap(n["inner"][0])
        if n.get("kind") == "DeclRefExpr" and n.get("referencedDecl", {}).get("kind") == "VarDecl" and \
                n["referencedDecl"].get("name") in self.struct_locals and \
                self.struct_locals[n["referencedDecl"]["name"]]["id"] == n["referencedDecl"].get("id"):
            return n["referencedDecl"]["name"]
        return None

    def e_DeclRefExpr(self, n):
        if n.get("referencedDecl", {}).get("name") in self.struct_locals:
            raise Unsupported("struct local `%s` used other than as `%s.field = …` / `return %s`" % ((n["referencedDecl"]["name"],) * 3))
        return super().e_DeclRefExpr(n)

    def opt_return(self, s):
        """`return res;` / `return std::nullopt;` in a function returning std::optional<S> -> Lean `Option` text, or None"""
        if not s.get("inner"):
            return None
        e = s["inner"][0]
        while e.get("kind") in ("ExprWithCleanups", "MaterializeTemporaryExpr", "CXXBindTemporaryExpr") or \
                (e.get("kind") == "ImplicitCastExpr" and e.get("castKind") in ("ConstructorConversion", "NoOp")):
            e = e["inner"][0]
        ot = canon_type(strip_type(qt(e)))
        if e.get("kind") != "CXXConstructExpr" or ot not in self.opt_of:
            return None
        st = self.opt_of[ot]
        ct = canon_type(e.get("ctorType", {}).get("qualType", ""))
        args = e.get("inner", [])
        if ct == "void (std::nullopt_t) noexcept" and len(args) == 1:
            a = args[0]
            while a.get("kind") == "CXXConstructExpr" and len(a.get("inner", [])) == 1 and canon_type(strip_type(qt(a))) == "std::nullopt_t":
                a = a["inner"][0]
            if a.get("kind") == "DeclRefExpr" and a["referencedDecl"].get("name") == "nullopt" and canon_type(qt(a)) == "const std::nullopt_t":
                return "none"
            raise Unsupported("std::optional constructed from something other than std::nullopt")
        if re.match(r"void \((const )?%s &&?\)" % re.escape(st), ct) and len(args) == 1:
            nm = self.struct_local(args[0])
            if nm is None:
                raise Unsupported("std::optional constructed from something other than a struct local")
            sl = self.struct_locals[nm]
            lstruct, fields = self.struct_types[st]
            missing = [f for f in fields if f not in sl["fields"]]
            if missing:
                raise Unsupported("`%s` is returned before its field(s) %s are assigned" % (nm, missing))
            return "(some { %s })" % ", ".join("%s := %s" % (fields[f][0], sl["fields"][f]) for f in fields)
        raise Unsupported("construction of %s through %s" % (ot, ct))

    def result_text(self, opt):
        r = "(%s, %s)" % (self.svar(), opt)
        if self.hit_ctx:
            return r
        return ("(.ok %s)" % r) if self.fallible else r

    def stmts(self, lst, final, throws=False):
        if not lst:
            return final
        s, rest = lst[0], lst[1:]
        su = s
        while su.get("kind") == "ExprWithCleanups" and len(su.get("inner", [])) == 1:
            su = su["inner"][0]
        k = su.get("kind")
        cont = lambda: self.stmts(rest, final)
        if k == "CXXMemberCallExpr" and canon_type(qt(su)) == "void":
            me = unwrap(su["inner"][0])
            m = self.member_of_obj(me["inner"][0])
            arg_nodes = list(su["inner"][1:])
            if m is not None and m in self.sig_ops and not any(a.get("kind") == "CXXDefaultArgExpr" for a in arg_nodes):
                lean, effect = self.op_lookup(m, me["name"], su, arg_nodes)
                if not effect:
                    raise Unsupported("void call %s.%s without effect" % (m, me["name"]))
                args = [self.e(a) for a in arg_nodes]
                cur = self.mref(m)
                pre = self.flush()
                return pre + self.set_member(m, "(%s %s%s)" % (lean, cur, "".join(" " + a for a in args))) + cont()
        sb = su
        while sb.get("kind") == "CXXBindTemporaryExpr" and len(sb.get("inner", [])) == 1:
            sb = sb["inner"][0]
        if sb.get("kind") == "CXXMemberCallExpr" and canon_type(qt(sb)) != "void":
            me = unwrap(sb["inner"][0])
            m = self.member_of_obj(me["inner"][0]) if me.get("kind") == "MemberExpr" else None
            arg_nodes = list(sb["inner"][1:])
            if m is not None and m in self.sig_ops and not any(a.get("kind") == "CXXDefaultArgExpr" for a in arg_nodes):
                # `_sub.process(x);` — the call changes the sub-object, the value it returns is discarded
                lean, effect = self.op_lookup(m, me["name"], sb, arg_nodes)
                if not effect:
                    raise Unsupported("discarded call %s.%s without effect" % (m, me["name"]))
                self.call_op(m, me["name"], sb, arg_nodes)
                return self.flush() + cont()
        if k == "DeclStmt" and len(su["inner"]) == 1 and su["inner"][0].get("kind") == "VarDecl" and \
                canon_type(strip_type(qt(su["inner"][0]))) in self.struct_types:
            d = su["inner"][0]
            init = [c for c in d.get("inner", []) if c.get("kind") != "FullComment"]
            if len(init) != 1 or init[0].get("kind") != "CXXConstructExpr" or init[0].get("inner") or \
                    not canon_type(init[0].get("ctorType", {}).get("qualType", "")).startswith("void ()"):
                raise Unsupported("struct local `%s` is not default-constructed" % d["name"])
            if d["name"] in self.struct_locals or self.var(d["name"]) in self.bound:
                raise Unsupported("struct local `%s` shadows a name in scope" % d["name"])
            # the default member initialisers are never observed: every field must be assigned before the local is returned, and
            # the local cannot be read otherwise (CHECKED: `opt_return`, `e_DeclRefExpr`)
            self.struct_locals[d["name"]] = {"id": d.get("id"), "type": canon_type(strip_type(qt(d))), "fields": {}, "depth": len(self.frames)}
            try:
                return cont()
            finally:
                del self.struct_locals[d["name"]]
        lhs = None
        if k == "BinaryOperator" and su.get("opcode") == "=":
            lhs, rhs, whole = unwrap(su["inner"][0]), su["inner"][1], False
        elif k == "CXXOperatorCallExpr" and self.callee_name(su) == "operator=":
            lhs, rhs, whole = unwrap(su["inner"][1]), su["inner"][2], True
        if lhs is not None and lhs.get("kind") == "MemberExpr" and self.struct_local(lhs["inner"][0]) is not None:
            nm = self.struct_local(lhs["inner"][0])
            sl = self.struct_locals[nm]
            lstruct, fields = self.struct_types[sl["type"]]
            f = lhs["name"]
            if f not in fields:
                raise Unsupported("field %s of %s" % (f, sl["type"]))
            if f in sl["fields"] or len(self.frames) != sl["depth"]:
                raise Unsupported("field `%s.%s` assigned twice / inside a branch" % (nm, f))
            lt = fields[f][1]
            if whole:
                el = {"Array α": "double", "Array (Cx α)": "cmplx_t"}.get(lt)
                sig = canon_type(qt(unwrap(su["inner"][0])))
                if el is None or sig not in ("base_array<%s> &(base_array<%s> &&) noexcept" % (el, el), "base_array<%s> &(const base_array<%s> &)" % (el, el)):
                    raise Unsupported("assignment to the field %s through %s" % (f, sig))
            elif lt not in ("α", "Int", "Cx α"):
                raise Unsupported("assignment to the field %s : %s" % (f, lt))
            if lean_type_of(qt(rhs)) != lt:
                raise Unsupported("value of type %s for the field %s : %s" % (qt(rhs), f, lt))
            val = self.e(rhs)
            pre = self.flush()
            v = "%s_%s" % (self.var(nm), fields[f][0])
            if v in self.bound:
                raise Unsupported("name %s already in scope" % v)
            self.declare(v, lt)
            sl["fields"][f] = v
            return pre + "let %s : %s := %s\n" % (v, lt, val) + cont()
        if k == "ReturnStmt":
            o = self.opt_return(su)
            if o is not None:
                if self.in_loop or (self.inner_depth and not self.hit_ctx):
                    raise Unsupported("return inside a loop")
                pre = self.flush()
                return pre + self.result_text(o)
            if self.hit_ctx:
                raise Unsupported("return of something other than the std::optional result inside the searched loop")
        if k == "ForStmt" and find_all(su, lambda x: x.get("kind") == "ReturnStmt"):
            return self.first_hit_for(su, rest, final)
        return super().stmts(lst, final, throws)

    def first_hit_for(self, s, rest, final):
        """`for (int i = 0; i < hi; ++i) BODY` where BODY may `return <optional>`: the iterations run in order until one returns;
        `firstHit` (defined in the unit) is that search, BODY is a definition of its own returning (members, Option result)"""
        if self.hit_ctx or self.frames or self.inner_depth or self.in_loop or not self.effect:
            raise Unsupported("loop with a return inside a branch / loop")
        init, condvar, cond, inc, body = s["inner"]
        if condvar and condvar.get("kind"):
            raise Unsupported("loop condition variable")
        if not (init.get("kind") == "DeclStmt" and len(init["inner"]) == 1 and canon_type(qt(init["inner"][0])) == "int"
                and init["inner"][0].get("inner") and unwrap(init["inner"][0]["inner"][0]).get("kind") == "IntegerLiteral"
                and unwrap(init["inner"][0]["inner"][0])["value"] == "0"):
            raise Unsupported("searched loop does not start with `int i = 0`")
        cname = init["inner"][0]["name"]
        isvar = lambda n: unwrap(n).get("kind") == "DeclRefExpr" and unwrap(n)["referencedDecl"].get("name") == cname
        if not (cond.get("kind") == "BinaryOperator" and cond["opcode"] == "<" and isvar(cond["inner"][0]) and
                kind_of_type(qt(cond["inner"][1])) == "int"):
            raise Unsupported("searched loop condition is not `%s < bound`" % cname)
        if not (inc.get("kind") == "UnaryOperator" and inc["opcode"] == "++" and isvar(inc["inner"][0])):
            raise Unsupported("searched loop increment is not `++%s`" % cname)
        if find_all(body, lambda x: x.get("kind") in ("BreakStmt", "ContinueStmt", "GotoStmt", "CXXThrowExpr")):
            raise Unsupported("break / continue / throw inside the searched loop")
        saved_reads, self.reads = self.reads, set()
        hi = self.e(cond["inner"][1])
        hi_members, self.reads = self.reads, saved_reads | self.reads
        pre = self.flush()
        v = self.var(cname)
        if v in self.bound:
            raise Unsupported("loop counter `%s` shadows a variable in scope" % v)
        bound0 = set(self.bound)
        saved_writes, self.writes = self.writes, set()
        self.frames.append({"decl": {v}, "assigned": []})
        self.bound.add(v)
        self.types[v] = "Int"
        self.loop_vars.add(v)
        self.inner_depth += 1
        self.hit_ctx = True
        # the struct local must be declared at the depth it is used: frames count from here
        txt = self.stmts([body], HIT_NONE)
        self.hit_ctx = False
        self.inner_depth -= 1
        self.loop_vars.discard(v)
        fr = self.frames.pop()
        self.bound = set(bound0)
        self.prune_locals()
        body_writes, self.writes = self.writes, saved_writes | self.writes
        if hi_members & body_writes:
            raise Unsupported("loop bound `%s` reads member(s) %s, which the body assigns" % (hi, sorted(hi_members & body_writes)))
        sv = self.svar()
        for w in fr["assigned"]:
            if w != sv:
                raise Unsupported("the searched loop assigns the local `%s` (only the object may change)" % w)
        self.note_assigned(sv)
        nat = v + "_n"
        body_txt = "let %s : Int := Int.ofNat %s\n" % (v, nat) + txt.replace(HIT_NONE, "(%s, none)" % sv)
        mentions = lambda nm, t: re.search(r"(?<![A-Za-z0-9_'.])%s(?![A-Za-z0-9_'])" % re.escape(nm), t) is not None
        cand = [nm for nm in sorted(set(bound0) | {"eps"}) if nm != sv and mentions(nm, body_txt)]
        first = lambda nm: re.search(r"(?<![A-Za-z0-9_'.])%s(?![A-Za-z0-9_'])" % re.escape(nm), body_txt).start()
        rank = lambda nm: self.decl_order.index(nm) if nm in self.decl_order else len(self.decl_order) + first(nm)
        free = sorted(cand, key=lambda nm: (nm != "eps", rank(nm)))
        for nm in free:
            if nm not in self.types:
                raise Unsupported("searched loop body uses `%s`, whose Lean type is unknown" % nm)
        self.n_loops = getattr(self, "n_loops", 0) + 1
        lname = "%s_loop%d" % (self.name_hint, self.n_loops)
        rt = self.hit_result_type
        self.aux_defs.append(
            "/-- one iteration of the loop no. %d (`for (int %s = 0; %s < %s; ++%s)`, whose body may `return`): the members afterwards and\n"
            "`some r` when the iteration executes `return r`, `none` when it runs to its end -/\n"
            "def %s %s (%s : %s) (%s : Nat) : %s × Option (%s) :=\n%s\n" % (
                self.n_loops, cname, cname, hi, cname, lname, " ".join("(%s : %s)" % (nm, self.types[nm]) for nm in free),
                sv, self.types[sv], nat, self.types[sv], rt, indent(body_txt)))
        self.prims.add("firstHit")
        self.n_hits += 1
        fh = "fh_%d" % self.n_hits
        call = "(%s %s)" % (lname, " ".join(free)) if free else lname
        hit = "(%s, some r)" % sv
        return pre + "let %s := (firstHit %s (Int.toNat %s) 0 %s)\nlet %s := %s.1\nmatch %s.2 with\n| some r => %s\n| none =>\n%s" % (
            fh, call, hi, sv, sv, fh, fh, ("(.ok %s)" % hit) if self.fallible else hit, indent(self.stmts(rest, final)))


def gen_steps_detector():
    math_tu = '#include "math.cpp"\n'
    prefetch([(DETECTOR_TU, "PreambleDetectorImpl"), (DETECTOR_TU, "CDelay"), (DETECTOR_TU, "_is_valid"), (DETECTOR_TU, "MAFilter"),
              (DETECTOR_TU, "PreambleDetector::Result"), (FIR_TU, "FftFilter"), (ARR_TU, "base_array::operator+"), (ARR_TU, "base_array::operator/"),
              (ARR_TU, "base_array::base_array"), ('#include "utils.cpp"\n', "dsplib::flip"), (math_tu, "dsplib::abs2"), (math_tu, "dsplib::rms")])
    has_body = lambda d: any(c.get("kind") == "CompoundStmt" for c in d.get("inner", []))
    out = [HEADER % "lib/detector.cpp (`_is_valid`, `CDelay<cmplx_t>`: constructor / `push` / `extract`; `PreambleDetectorImpl`: constructor, "
                    "`_convert_impulse`, `frame_len`, `process`), include/dsplib/detector.h (`PreambleDetector::Result`), lib/ma-filter.h "
                    "(`MAFilter<real_t>::process(const base_array<T>&)`), include/dsplib/fir.h (`FftFilter::block_size`), lib/math.cpp "
                    "(`abs2(const arr_cmplx&)`, `rms(const arr_cmplx&)`), lib/utils.cpp (`flip(const arr_cmplx&)` — PINNED), "
                    "include/dsplib/array.h (`operator+(scalar)`, `operator/(array)`, `base_array(std::vector<T>&&)` — PINNED)",
           "import DspVerif.Gen.StepsFftFilter\nimport DspVerif.Gen.CtorDyn\n" + STEPS_HEAD[0], STEPS_HEAD[1]]
    # --- pinned array operations
    first_param = lambda d: [canon_type(qt(p_)) for f in d["inner"] if f.get("kind") == "CXXMethodDecl" for p_ in params_of(f)][:1]
    arr_tmpl = lambda nm, p0: (lambda d: d.get("kind") == "FunctionTemplateDecl" and d.get("name") == nm and first_param(d) == [p0])
    pinned(ARR_TU, "base_array::operator+", arr_tmpl("operator+", "const T2 &"), "operator+(scalar)", DETECTOR_PINS, "base_array<T>::operator+(const T2&)")
    pinned(ARR_TU, "base_array::operator+", arr_tmpl("operator+=", "const T2 &"), "operator+=(scalar)", DETECTOR_PINS, "base_array<T>::operator+=(const T2&)")
    pinned(ARR_TU, "base_array::operator/", arr_tmpl("operator/", "const base_array<T2> &"), "operator/(array)", DETECTOR_PINS,
           "base_array<T>::operator/(const base_array<T2>&)")
    pinned(ARR_TU, "base_array::operator/", arr_tmpl("operator/=", "const base_array<T2> &"), "operator/=(array)", DETECTOR_PINS,
           "base_array<T>::operator/=(const base_array<T2>&)")
    pinned(ARR_TU, "base_array::base_array", lambda d: d.get("kind") == "CXXConstructorDecl" and canon_type(qt(d)) == "void (std::vector<T> &&)",
           "base_array(vector&&)", DETECTOR_PINS, "base_array(std::vector<T>&&)")
    pinned('#include "utils.cpp"\n', "dsplib::flip", lambda d: d.get("kind") == "FunctionDecl" and d.get("name") == "flip" and has_body(d) and
           canon_type(qt(d)) == "arr_cmplx (const arr_cmplx &)", "flip(arr_cmplx)", DETECTOR_PINS, "flip(const arr_cmplx&) of lib/utils.cpp")
    out.append("/-- `std::isnan(double)` (<cmath>; NOT translated — a documented primitive): a NaN is the only value that is not `≤` itself\n"
               "(exact at `Float`; never true over `ℝ`) -/\n"
               "def stdIsnan (v : α) : Prop := ¬ (v ≤ v)\n")
    out.append("instance (v : α) : Decidable (stdIsnan v) := by unfold stdIsnan; exact inferInstance\n")
    out.append("/-- `std::isinf(double)` (<cmath>; NOT translated — a documented primitive): `v` is not a NaN and `v - v` is one (`±inf - ±inf`;\n"
               "exact at `Float`; never true over `ℝ`) -/\n"
               "def stdIsinf (v : α) : Prop := (v ≤ v) ∧ ¬ ((v - v) ≤ (v - v))\n")
    out.append("instance (v : α) : Decidable (stdIsinf v) := by unfold stdIsinf; exact inferInstance\n")
    out.append("/-- `std::vector<cmplx_t>(size_type n)`: `n` value-initialised elements (`cmplx_t()` = `zeroC`, CHECKED in unit StepsBase); the `int`\n"
               "argument converts to `size_type`: a negative one is a huge size and `std::vector` throws; here the empty vector -/\n"
               "def vecNewC (n : Int) : Array (Cx α) := Array.replicate n.toNat zeroC\n")
    out.append("/-- `base_array<T>(std::vector<T>&& v) : _vec(std::move(v))` (PINNED): the same elements -/\n"
               "def arrOfVec {β : Type} (v : Array β) : Array β := v\n")
    out.append("/-- `arr_cmplx flip(const arr_cmplx& x)` of lib/utils.cpp (PINNED): a copy of `x`, then `std::reverse(r.begin(), r.end())` -/\n"
               "def arrFlipC (x : Array (Cx α)) : Array (Cx α) := x.reverse\n")
    out.append("/-- `arr_cmplx / real_t`: `base_array<T>::operator/(const T2&)` = `array_cast` copy, then `operator/=`: `_vec[i] /= rhs` for every `i`\n"
               "(all three PINNED in unit StepsArray); `_vec[i] /= rhs` is `cmplx_t::operator/=(const real_t&)` (regenerated: `Cx.divrAssign`) -/\n"
               "def arrDivCR (a : Array (Cx α)) (d : α) : Array (Cx α) := a.map fun v => Cx.divrAssign v d\n")
    out.append("/-- `arr_real + real_t`: `base_array<T>::operator+(const T2&)` = `array_cast` copy, then `operator+=`: `_vec[i] += rhs` for every `i` (PINNED) -/\n"
               "def arrAddRS (a : Array α) (d : α) : Array α := a.map fun v => v + d\n")
    out.append("/-- `arr_real / arr_real`: `base_array<T>::operator/(const base_array<T2>&)` = `array_cast` copy, then `operator/=` (PINNED):\n"
               "`DSPLIB_ASSERT(this->size() == rhs.size())`, then `_vec[i] /= rhs[i]`.  The call THROWS exactly when this holds -/\n"
               "def arrDivRAThrows (a b : Array α) : Prop := a.size ≠ b.size\n")
    out.append("instance (a b : Array α) : Decidable (arrDivRAThrows a b) := by unfold arrDivRAThrows; exact inferInstance\n")
    out.append("/-- … and the value returned when it does not throw (see `arrDivRAThrows`) -/\n"
               "def arrDivRA (a b : Array α) : Array α :=\n  Array.ofFn (n := a.size) fun i => a[i] / (b.getD i.val zeroR)\n")
    out.append("/-- `for (int i = 0; i < n; ++i) BODY` where BODY may `return r` out of the enclosing function: the iterations run in order, from\n"
               "`i`, on the state `s`; the first one that returns ends the search (`some r`, with the state it left); `none` = the loop ran to its end -/\n"
               "def firstHit {σ ρ : Type} (body : σ → Nat → σ × Option ρ) : Nat → Nat → σ → σ × Option ρ\n"
               "  | 0, _, s => (s, none)\n"
               "  | n + 1, i, s =>\n    match body s i with\n    | (s', some r) => (s', some r)\n    | (s', none) => firstHit body n (i + 1) s'\n")
    csig = lambda n: canon_type(qt(unwrap(n["inner"][0])))
    # --- abs2(const arr_cmplx&), rms(const arr_cmplx&) of lib/math.cpp (translated)
    for cname, lname, sig, rt in (("abs2", "abs2Arr", "arr_real (const arr_cmplx &)", "Array α"),
                                  ("rms", "rmsC", "real_t (const arr_cmplx &)", "α")):
        fs = [d for d in clang_ast(math_tu, "dsplib::" + cname) if d.get("kind") == "FunctionDecl" and d.get("name") == cname and has_body(d) and
              canon_type(qt(d)) == sig]
        if len(fs) != 1:
            raise Unsupported("%s(const arr_cmplx&) not found" % cname)
        texts, _tr = gen_free_fn(fs[0], lname, "`%s %s(const arr_cmplx&)` of lib/math.cpp" % (sig.split(" (")[0], cname), ret_lt=rt)
        out += texts

    def mk_calls(eps):
        calls = steps_user_calls()
        scalar_abs2 = calls["abs2"]

        def abs2_call(a, n):
            if csig(n) == "arr_real (const arr_cmplx &)" and len(a) == 1:
                return "(abs2Arr %s)" % a[0]
            return scalar_abs2(a, n)

        def sig_call(cxx, sig, lean, nargs=1):
            def h(a, n):
                if csig(n) != sig or len(a) != nargs:
                    raise Unsupported("call of %s with signature %s" % (cxx, csig(n)))
                return "(%s %s)" % (lean, " ".join(a))
            return h
        calls.update({"abs2": abs2_call, "eps": eps,
                      "rms": sig_call("rms", "real_t (const arr_cmplx &)", "rmsC"),
                      "flip": sig_call("flip", "arr_cmplx (const arr_cmplx &)", "arrFlipC"),
                      "isinf": sig_call("isinf", "bool (double)", "stdIsinf"),
                      "isnan": sig_call("isnan", "bool (double)", "stdIsnan"),
                      "_is_valid": sig_call("_is_valid", "bool (const real_t &) noexcept", "detIsValid"),
                      "_convert_impulse": sig_call("_convert_impulse", "arr_cmplx (const arr_cmplx &)", "detConvertImpulse")})
        return calls
    # --- _is_valid
    fs = [d for d in clang_ast(DETECTOR_TU, "_is_valid") if d.get("kind") == "FunctionDecl" and d.get("name") == "_is_valid" and has_body(d)]
    if len(fs) != 1 or canon_type(qt(fs[0])) != "bool (const real_t &) noexcept":
        raise Unsupported("_is_valid(const real_t&) not found")
    texts, _tr = gen_free_fn(fs[0], "detIsValid", "`bool _is_valid(const real_t& value)` of lib/detector.cpp (as a proposition)", calls=mk_calls(EpsCall()), ret_lt="Prop")
    out += texts
    out.append("instance (value : α) : Decidable (detIsValid value) := by unfold detIsValid; exact inferInstance\n")
    # --- CDelay<cmplx_t>
    tmpl = [d for d in clang_ast(DETECTOR_TU, "CDelay") if d.get("kind") == "ClassTemplateDecl" and d.get("name") == "CDelay"]
    if len(tmpl) != 1:
        raise Unsupported("class template CDelay not found")
    specs = [c for c in tmpl[0]["inner"] if c.get("kind") == "ClassTemplateSpecializationDecl" and
             [canon_type(qt(a)) for a in c.get("inner", []) if a.get("kind") == "TemplateArgument"] == ["cmplx_t"] and
             any(x.get("kind") == "FieldDecl" for x in c.get("inner", []))]
    if len(specs) != 1:
        raise Unsupported("instantiation CDelay<cmplx_t> not found")
    crec = specs[0]
    cs = ctors_of(crec)
    if len(cs) != 1:
        raise Unsupported("CDelay<cmplx_t>: expected exactly one user-written constructor, found %d" % len(cs))

    def cd_setup(tr):
        base_init = tr.init_value

        def init_value(m, n):
            u = n
            while u.get("kind") == "ExprWithCleanups":
                u = u["inner"][0]
            if tr.members[m][1] == "Array (Cx α)" and canon_type(strip_type(qt(u))) == "std::vector<cmplx_t>":
                ct = canon_type(u.get("ctorType", {}).get("qualType", ""))
                args = [a for a in u.get("inner", []) if a.get("kind") != "CXXDefaultArgExpr"]
                if u.get("kind") != "CXXConstructExpr" or ct != "void (std::vector::size_type, const std::vector<cmplx_t>::allocator_type &)" or len(args) != 1:
                    raise Unsupported("initialiser of the std::vector<cmplx_t> member %s through %s" % (m, ct))
                a0 = args[0]
                if a0.get("kind") == "ImplicitCastExpr" and a0.get("castKind") == "IntegralCast":
                    a0 = a0["inner"][0]
                if canon_type(strip_type(qt(a0))) != "int":
                    raise Unsupported("std::vector(n) with n : %s" % qt(a0))
                return "(vecNewC %s)" % tr.e(a0)
            return base_init(m, n)
        tr.init_value = init_value
    texts, _tr = gen_ctor(crec, cs[0], CDELAY_TABLE, "cdelayCtor", "CDelay<cmplx_t>", "CDelayState", "void (int)", pure=True, setup=cd_setup,
                          doc_extra="\n(`std::vector<T>(n)` with a negative `n` throws `std::length_error` in C++: see `vecNewC`.)")
    out += texts
    cd_order = check_members(crec, CDELAY_TABLE, "CDelay<cmplx_t>")
    cd_members = {m: (m.lstrip("_"), lean_type_of(CDELAY_TABLE[m]), "%s %s" % (CDELAY_TABLE[m], m)) for m in cd_order}

    def method_of(rec, name, sig, what):
        ms = [m for m in methods_named(rec, name) if canon_type(qt(m)) == sig]
        if len(ms) != 1:
            raise Unsupported("%s::%s with signature `%s` not found" % (what, name, sig))
        return ms[0]

    def gen_method(rec, name, sig, what, members, state_t, lname, doc, effect, ret_lt=None, sig_ops=None, calls=None, void=False, extra=()):
        m = method_of(rec, name, sig, what)
        tr = DetTr(members=members, single=True, user_calls=calls or mk_calls(EpsCall()), effect=effect, sig_ops=sig_ops or {})
        tr.loop_param_order = "decl"
        tr.name_hint = lname
        tr.types["self"] = state_t
        for nm, ty in extra:
            tr.bound.add(nm)
            tr.decl_order.append(nm)
            tr.types[nm] = ty
        ps = []
        for p_ in params_of(m):
            lt = lean_type_of(qt(p_))
            if lt not in ("α", "Int", "Cx α", "Array α", "Array (Cx α)") or "*" in qt(p_) or ("&" in qt(p_) and "const" not in qt(p_)):
                raise Unsupported("%s::%s parameter %s : %s" % (what, name, p_["name"], qt(p_)))
            v = tr.var(p_["name"])
            if lt.startswith("Array"):
                if "&" not in qt(p_):
                    raise Unsupported("%s::%s: array parameter %s by value" % (what, name, p_["name"]))
                tr.arrays[p_["name"]] = (v, lt)
            tr.declare(v, lt)
            ps.append("(%s : %s)" % (v, lt))
        body = tr.stmts([body_of(m)], "self" if (void and effect) else FALLOFF)
        if FALLOFF in body or tr.pre or tr.uninit:
            raise Unsupported("%s::%s: control can reach the end without a return" % (what, name))
        if bool(tr.writes) != bool(effect):
            raise Unsupported("%s::%s: %s" % (what, name, "writes members" if tr.writes else "writes no member"))
        rt = state_t if (void and effect) else ("%s × %s" % (state_t, ret_lt) if effect else ret_lt)
        return list(tr.aux_defs) + ["/-- %s -/\ndef %s %s(self : %s)%s : %s :=\n%s\n" % (
            doc, lname, "".join("(%s : %s) " % e_ for e_ in extra), state_t, "".join(" " + x for x in ps), rt, indent(body))], tr
    texts, _tr = gen_method(crec, "push", "void (const cmplx_t &) noexcept", "CDelay<cmplx_t>", cd_members, "CDelayState α", "cdelayPush",
                            "`void CDelay<cmplx_t>::push(const cmplx_t& v)`: the members afterwards", True, void=True)
    out += texts
    texts, _tr = gen_method(crec, "extract", "std::vector<cmplx_t> () const noexcept", "CDelay<cmplx_t>", cd_members, "CDelayState α", "cdelayExtract",
                            "`std::vector<cmplx_t> CDelay<cmplx_t>::extract() const`", False, ret_lt="Array (Cx α)")
    out += texts
    texts, _tr = gen_method(crec, "reset", "void () noexcept", "CDelay<cmplx_t>", cd_members, "CDelayState α", "cdelayReset",
                            "`void CDelay<cmplx_t>::reset()`: the members afterwards (`std::fill(_buf.begin(), _buf.end(), T())`: `arrFill`, unit StepsArray)", True, void=True)
    out += texts
    # --- MAFilter<real_t>::process(const base_array<T>&)
    mt = [d for d in clang_ast(DETECTOR_TU, "MAFilter") if d.get("kind") == "ClassTemplateDecl" and d.get("name") == "MAFilter"]
    if len(mt) != 1:
        raise Unsupported("class template MAFilter not found")
    mspecs = [c for c in mt[0]["inner"] if c.get("kind") == "ClassTemplateSpecializationDecl" and
              [canon_type(qt(a)) for a in c.get("inner", []) if a.get("kind") == "TemplateArgument"] == ["double"] and
              any(x.get("kind") == "FieldDecl" for x in c.get("inner", []))]
    if len(mspecs) != 1:
        raise Unsupported("instantiation MAFilter<double> not found")
    mrec = mspecs[0]
    ma_order = check_members(mrec, MAFILTER_TABLE, "MAFilter<real_t>")
    ma_members = {m: (m.lstrip("_"), lean_type_of(MAFILTER_TABLE[m]), "%s %s" % (MAFILTER_TABLE[m], m)) for m in ma_order}
    method_of(mrec, "process", "double (const double &)", "MAFilter<real_t>")      # the scalar overload: `maFilterStep` of unit StepsDyn
    texts, _tr = gen_method(mrec, "process", "base_array<double> (const base_array<double> &)", "MAFilter<real_t>", ma_members, "MAFilterState α",
                            "maFilterProcess", "`base_array<T> MAFilter<real_t>::process(const base_array<T>& x)`: the members afterwards and the returned array;\n"
                            "`process(x[i])` is the scalar overload `MAFilter<real_t>::process(const real_t&)` = `maFilterStep` (unit StepsDyn)", True,
                            ret_lt="Array α", sig_ops={None: {("process", ("α",), "α"): ("maFilterStep", True)}})
    out += texts
    # --- FftFilter::block_size()
    frec = record(clang_ast(FIR_TU, "FftFilter"), "FftFilter")
    ff_order = check_members(frec, FFTFILTER_TABLE, "FftFilter")
    ff_members = {m: (m.lstrip("_"), lean_type_of(FFTFILTER_TABLE[m]), "%s %s" % (FFTFILTER_TABLE[m], m)) for m in ff_order}
    texts, _tr = gen_method(frec, "block_size", "int () const", "FftFilter", ff_members, "FftFilterState α", "fftFilterBlockSize",
                            "`int FftFilter::block_size() const`", False, ret_lt="Int")
    out += texts
    for nm, sig in (("process", "arr_cmplx (const arr_cmplx &)"),):
        if len([m for m in frec["inner"] if m.get("kind") == "CXXMethodDecl" and m.get("name") == nm and canon_type(qt(m)) == sig]) != 1:
            raise Unsupported("FftFilter::%s with signature %s not found" % (nm, sig))
    # --- PreambleDetector::Result
    rrec = record(clang_ast(DETECTOR_TU, "PreambleDetector::Result"), "Result")
    r_order = check_members(rrec, DETRESULT_TABLE, "PreambleDetector::Result")
    if [c for c in rrec["inner"] if c.get("kind") in ("CXXConstructorDecl", "CXXMethodDecl") and not c.get("isImplicit")]:
        raise Unsupported("PreambleDetector::Result has user-written constructors / member functions")
    r_fields = {f: (f, lean_type_of(DETRESULT_TABLE[f])) for f in r_order}
    out.append(struct_text("DetResult", "`PreambleDetector::Result` (include/dsplib/detector.h; C++ declarations CHECKED): the value a reporting call returns",
                           [(f, lean_type_of(DETRESULT_TABLE[f]), "%s %s" % (DETRESULT_TABLE[f], f)) for f in r_order]))
    # --- PreambleDetectorImpl
    prec = record(clang_ast(DETECTOR_TU, "PreambleDetectorImpl"), "PreambleDetectorImpl")
    # `static arr_cmplx _convert_impulse(const arr_cmplx& h)`
    ci = method_of(prec, "_convert_impulse", "arr_cmplx (const arr_cmplx &)", "PreambleDetectorImpl")
    if ci.get("storageClass") != "static":
        raise Unsupported("PreambleDetectorImpl::_convert_impulse is not static")

    class CiTr(StepTr):
        def e_CXXOperatorCallExpr(self, n):
            args = n["inner"][1:]
            if self.callee_name(n) == "operator/" and len(args) == 2 and canon_type(strip_type(qt(args[0]))) in ARRAY_CX_T and \
                    kind_of_type(qt(args[1])) == "real":
                if canon_type(qt(unwrap(n["inner"][0]))) != "base_array<cmplx_t> (const double &) const":
                    raise Unsupported("operator/ on an arr_cmplx through %s" % qt(unwrap(n["inner"][0])))
                return "(arrDivCR %s %s)" % (self.e(args[0]), self.e(args[1]))
            return super().e_CXXOperatorCallExpr(n)
    ctr = CiTr(members={}, single=True, user_calls=mk_calls(EpsCall()), effect=False)
    ctr.bound = set()
    hn = params_of(ci)[0]["name"]
    ctr.arrays[hn] = (ctr.var(hn), "Array (Cx α)")
    ctr.declare(ctr.var(hn), "Array (Cx α)")
    body = ctr.stmts([body_of(ci)], FALLOFF)
    if FALLOFF in body or ctr.pre or ctr.aux_defs:
        raise Unsupported("PreambleDetectorImpl::_convert_impulse: unexpected shape")
    out.append("/-- `static arr_cmplx PreambleDetectorImpl::_convert_impulse(const arr_cmplx& %s)` -/\n"
               "def detConvertImpulse (%s : Array (Cx α)) : Array (Cx α) :=\n%s\n" % (hn, ctr.var(hn), indent(body)))
    # the constructor
    subobj_types = {"FftFilter": "FftFilterState α", "MAFilterR": "MAFilterState α", "CDelay<cmplx_t>": "CDelayState α"}
    subctors = {
        "FftFilter": {"lean": "fftFilterCtor nextpow2 fftN", "sig": "void (const arr_cmplx &)", "ret": "FftFilterState α", "assign": []},
        "MAFilterR": {"lean": "maFilterCtor", "sig": "void (int)", "ret": "MAFilterState α", "assign": []},
        "CDelay<cmplx_t>": {"lean": "cdelayCtor", "sig": "void (int)", "ret": "CDelayState α", "assign": []},
    }
    cs = ctors_of(prec)
    if len(cs) != 1:
        raise Unsupported("PreambleDetectorImpl: expected exactly one user-written constructor, found %d" % len(cs))

    def det_setup(tr):
        tr.extra_params = [("nextpow2", "Int → Int", "`int nextpow2(int)` of lib/math.cpp (NOT translated: a parameter, as in `fftFilterCtor`)"),
                           ("fftN", "Array (Cx α) → Int → Array (Cx α)", "`arr_cmplx fft(const arr_cmplx&, int n)` (NOT translated: a parameter, as in `fftFilterCtor`; C01)")]
    texts, _tr = gen_ctor(prec, cs[0], DETECTOR_TABLE, "detectorCtor", "PreambleDetectorImpl", "DetectorState", "void (const arr_cmplx &, real_t)", pure=True,
                          subobj_types=subobj_types, subctors=subctors, user_calls=mk_calls(EpsCall()), setup=det_setup,
                          doc_extra="\nThe sub-objects are constructed by the generated constructors `fftFilterCtor` (unit StepsFftFilter), `maFilterCtor` (unit CtorDyn), `cdelayCtor`.")
    out += texts
    d_order = check_members(prec, DETECTOR_TABLE, "PreambleDetectorImpl")
    d_members = {m: (m.lstrip("_"), lean_type_of(DETECTOR_TABLE[m], subobj_types), "%s %s" % (DETECTOR_TABLE[m], m)) for m in d_order}
    sub_ops = {
        "_corr_flt": {("process", ("Array (Cx α)",), "Array (Cx α)"): ("fftFilterProcess fft1 ifft1", True),
                      ("block_size", (), "Int"): ("fftFilterBlockSize", False)},
        "_pow_flt": {("process", ("Array α",), "Array α"): ("maFilterProcess", True)},
        "_delay": {("push", ("Cx α",), "Unit"): ("cdelayPush", True),
                   ("extract", (), "Array (Cx α)"): ("cdelayExtract", False)},
    }
    texts, _tr = gen_method(prec, "frame_len", "int () const noexcept", "PreambleDetectorImpl", d_members, "DetectorState α", "detectorFrameLen",
                            "`int PreambleDetectorImpl::frame_len() const`", False, ret_lt="Int", sig_ops=sub_ops)
    out += texts
    # process
    pm = method_of(prec, "process", "std::optional<PreambleDetector::Result> (const arr_cmplx &)", "PreambleDetectorImpl")
    eps = EpsCall()

    class ProcTr(DetTr):
        def e_CXXOperatorCallExpr(self, n):
            args = n["inner"][1:]
            nm = self.callee_name(n)
            sig = canon_type(qt(unwrap(n["inner"][0])))
            if nm == "operator+" and len(args) == 2 and canon_type(strip_type(qt(args[0]))) in ARRAY_REAL_T and kind_of_type(qt(args[1])) == "real":
                if sig != "base_array<double> (const double &) const":
                    raise Unsupported("operator+ on an arr_real through %s" % sig)
                return "(arrAddRS %s %s)" % (self.e(args[0]), self.e(args[1]))
            if nm == "operator/" and len(args) == 2 and canon_type(strip_type(qt(args[0]))) in ARRAY_REAL_T and \
                    canon_type(strip_type(qt(args[1]))) in ARRAY_REAL_T:
                if sig != "base_array<double> (const base_array<double> &) const":
                    raise Unsupported("operator/ on two arr_real through %s" % sig)
                if not self.fallible or self.frames or self.inner_depth or self.in_loop or self.cond_depth or self.hit_ctx:
                    raise Unsupported("array / array (may throw) inside a branch / loop / condition")
                a, b = self.e(args[0]), self.e(args[1])
                # operator/=(const base_array<T2>&): DSPLIB_ASSERT(this->size() == rhs.size(), "arrays sizes must be equal") (PINNED, the
                # message is part of the digest): the statement the quotient occurs in is reached only when the sizes agree
                self.pre.append('if (arrDivRAThrows %s %s) then (.error "arrays sizes must be equal") else\n' % (a, b))
                return "(arrDivRA %s %s)" % (a, b)
            return super().e_CXXOperatorCallExpr(n)
    ops = dict(sub_ops)
    ops[None] = {("frame_len", (), "Int"): ("detectorFrameLen", False)}
    tr = ProcTr(members=d_members, single=True, user_calls=mk_calls(eps), effect=True, sig_ops=ops,
                struct_types={"PreambleDetector::Result": ("DetResult", r_fields)},
                opt_of={"std::optional<PreambleDetector::Result>": "PreambleDetector::Result"})
    tr.fallible = True
    tr.loop_param_order = "decl"
    tr.name_hint = "detectorProcess"
    tr.hit_result_type = "DetResult α"
    tr.types.update({"self": "DetectorState α", "fft1": "Array (Cx α) → Array (Cx α)", "ifft1": "Array (Cx α) → Array (Cx α)"})
    for nm in ("fft1", "ifft1"):
        tr.bound.add(nm)
        tr.decl_order.append(nm)
    pn = params_of(pm)[0]["name"]
    pv = tr.var(pn)
    if pv in tr.bound:
        raise Unsupported("PreambleDetectorImpl::process: parameter named %s" % pv)
    tr.arrays[pn] = (pv, "Array (Cx α)")
    tr.declare(pv, "Array (Cx α)")
    body = tr.stmts([body_of(pm)], FALLOFF)
    if FALLOFF in body or tr.pre or tr.uninit:
        raise Unsupported("PreambleDetectorImpl::process: control can reach the end without a return")
    if tr.writes - {"_corr_flt", "_pow_flt", "_delay"}:
        raise Unsupported("PreambleDetectorImpl::process writes the members %s" % sorted(tr.writes))
    eps_arg = "(eps : α) " if eps.used else ""
    out += tr.aux_defs
    out.append("/-- `std::optional<PreambleDetector::Result> PreambleDetectorImpl::process(const arr_cmplx& %s)`: `.error` = the exception thrown, else the members\n"
               "afterwards and the returned optional.  `fft1` / `ifft1` = `fft(const arr_cmplx&)` / `ifft(const arr_cmplx&)` (NOT translated: parameters of\n"
               "`fftFilterProcess`; C01 / C02); `eps` = `eps()`.  The element-wise quotient `abs2(cx) / (pwx + eps())` throws when the lengths differ\n"
               "(`arrDivRAThrows`; it never does for an object with `0 ≤ _nx < _n`: bridge `Props/C18Gen.lean`). -/\n"
               "def detectorProcess %s(fft1 ifft1 : Array (Cx α) → Array (Cx α)) (self : DetectorState α) (%s : Array (Cx α)) :\n"
               "    Except String (DetectorState α × Option (DetResult α)) :=\n%s\n" % (pn, eps_arg, pv, indent(body)))
    # --- PreambleDetectorImpl::reset()
    if len([m for m in frec["inner"] if m.get("kind") == "CXXMethodDecl" and m.get("name") == "process" and canon_type(qt(m)) == "arr_real (const arr_real &)"]) != 1:
        raise Unsupported("FftFilter::process(const arr_real&) not found")
    rops = {
        "_corr_flt": {("process", ("Array α",), "Array α"): ("fftFilterProcessR fft1 ifft1", True)},
        "_pow_flt": {("process", ("Array α",), "Array α"): ("maFilterProcess", True)},
        "_delay": {("reset", (), "Unit"): ("cdelayReset", True)},
        None: {("frame_len", (), "Int"): ("detectorFrameLen", False)},
    }
    tf = "Array (Cx α) → Array (Cx α)"
    texts, rtr = gen_method(prec, "reset", "void ()", "PreambleDetectorImpl", d_members, "DetectorState α", "detectorReset",
                            "`void PreambleDetectorImpl::reset()`: the members afterwards.  `fft1` / `ifft1` as in `detectorProcess`; `_corr_flt.process(zeros(…))` is the\n"
                            "overload `FftFilter::process(const arr_real&)` = `fftFilterProcessR` (unit StepsFftFilter)", True, void=True, sig_ops=rops,
                            extra=(("fft1", tf), ("ifft1", tf)))
    if rtr.writes - {"_corr_flt", "_pow_flt", "_delay"}:
        raise Unsupported("PreambleDetectorImpl::reset writes the members %s" % sorted(rtr.writes))
    out += texts
    out.append("end Gen\nend Dsp\n")
    return "\n".join(out)


# ------------------------------------------------------------------------------------------

# ------------------------------------------------------------------------------------------
# unit: StepsPeakloc  (lib/utils.cpp: both overloads of `peakloc`; lib/math.cpp: `real(cmplx_t)`)

PEAK_TU = '#include "utils.cpp"\n'


def gen_steps_peakloc():
    prefetch([(PEAK_TU, "dsplib::peakloc"), ('#include "math.cpp"\n', "dsplib::real")])
    has_body = lambda d: any(c.get("kind") == "CompoundStmt" for c in d.get("inner", []))
    out = [HEADER % "lib/utils.cpp (`peakloc(const arr_real&, int, bool)`, `peakloc(const arr_cmplx&, int, bool)`), lib/math.cpp (`real(cmplx_t)`)",
           "import DspVerif.Gen.StepsArray\n" + STEPS_HEAD[0], STEPS_HEAD[1]]
    # --- real(cmplx_t) of lib/math.cpp (translated)
    fs = [d for d in clang_ast('#include "math.cpp"\n', "dsplib::real") if d.get("kind") == "FunctionDecl" and d.get("name") == "real" and has_body(d) and
          canon_type(qt(d)) == "real_t (cmplx_t)"]
    if len(fs) != 1:
        raise Unsupported("real(cmplx_t) -> real_t with a body not found in lib/math.cpp")
    pn = params_of(fs[0])[0]["name"]
    tr = StepTr(members={}, single=True, user_calls=steps_user_calls(), effect=False)
    tr.bound = set()
    pv = tr.var(pn)
    tr.bound.add(pv)
    tr.decl_order.append(pv)
    tr.types[pv] = "Cx α"
    body = tr.stmts([body_of(fs[0])], FALLOFF)
    if FALLOFF in body or tr.pre or tr.writes or tr.uninit or tr.aux_defs:
        raise Unsupported("real(cmplx_t): unexpected shape")
    out.append("/-- `real_t real(cmplx_t %s)` of lib/math.cpp -/\ndef realOfCx (%s : Cx α) : α :=\n%s\n" % (pn, pv, indent(body)))

    def calls():
        c = steps_user_calls()

        def real(a, n):
            sig = canon_type(qt(unwrap(n["inner"][0])))
            if sig != "real_t (cmplx_t)" or len(a) != 1:
                raise Unsupported("call of real with signature %s" % sig)
            return "(realOfCx %s)" % a[0]
        c["real"] = real
        return c

    fs = [d for d in clang_ast(PEAK_TU, "dsplib::peakloc") if d.get("kind") == "FunctionDecl" and d.get("name") == "peakloc" and has_body(d)]
    want = {"real_t (const arr_real &, int, bool)": ("peaklocR", "Array α"), "real_t (const arr_cmplx &, int, bool)": ("peaklocC", "Array (Cx α)")}
    sigs = sorted(canon_type(qt(f)) for f in fs)
    if sigs != sorted(want):
        raise Unsupported("peakloc: the overloads with a body are %s" % sigs)
    for f in fs:
        sig = canon_type(qt(f))
        lname, at = want[sig]
        tr = StepTr(members={}, single=True, user_calls=calls(), effect=False)
        tr.bound = set()
        ps = params_of(f)
        av, iv, cv = tr.var(ps[0]["name"]), tr.var(ps[1]["name"]), tr.var(ps[2]["name"])
        tr.arrays[ps[0]["name"]] = (av, at)
        for v, lt in ((av, at), (iv, "Int"), (cv, "Bool")):
            tr.bound.add(v)
            tr.decl_order.append(v)
            tr.types[v] = lt
        tr.name_hint = lname
        body = tr.stmts([body_of(f)], FALLOFF)
        if FALLOFF in body or tr.pre or tr.writes or tr.uninit:
            raise Unsupported("peakloc %s: unexpected shape" % sig)
        out.extend(tr.aux_defs)
        out.append("/-- `%s` — `peakloc(%s, %s, %s)` of lib/utils.cpp -/\ndef %s (%s : %s) (%s : Int) (%s : Bool) : α :=\n%s\n" % (
            sig, ps[0]["name"], ps[1]["name"], ps[2]["name"], lname, av, at, iv, cv, indent(body)))
    out.append("end Gen\nend Dsp\n")
    return "\n".join(out)


UNITS = {}


def unit(name, sources):
    def deco(f):
        UNITS[name] = (f, sources)
        return f
    return deco


unit("Cmplx", ["include/dsplib/types.h"])(gen_cmplx)
unit("Slice", ["include/dsplib/slice.h"])(gen_slice)
unit("SmallFft", ["lib/fft/small-fft.h", "lib/fft/primes-fft.h"])(gen_smallfft)
unit("Dynamics", ["lib/math.cpp", "include/dsplib/math.h", "include/dsplib/audio/compressor.h", "include/dsplib/audio/limiter.h"])(gen_dynamics)
unit("Awgn", ["lib/awgn.cpp"])(gen_awgn)
unit("Consts", ["lib/primes.cpp", "lib/fft/primes-fft.h", "lib/fft/fft.cpp", "CMakeLists.txt"])(gen_consts)
unit("StepsBase", ["include/dsplib/array.h", "lib/math.cpp", "include/dsplib/math.h"])(gen_steps_base)
unit("StepsArray", ["include/dsplib/array.h", "include/dsplib/types.h", "lib/math.cpp"])(gen_steps_array)
unit("StepsAdaptive", ["include/dsplib/lms.h", "include/dsplib/rls.h"])(gen_steps_adaptive)
unit("CtorAdaptive", ["include/dsplib/lms.h", "include/dsplib/rls.h"])(gen_ctor_adaptive)
unit("StepsTuner", ["include/dsplib/tuner.h", "include/dsplib/types.h"])(gen_steps_tuner)
unit("CtorTuner", ["include/dsplib/tuner.h", "include/dsplib/types.h"])(gen_ctor_tuner)
unit("StepsMedian", ["lib/medfilt.cpp", "include/dsplib/medfilt.h"])(gen_steps_median)
unit("CtorMedian", ["lib/medfilt.cpp", "include/dsplib/medfilt.h", "include/dsplib/array.h"])(gen_ctor_median)
unit("StepsSlice", ["include/dsplib/array.h", "include/dsplib/slice.h"])(gen_steps_slice)
unit("StepsFir", ["lib/fir.cpp", "include/dsplib/fir.h"])(gen_steps_fir)
unit("StepsDelay", ["include/dsplib/delay.h", "lib/hilbert.cpp", "include/dsplib/hilbert.h"])(gen_steps_delay)
unit("CtorFir", ["include/dsplib/fir.h"])(gen_ctor_fir)
unit("StepsFftFilter", ["lib/fir.cpp", "include/dsplib/fir.h", "lib/math.cpp", "include/dsplib/array.h"])(gen_steps_fftfilter)
unit("CtorDelay", ["include/dsplib/delay.h", "lib/hilbert.cpp", "include/dsplib/hilbert.h", "lib/math.cpp", "include/dsplib/keywords.h",
                   "include/dsplib/array.h"])(gen_ctor_delay)
unit("StepsSnr", ["lib/snr.cpp", "include/dsplib/math.h"])(gen_steps_snr)
unit("StepsResample", ["lib/resample/fir-decimator.cpp", "lib/resample/fir-interpolator.cpp", "lib/resample/fir-rate-converter.cpp",
                       "include/dsplib/resample.h"])(gen_steps_resample)
unit("CtorDyn", ["include/dsplib/audio/compressor.h", "include/dsplib/audio/limiter.h", "include/dsplib/audio/noise-gate.h",
                 "lib/agc.cpp", "lib/ma-filter.h", "include/dsplib/agc.h"])(gen_ctor_dyn)
unit("CtorResample", ["lib/resample/fir-decimator.cpp", "lib/resample/fir-interpolator.cpp", "lib/resample/fir-rate-converter.cpp",
                      "lib/resample/resample.cpp", "include/dsplib/resample.h", "include/dsplib/utils.h", "lib/utils.cpp"])(gen_ctor_resample)
unit("StepsDetector", ["lib/detector.cpp", "include/dsplib/detector.h", "lib/ma-filter.h", "include/dsplib/fir.h", "lib/fir.cpp", "lib/math.cpp",
                       "lib/utils.cpp", "include/dsplib/array.h"])(gen_steps_detector)
unit("StepsPeakloc", ["lib/utils.cpp", "lib/math.cpp", "include/dsplib/utils.h", "include/dsplib/types.h", "include/dsplib/array.h"])(gen_steps_peakloc)
unit("StepsDyn", ["include/dsplib/audio/compressor.h", "include/dsplib/audio/limiter.h", "include/dsplib/audio/noise-gate.h",
                  "lib/agc.cpp", "lib/ma-filter.h", "include/dsplib/agc.h"])(gen_steps_dyn)


def source_sha(sources):
    h = hashlib.sha256()
    for s in sources:
        with open(os.path.join(REPO, s), "rb") as f:
            h.update(f.read())
    return h.hexdigest()[:16]


def run(units=None, out_dir=None, check_only=False):
    """regenerate units; returns dict unit -> {ok, changed, error, src_sha, out_sha}"""
    out_dir = out_dir or GEN_DIR
    os.makedirs(out_dir, exist_ok=True)
    res = {}
    for name in (units or list(UNITS)):
        f, sources = UNITS[name]
        path = os.path.join(out_dir, name + ".lean")
        info = {"sources": sources}
        try:
            info["src_sha"] = source_sha(sources)
            text = f()
            lines = text.split("\n")
            imps = [l for l in lines if l.startswith("import ")]
            text = "\n".join(imps + [l for l in lines if not l.startswith("import ")])
            old = open(path).read() if os.path.exists(path) else None
            info["changed"] = (old != text)
            info["out_sha"] = sha(text)
            if old != text and not check_only:
                with open(path, "w") as fh:
                    fh.write(text)
            info["ok"] = True
        except Unsupported as ex:
            info["ok"] = False
            info["error"] = "unsupported construct: %s" % ex
        except FileNotFoundError as ex:
            info["ok"] = False
            info["error"] = "source missing: %s" % ex
        res[name] = info
    return res


if __name__ == "__main__":
    import argparse
    ap = argparse.ArgumentParser()
    ap.add_argument("units", nargs="*")
    ap.add_argument("--check-only", action="store_true")
    a = ap.parse_args()
    r = run(a.units or None, check_only=a.check_only)
    print(json.dumps(r, indent=1))
    sys.exit(0 if all(v["ok"] for v in r.values()) else 3)
