#!/usr/bin/env python3
"""ingest_seed3.py <PROP> [more PROPs]  — copy a third-round seeding agent's deliverables (/tmp/seed4/<PROP>/out: patch_E/F.diff,
demo_E/F.cpp, notes.md, meta.json {"E": {"what","needs"}, "F": {...}}) into seeded/<PROP>-E, seeded/<PROP>-F"""
import json, os, shutil, sys
V = os.path.dirname(os.path.dirname(os.path.abspath(__file__)))
for prop in sys.argv[1:]:
    src = "/tmp/seed4/%s/out" % prop
    try:
        info = json.load(open(os.path.join(src, "meta.json")))
    except Exception as ex:
        print(prop, "no usable meta.json:", ex); continue
    for letter in ("G",):
        if not os.path.exists(os.path.join(src, "patch_%s.diff" % letter)):
            print(prop, letter, "missing patch"); continue
        d = os.path.join(V, "seeded", "%s-%s" % (prop, letter))
        os.makedirs(d, exist_ok=True)
        shutil.copy(os.path.join(src, "patch_%s.diff" % letter), os.path.join(d, "patch.diff"))
        shutil.copy(os.path.join(src, "demo_%s.cpp" % letter), os.path.join(d, "demo.cpp"))
        if os.path.exists(os.path.join(src, "notes.md")):
            shutil.copy(os.path.join(src, "notes.md"), os.path.join(d, "notes_from_author.md"))
        json.dump({"id": "%s-%s" % (prop, letter), "property": prop, "what": info[letter]["what"], "needs_to_manifest": info[letter]["needs"],
                   "demo": "demo.cpp", "checks": [prop],
                   "origin": "fourth-round ('needs something specific to manifest: two cooperating sites, a multi-step history or an unusual in-domain input') sub-agent: given only the property text, the one-line descriptions of the earlier seeds "
                             "(to avoid repeats) and a scratch worktree; asked for ONE change that ordinary use would not expose at once (see notes_from_author.md)"},
                  open(os.path.join(d, "meta.json"), "w"), indent=1)
        print("ingested", prop, letter)
