#!/usr/bin/env python3
"""regenerate MANIFEST.json from tools/props.py (claimed properties) + the not-yet-claimed list"""
import json, os, sys
HERE = os.path.dirname(os.path.abspath(__file__))
sys.path.insert(0, HERE)
from props import PROPS, LEVEL_TEXT, NOT_CLAIMED

ids = [json.loads(l)["id"] for l in open(os.path.join(HERE, "..", "properties.jsonl"))]
checks = []
for pid in ids:
    if pid not in PROPS:
        continue
    p = PROPS[pid]
    checks.append({
        "property_id": pid,
        "quick_cmd": "python3 tools/check.py %s --tier quick" % pid,
        "thorough_cmd": "python3 tools/check.py %s --tier thorough" % pid,
        "evidence_file": "/verif/evidence/%s.json" % pid,
        "replay_cmd_template": "python3 tools/check.py %s --replay {path}" % pid,
        "engine": "lean4-proof+correspondence",
        "level_claimed": {"category": "proof", "text": LEVEL_TEXT[pid], "design_ref": "DESIGN.md §6 %s" % pid},
        "level_note": p["level_note"],
        "technique": p["technique"],
    })
m = {
    "version": 1,
    "setup_cmd": "sh tools/setup.sh",
    "hooks": {
        "guard": "DSPLIB_VERIF",
        "enable": "checks configure /repo's working tree with cmake into /verif/.work/lib-<cfg> with -DCMAKE_CXX_FLAGS=-DDSPLIB_VERIF (plus sanitizer flags for the asan/tsan configurations)",
        "baseline_off_cmd": "sh tools/baseline_off.sh",
        "source_commits": ["379f83a"],
        "add_only": True,
    },
    "engines": [{
        "name": "lean4-proof+correspondence", "path": "tools/check.py",
        "serves_properties": [c["property_id"] for c in checks],
        "kind_free_text": "Lean 4 theorems about (a) definitions regenerated from the C++ source by tools/cxx2lean.py and (b) hand-written executable models; "
                          "the models are tied to /repo by a differential correspondence run (C++ harness on the real library vs native Lean driver) on every check; "
                          "the property's own oracle runs on the implementation to search for a concrete failing input",
    }],
    "checks": checks,
    "notes": "See DESIGN.md. known_findings.txt lists repaired (fixed:) and recorded (known:) defects.",
    "not_applicable": [{"property_id": pid, "reason": NOT_CLAIMED.get(pid, "check not built yet in this session (see DESIGN.md §9 order of work)")}
                       for pid in ids if pid not in PROPS],
}
json.dump(m, open(os.path.join(HERE, "..", "MANIFEST.json"), "w"), indent=1)
print("claimed:", [c["property_id"] for c in checks])
