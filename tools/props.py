"""Per-property configuration of check.py."""

TB_COMMON = [
    "Lean 4.33.0 kernel; axioms of every property theorem limited to propext / Classical.choice / Quot.sound (printed per theorem in coverage.axioms)",
    "Mathlib v4.33.0 as installed (only in Props/Lib files)",
    "tools/cxx2lean.py + clang-14 JSON AST: the regenerated Gen/*.lean definitions are what the theorems speak about",
    "harness/*.cpp + dspdriver + the comparison in tools/check.py: the correspondence between hand-written models and the implementation is differential testing, not proof",
    "C++ object model, compiler code generation, libstdc++ and glibc libm are modelled (List/Int/Float/ℝ), not verified",
]

LEVEL_TEXT = {
    "C04": "Theorems, for every (n,i1,i2,step) in Int: the REGENERATED slice constructor accepts exactly outside the five listed situations, "
           "what it accepts denotes Python's x[i1:i2:step], every touched index is in bounds, copies of slice objects denote the same elements, "
           "assignment = gather-then-scatter with count check. Tie: constructor regenerated from slice.h each run (translator) + exhaustive-box "
           "correspondence of the assignment model under ASan/UBSan. Unbounded in n, which the exhaustive box cannot reach.",
}

NOT_CLAIMED = {}

PROPS = {
    "C04": {
        "technique": "Lean 4 proof over a constructor model regenerated from slice.h by cxx2lean, plus exhaustive ASan correspondence of the hand-written assignment model",
        "level_note": "int modelled as unbounded Int (no_overflow box |i|,n <= 2^30); memcpy/memmove/std::copy aliasing behaviour is exhibited only by the ASan correspondence run; translator and harness are trusted",
        "gen": ["Slice"],
        "lean_props": "DspVerif.Props.C04",
        "harness": [{"src": "c04.cpp", "cfg": "asan"}],
        "rule": "exhaustive box over (n,i1,i2,step) x {real,cmplx} x {const,mutable} (+ end placeholder, copies of slice objects), "
                "all same-array (dst,src) slice pairs of equal count, every right-hand-side kind x length relation, random triples to n=1e5; "
                "distinct = distinct protocol lines; non-trivial = all (every line is a different argument tuple)",
        "trusted_base": TB_COMMON + [
            "int is modelled as unbounded Int: valid for |i1|,|i2|,n <= 2^30 (theorem no_overflow), outside that box the C++ arithmetic may overflow",
            "memcpy/memmove/std::copy/std::fill are modelled by gather-then-scatter on List; their aliasing behaviour on the real heap is checked only by the ASan correspondence run",
        ],
        "assumptions": ["array storage modelled as an immutable List; pointer aliasing exhibited only by the ASan+UBSan harness run"],
    },
}
