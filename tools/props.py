"""Per-property configuration of check.py."""

TB_COMMON = [
    "Lean 4.33.0 kernel; axioms of every property theorem limited to propext / Classical.choice / Quot.sound (printed per theorem in coverage.axioms)",
    "Mathlib v4.33.0 as installed (only in Props/Lib files)",
    "tools/cxx2lean.py + clang-14 JSON AST: the regenerated Gen/*.lean definitions are what the theorems speak about; its array primitives (memmove/memcpy/fill/concat/slice, pointer = array + offset) "
    "are its reading of the C++ calls, and the source fragments it pins by AST digest instead of translating are tied by the correspondence run only (a change there fails GEN)",
    "harness/*.cpp + dspdriver + the comparison in tools/check.py: the correspondence between hand-written models and the implementation is differential testing, not proof",
    "C++ object model, compiler code generation, libstdc++ and glibc libm are modelled (List/Int/Float/ℝ), not verified",
]

LEVEL_TEXT = {
    "C04": "Theorems, for every (n,i1,i2,step) in Int: the REGENERATED slice constructor accepts exactly outside the five listed situations, "
           "what it accepts denotes Python's x[i1:i2:step], every touched index is in bounds, copies of slice objects denote the same elements, "
           "assignment = gather-then-scatter with count check. Tie: constructor regenerated from slice.h each run (translator) + exhaustive-box "
           "correspondence of the assignment model under ASan/UBSan. Unbounded in n, which the exhaustive box cannot reach.",
    "C10": "Theorems for EVERY history, EVERY capacity >= 1 and EVERY plan-construction function: the LRU container keeps "
           "'no duplicate key, at most cap entries'; after any history the cache holds exactly the cap most recently used lengths of the "
           "flattened request log (nested requests of plan constructors included); every request returns the plan a fresh thread would build. "
           "Tie: lock-step correspondence of both caches' key lists (DSPLIB_VERIF hook) after every request of every enumerated history, "
           "bit-exact comparison of every result with the fresh-thread result; bypass set, MAX_DFT_SIZE and default cache size regenerated.",
    "C15": "Theorems for EVERY 32-bit unsigned argument: isprime n <-> Nat.Prime n, factor n = sorted prime factorisation with product n, "
           "primes n = the primes <= n (n < 2^31), nextprime n = least prime >= n (n <= 4294967291), nextpow2 = ceil log2, ispow2 exact; "
           "generator invariant (Bertrand bounds the fuel; no uint32 wrap); cost clause: at most sqrt(n) trial divisions (loop counters of the model). "
           "Tie: PRIMES table regenerated from primes.cpp; executable model vs implementation on every n <= 2^13 (2^16 thorough), boundary windows, random 32-bit; "
           "implementation vs sieve / deterministic Miller-Rabin on every n <= 2^18 (2^22 thorough) with a per-call time limit.",
}

NOT_CLAIMED = {}

PROPS = {
    "C15": {
        "gen": ["Consts"],
        "lean_props": "DspVerif.Props.C15",
        "harness": [{"src": "c15.cpp", "cfg": "rel"}],
        "rule": "every n in [0, 2^18] (thorough 2^22) against a sieve; windows around 2^16, 2^24, 2^31, 65521^2, 2^32; squares/products of primes near 2^16; "
                "1e5 (1e6) random 32-bit arguments against deterministic Miller-Rabin; nextpow2/ispow2 on every m <= 2^20 and within 64 of every 2^k; "
                "distinct = distinct (function, argument) pairs; non-trivial = all",
        "technique": "Lean 4 proof (loop invariants over an executable uint32-faithful model, Bertrand's postulate, Lucas certificate for 4294967291) + model/implementation correspondence + sieve/Miller-Rabin oracle with per-call time limit",
        "level_note": "uint32 arithmetic modelled on Nat with explicit wrap; std::vector growth, the int conversion of factors >= 2^31 (toI32) and wall-clock cost are modelled/measured, not verified; cost theorem counts loop iterations of the model",
        "trusted_base": TB_COMMON + ["wall-clock bound per call (0.5 s) is a measurement; the theorem bounds loop iterations of the model"],
        "assumptions": ["answers not representable in the return type (prime factor >= 2^31, nextprime above 4294967291, primes(n >= 2^31)) are outside the property"],
    },
    "C10": {
        "gen": ["Consts"],
        "lean_props": "DspVerif.Props.C10",
        "harness": [{"src": "c10.cpp", "cfg": "rel"},
                    {"src": "c10.cpp", "cfg": "rel", "cache_size": 1, "tiers": ["thorough"]},
                    {"src": "c10.cpp", "cfg": "rel", "cache_size": 2, "tiers": ["thorough"]}],
        "rule": "all request histories of length <= L over three 6..8-letter alphabets of transform calls (complex, real, mixed incl. ifft/irfft/czt), "
                "with and without long-lived plan objects, plus random 400..2000-request histories over 40 lengths; each history in a fresh thread; "
                "distinct = distinct histories (every enumerated sequence is different); non-trivial = all",
        "technique": "Lean 4 refinement proof (LRU list -> move-to-front spec -> most-recently-used characterisation) + lock-step correspondence through a read-only hook",
        "level_note": "std::list/unordered_map/shared_ptr are modelled by an association list with immutable values; which requests a plan constructor issues "
                      "(childrenC/childrenR) is hand-modelled and validated only by the correspondence run; plan construction is assumed to be a function of the length (checked bit-exactly on the enumerated histories)",
        "trusted_base": TB_COMMON + [
            "hook commit in /repo (DSPLIB_VERIF): verif_fft_cache_keys / verif_rfft_cache_keys / verif_fft_cache_capacity",
            "plan construction deterministic in the length (`mk : Nat -> plan`): assumed by the theorems, observed bit-exactly by the harness",
        ],
        "assumptions": ["thread_local caches: one cache pair per thread; each history runs in a fresh std::thread"],
    },
    "C04": {
        "technique": "Lean 4 proof over a constructor model regenerated from slice.h by cxx2lean, plus exhaustive ASan correspondence of the hand-written assignment model",
        "level_note": "int modelled as unbounded Int (no_overflow box |i|,n <= 2^30); memcpy/memmove/std::copy aliasing behaviour is exhibited only by the ASan correspondence run; translator and harness are trusted",
        "gen": ["Slice"],
        "lean_props": "DspVerif.Props.C04",
        "harness": [{"src": "c04.cpp", "cfg": "asan"}],
        "rule": "exhaustive box over (n,i1,i2,step) x {real,cmplx} x {const,mutable} (+ end placeholder, copies of slice objects), "
                "all same-array (dst,src) slice pairs of equal count, every right-hand-side kind x length relation, random triples to n=1e5; "
                "distinct = distinct protocol lines; non-trivial = all (every line is a different argument tuple)",
        "trusted_base": TB_COMMON + [
            "int is modelled as unbounded Int: valid for |i1|,|i2|,n <= 2^30 (theorem no_overflow), outside that box the C++ arithmetic may overflow",
            "memcpy/memmove/std::copy/std::fill are modelled by gather-then-scatter on List; their aliasing behaviour on the real heap is checked only by the ASan correspondence run",
        ],
        "assumptions": ["array storage modelled as an immutable List; pointer aliasing exhibited only by the ASan+UBSan harness run"],
    },
}

# per-property entries contributed as snippets (tools/props.d/Cxx.py): executed with PROPS, LEVEL_TEXT, NOT_CLAIMED, TB_COMMON in scope
import glob as _glob, os as _os
for _f in sorted(_glob.glob(_os.path.join(_os.path.dirname(_os.path.abspath(__file__)), "props.d", "*.py"))):
    exec(compile(open(_f).read(), _f, "exec"))
