#!/bin/sh
# offline setup: build the Lean library (models, proofs, driver) and the instrumented libraries
set -e
cd "$(dirname "$0")/.."
python3 tools/cxx2lean.py >/dev/null || true
(cd lean && lake build DspVerif && lake build $(sed -n 's/^name = "\(dspdriver_c[0-9]*\)"/\1/p' lakefile.toml))
python3 - <<'PY'
import sys, os
sys.path.insert(0, os.path.join(os.getcwd(), "tools"))
import check
for cfg in ("rel", "asan"):
    check.build_lib(cfg)
PY
