# C20 — to be merged into tools/props.py by the integrator (LEVEL_TEXT and PROPS entries)

LEVEL_TEXT["C20"] = (
    "Theorems over the reals, for EVERY parameter set the constructors admit (ratio >= 1, knee >= 0, times >= 0; sample rate > 0), EVERY input signal and "
    "EVERY earlier history: (1) Compressor and Limiter keep gs_ <= 0, so every emitted gain 10^(gs/20) is in (0,1] and |out| <= |x|; NoiseGate keeps lg_ in [0,1]; "
    "(2) the GENERATED gain computers Compressor::_compute_gain / Limiter::_compute_gain equal characteristic(level) - level for the documented piecewise "
    "characteristic (unity below T-W/2, quadratic knee, slope 1/ratio resp. flat ceiling above), which is monotone, 1-Lipschitz (hence continuous, no jump at the knee "
    "edges), rises at least with slope 1/ratio, and with zero attack/release coefficients the output level of every non-zero sample is level-shifted by exactly that; "
    "(3) a limiter with zero attack coefficient satisfies level + gs <= T after every step and |out| <= 10^(T/20) for arbitrary signals, release and knee; "
    "(4) one smoothing step multiplies the distance to the target by wA or wR = exp(-ln 9/(fs t)) in [0,1): distance never grows, side preserved, and fs*t steps shrink it by exactly 9; "
    "(5) Agc: the power estimate handed to log is max(moving average, 0) + eps() >= 2^-52 > 0 for EVERY value of the moving average (also a negative recurrent sum), so the log-gain is a real number "
    "on every sample of every signal from every state, and every gain is > 0 and <= exp(maxGain) = 10^(max_gain/20) with no assumption on the power estimate; for constant input power with required gain <= max_gain and step sizes in [0,1/2] the clamp is inactive and the "
    "log-level error contracts by |1-2t| per sample; error <= ln 1.01 implies output power within 1 % of the target; a full window of a constant makes the moving average return it exactly. "
    "Tie: the gain computers, mag2db and db2mag are regenerated from the C++ AST each run (Gen/Dynamics); the sample loops, constructors, NoiseGate, MAFilter and Agc are hand-written "
    "models run bit-for-bit against the real objects (framed signals, state across calls, constructor guards at and just outside their bounds). "
    "Measured only (long double oracle on the implementation): Float rounding (gain may exceed 1 by a few ulp: bound 1e-12), the 1 % AGC level after the fill transient, "
    "the 0.01 dB sweep at the knee edges (1e-8 dB), 10 %..90 % rise/fall time = fs*t +- 2 samples."
    " REGENERATED TIE (Props/C20Gen): besides the gain computers, the constructors (incl. default arguments) and process loop bodies of Compressor / Limiter / NoiseGate, MAFilter and Agc (real and complex) are translated from the C++ on every run and proved equal to the models (*Ctor_eq, *Step_eq, *_run_eq); the gain-range, limiter-ceiling and Agc max-gain theorems are restated from the generated constructor through the generated run (*_gen_from_ctor*). "
)

PROPS["C20"] = {
    "gen": ["Dynamics", "StepsBase", "StepsDyn", "StepsArray", "CtorDyn"],
    "lean_props": ["DspVerif.Props.C20", "DspVerif.Props.C20Gen"],
    "harness": [{"src": "c20.cpp", "cfg": "rel",
                 "tol": {"comp": (1e-11, 1e-290), "lim": (1e-11, 1e-290), "gate": (1e-11, 1e-290),
                         "agcr": (1e-11, 1e-290), "agcc": (1e-11, 1e-290)}}],
    "technique": "Lean 4 proofs over the reals about gain computers regenerated from the C++ AST (cxx2lean) and hand-written sample-loop models, "
                 "+ bit-level correspondence of the models with the real objects + long-double oracle of the documented characteristic on the implementation",
    "level_note": "Float rounding is not modelled (theorems are exact over the reals; the oracle measures the gap: gain <= 1 + 1e-12, curve within 1e-8 dB, ceiling within 1e-12 relative); "
                  "the sample loops / constructors / NoiseGate / MAFilter / Agc models are hand-written, proved equal to the REGENERATED constructors and loop bodies (Props/C20Gen) and additionally validated by the correspondence run; "
                  "the constructors' smoothing coefficient exp(-ln 9/(fs*t)) is modelled with the explicit branch t = 0 -> 0 (IEEE exp(-inf)); sample rate > 0 is a hypothesis (not checked by the constructors)",
    "rule": "CORR: random parameter sets over the whole quantifier box (thresholds -50..0, ratios 1..50, knees 0..20, times 0 / sub-sample / 1e-4..4 s, rates 8k..192k, corners forced), "
            "short framed signals with levels at / next to the knee edges and the gate threshold, extreme finite amplitudes, constructor guards at and just outside every bound, "
            "20000-sample signals (decimated), each case emitted per selector (gain, out, log-gain); "
            "ORACLE: 1e5-sample arbitrary signals (noise, bursts, steps, silence, sine, denormals, mixtures) in random frames for gain range / out = x*gain / limiter ceiling / per-sample smoothing law, "
            "3000-sample signals over many parameter sets incl. all corner combinations, step responses for the rise/fall times, "
            "static-curve sweeps -100..+20 dB (0.25 dB, 0.01 dB within 1 dB of both knee edges, +-4 ulp at the edges) over thresholds x ratios 1..50 x knee widths, "
            "AGC targets 0.01..100 x input powers -60..+20 dB x averaging lengths 1..1000, real and complex; "
            "AGC on arbitrary signals (noise, burst then exact silence longer than the window, silence first, alternating burst/silence, steps, +-0 runs, denormals, clicks, mixtures) real and complex, "
            "averaging lengths 1, 2, 3, 7, 333, 1000 and random 1..1000, amplitudes over 80 dB at absolute scales 1e-300, 1e-17, 1e-8, 1, 1e8, 1e100, max_gain 0, -0, 1e-17, -20, 60, 400 dB, 1e5-sample and one > 2^17-sample call: "
            "every gain finite, > 0 and <= max_gain, out = x*gain, constant-envelope tail after the arbitrary part back at the target within 1 %, random framing (empty frames incl.) and copies made mid-stream "
            "(copy-ctor, copy-assign over a used object, self-assign, vector(n, proto)) bit-identical to the single call; the same signal classes and framing / copy checks for Compressor, Limiter, NoiseGate; "
            "a subset of the AGC arbitrary-signal cases (short windows every sample, windows 333 / 1000 decimated) goes through CORR; statistics count the samples whose recurrent power sum is below -eps (the class of the repaired NaN defect); "
            "distinct = distinct protocol lines / oracle evaluations (each a different parameter-signal pair); non-trivial = all",
    "trusted_base": TB_COMMON + [
        "Model/Dynamics.lean sample loops, constructors (t <= 0 gives coefficient 0, as the repaired code writes it), NoiseGate, MAFilter, Agc: hand-written, proved equal to the regenerated code (Props/C20Gen) and tied by the correspondence run (bit-exact so far)",
        "glibc log10 / pow / exp / log are the same functions at Float in the Lean driver and in the C++ build (observed: 0 ulp difference on all correspondence cases)",
        "long double (x87 80-bit) log10l / powl / expl as the reference arithmetic of the oracle",
    ],
    "assumptions": ["sample rate > 0 (the constructors do not check it; the property quantifies over 8 kHz..192 kHz)",
                    "finite input samples; a time argument of -0.0 (passes the >= 0 guard, gives coefficient +inf and NaN output) is outside the model and only recorded as statistic probe_negative_zero_attack_gives_nan"],
}
