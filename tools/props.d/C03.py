# snippet for tools/props.py — merge LEVEL_TEXT["C03"] and PROPS["C03"] (TB_COMMON is defined there)

LEVEL_TEXT["C03"] = (
    "Theorems for EVERY expression program over real/complex arrays and real/int/complex scalars (any nesting depth, any lengths): "
    "the model of the array.h overloads accepts a program iff it has no length mismatch (operands of equal length, mask as long as the array, "
    "every index in range), the result has the static length and is complex iff an operand is (all scalar types alpha, incl. Float), and over the reals its "
    "i-th element IS the scalar expression at i evaluated with the field operations of C (quotients under non-zero denominators), for all of "
    "+ - * /, unary minus, scalar on either side, the compound forms incl. a op= a, and |, mask and index-list selection as pure element moves. "
    "The cmplx_t formulas are regenerated from types.h each run and each proved to be the field operation (incl. real-on-the-left and compound forms). "
    "Tie: bit-level correspondence of the executable model with the real overloads on random programs (every overload hit, coverage table in evidence) under ASan/UBSan. "
    "Measured only: agreement with a complex<long double> interpreter within 4 eps*scale per operation; object-level facts of the C++ "
    "(operands bit-identical after every call, nothing changed after a rejected call, copies own their storage) are harness checks, trivial in the pure model."
)

PROPS["C03"] = {
    "gen": ["Cmplx"],
    "lean_props": "DspVerif.Props.C03",
    "harness": [{"src": "c03.cpp", "cfg": "asan",
                 # same formulas in the same order => agreement is bit-exact today (only NaN sign bits differ); the tolerance only
                 # leaves room for harmless re-association. zpad/concat/m* are pure element moves: exact.
                 "tol": {"prog": (1e-13, 0.0), "sc": (1e-13, 0.0)}}],
    "rule": "random expression programs (2..4 real/complex variables, 1..6 statements: expression / assignment / copy-construct / compound op= with array or scalar / |=, "
            "expression depth 1..6 over + - * / with array or real/int/cmplx_t/std::complex scalar on either side, unary +/-, |, mask and index-list selection), "
            "14 (thorough 120) programs for EVERY base length 0..64 plus 158 (1516) programs with lengths log-uniform in 65..10^4, a quarter of them with magnitudes 1e-100..1e100, "
            "values incl. +0, -0, +-1, small integers; ~4% of the statements carry a planted length/mask/index violation, ~8% are aliasing forms a op= a, a op= (a op a), a |= a; "
            "every library call snapshots its operands; plus 2000 (5000) x 27 scalar cmplx_t operator cases, zeropad/concatenate/complex/real/imag/conj on every length 0..64; "
            "distinct = distinct protocol lines + oracle-only programs (each a different random program); non-trivial = all",
    "technique": "Lean 4 proof (structural induction over an expression language mirroring the overload set; ring homomorphism Cx R -> C for the regenerated cmplx_t formulas) "
                 "+ bit-level model/implementation correspondence on random programs under ASan/UBSan + complex<long double> reference interpreter with a running 4*eps*scale error bound",
    "level_note": "overload resolution (which scalar operator each operand combination reaches, int -> real_t, std::complex -> cmplx_t, promotion of the left scalar) is hand-modelled and "
                  "validated by the correspondence run only; std::vector storage is modelled by immutable lists, so 'operands unchanged', 'unchanged after a rejected call' and "
                  "'copies are independent' are theorems about the model and snapshot checks on the implementation; floating-point rounding is not modelled (oracle measurement)",
    "trusted_base": TB_COMMON + [
        "Model/ArrayOps.lean mirrors the C++ overload resolution by hand (array.h templates are outside the translator's subset); the correspondence run hits all 145 overload/operand-kind labels",
        "the oracle's tolerance is a running bound: 4*eps*(|a|+|b|), 4*eps*|a||b|, 4*eps*|a|/|b| per + - / * / step propagated through the expression (long double reference); "
        "elements whose operands leave [1e-100, 1e100] (or divide by 0) are counted as outside the claimed range, not checked",
    ],
    "assumptions": ["values within the property's magnitude range 0 or 1e-100..1e100 per operand (outside: compared model-vs-implementation only)",
                    "programs are well-typed C++ (arr_real op= complex, assigning complex to a real array do not compile: 'ill-typed' in the model, never generated)"],
}
