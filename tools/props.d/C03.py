# snippet for tools/props.py — merge LEVEL_TEXT["C03"] and PROPS["C03"] (TB_COMMON is defined there)

LEVEL_TEXT["C03"] = (
    "Theorems for EVERY expression program over real/complex arrays and real/int/complex scalars (any nesting depth, any lengths): "
    "the model of the array.h overloads accepts a program iff it has no length mismatch (operands of equal length, mask as long as the array, "
    "every index in range), the result has the static length and is complex iff an operand is (all scalar types alpha, incl. Float), and over the reals its "
    "i-th element IS the scalar expression at i evaluated with the field operations of C (quotients under non-zero denominators), for all of "
    "+ - * /, unary minus, scalar on either side, the compound forms incl. a op= a, and |, mask and index-list selection as pure element moves. "
    "The cmplx_t formulas are regenerated from types.h each run and each proved to be the field operation (incl. real-on-the-left and compound forms). "
    "Tie: bit-level correspondence (sign of zero included) of the executable model with the real overloads on random programs (every overload hit, coverage table in evidence; "
    "intermediates reach the overloads as rvalues half of the time) and on 135 compiled C++ expression forms whose intermediates are genuine temporaries, under ASan/UBSan. "
    "Measured only: agreement with a complex<long double> interpreter within 4 eps*scale per operation; object-level facts of the C++ "
    "(operands bit-identical after every call, nothing changed after a rejected call, copies own their storage, an operator result is a prvalue that owns its storage in every "
    "consumption idiom and equals, bit for bit, the same computation done step by step through named arrays) are harness checks, trivial in the pure model."
)

PROPS["C03"] = {
    "gen": ["Cmplx"],
    "lean_props": "DspVerif.Props.C03",
    "harness": [{"src": "c03.cpp", "cfg": "asan",
                 # same formulas in the same order => agreement is bit-exact today (only NaN sign bits differ); the tolerance only
                 # leaves room for harmless re-association. zpad/concat/m* are pure element moves: exact. `form` (compiled expressions
                 # with temporaries): exact. check.py compares float tokens numerically (-0 == +0 even at tolerance 0), therefore every
                 # result of `prog` and `form` is followed by a sign-of-zero token `z:+-..` (one char per component) that is compared as a string.
                 "tol": {"prog": (1e-13, 0.0), "sc": (1e-13, 0.0)}}],
    "rule": "random expression programs (2..4 real/complex variables, 1..6 statements: expression / assignment / copy-construct / compound op= with array or scalar / |=, "
            "expression depth 1..6 over + - * / with array or real/int/cmplx_t/std::complex scalar on either side, unary +/-, |, mask and index-list selection), "
            "14 (thorough 120) programs for EVERY base length 0..64 plus 158 (1516) programs with lengths log-uniform in 65..10^4 plus 2 (12) oracle-only programs on single frames of "
            "65536..196700 elements, a quarter of them with magnitudes 1e-100..1e100, "
            "values incl. +0, -0, +-1, small integers, exact powers of two, and (wide mode) the absolute scale classes 1e-300, 1e-17, 1e-8, 1e8, 1e17, 1e300, denormals, DBL_MAX; "
            "~4% of the statements carry a planted length/mask/index violation, ~8% are aliasing forms a op= a, a op= (a op a), a |= a; "
            "every library call snapshots its operands; owned intermediates (results of inner operators, literals) are passed on as RVALUES (std::move) with probability 1/2, so the "
            "interpreter reaches an overload with the value categories a C++ expression has; copies also through std::vector<arr>(3, prototype) with the siblings written; "
            "COMPILED FORMS: 135 C++ expressions whose intermediates are genuine temporaries (every binary operator with the temporary left / right / both, nested two and three deep, "
            "scalar of each type on either side of a temporary, unary minus, | , mask / index-list / arr_int selection of temporaries, compound op= and |= with a temporary or aliasing "
            "right operand, rejected forms), instantiated for the real/complex operand-kind combinations they use (905 instantiations), on correlated operands (a==b, a==b*c exactly, "
            "a==-b, a==scalar, +-0 against +-0, real-valued complex) for lengths {0,1,2,3,4,5,8,13,16,33,64}, one random 6..64 and one 65..600 (thorough: every 0..64 three times + 6 up to 10^4); "
            "each form is compared BIT FOR BIT (sign of zero; NaN=NaN) with the same tree evaluated step by step through named arrays, with the long double oracle and (CORR tag form) with the "
            "Lean model, and is consumed by copy-initialisation, const auto& (twice, both alive), auto&&, range-for, by-const-reference argument, reference member of an aggregate and a "
            "decltype(EXPR) return, with same-size arrays allocated, filled and pushed through library operators between binding and reading; a reference-typed operator expression is reported statically; "
            "plus 2000 (5000) x 27 scalar cmplx_t operator cases, zeropad/concatenate/complex/real/imag/conj on every length 0..64; "
            "PROMOTION (oracle key C03:promotion-value): 37 mixed operator forms x 4 operators (real array with cmplx_t / std::complex scalar on either side and with a complex array, "
            "complex array with real array / real_t / int on the right incl. the compound forms, real_t / int on the left of a complex array, int scalar with a real array, std::complex "
            "converted field by field, arr_int meeting real / complex arrays and scalars on either side and in compound forms, real|complex concatenation) on a deterministic sweep of the "
            "palette {+0,-0,1,-1,2,-3,0.5,5} for every element x scalar-component combination (64 scalars x L=8 through CORR, 64 x L=512 oracle only) plus 402 (6014) random rounds "
            "(purely real / purely imaginary / (+-0,+-0) / (+-1,+-0) scalars, elements equal to +-scalar components = exact cancellations, all-equal arrays, real-valued and purely imaginary "
            "complex arrays, the scale classes; thorough also 65537 and 131073 elements): every result BIT-IDENTICAL (sign of zero; NaN=NaN) to the harness's own double evaluation of the "
            "types.h formula the form stands for (cmplx_t op cmplx_t on the promoted operands (x,+0) for real-on-the-left / scalar-on-the-left forms, cmplx_t op real_t for complex-op-real forms, "
            "double op double after int -> real_t) and to the same operator applied after an explicit promotion complex(arr) / cmplx_t{x,0} / arr_real(arr_int) / real_t(n) through the library "
            "(bit-identical for promoting forms; for complex-op-real forms equal as values for + - *, within 4 eps for /, sign-of-zero differences counted in the statistics); "
            "distinct = distinct protocol lines + oracle-only programs (each a different random program); non-trivial = all",
    "technique": "Lean 4 proof (structural induction over an expression language mirroring the overload set; ring homomorphism Cx R -> C for the regenerated cmplx_t formulas) "
                 "+ bit-level (incl. sign of zero) model/implementation correspondence on random programs and on compiled expression forms with temporaries under ASan/UBSan "
                 "+ value-category / lifetime probes of operator results + complex<long double> reference interpreter with a running 4*eps*scale error bound",
    "level_note": "overload resolution (which scalar operator each operand combination reaches, int -> real_t, std::complex -> cmplx_t, promotion of the left scalar) is hand-modelled and "
                  "validated by the correspondence run only; std::vector storage is modelled by immutable lists, so 'operands unchanged', 'unchanged after a rejected call' and "
                  "'copies are independent' are theorems about the model and snapshot checks on the implementation; value categories and object lifetime do not exist in the model: "
                  "'an operator result is an array of its own, the same for temporaries as for named operands' is a harness check only (compiled forms, ASan); "
                  "unary plus returns a reference to its operand by design (array.h operator+()) and is not among the property's operators: it is exercised only nested inside larger "
                  "expressions, never as the top-level operator of a lifetime probe; floating-point rounding is not modelled (oracle measurement)",
    "trusted_base": TB_COMMON + [
        "Model/ArrayOps.lean mirrors the C++ overload resolution by hand (array.h templates are outside the translator's subset); the correspondence run hits all 147 overload/operand-kind labels (incl. std::vector<arr>(n, proto) copies)",
        "the oracle's tolerance is a running bound: 4*eps*(|a|+|b|), 4*eps*|a||b|, 4*eps*|a|/|b| per + - / * / step propagated through the expression (long double reference); "
        "elements whose operands leave [1e-100, 1e100] (or divide by 0) are counted as outside the claimed range, not checked",
    ],
    "assumptions": ["values within the property's magnitude range 0 or 1e-100..1e100 per operand (outside: compared model-vs-implementation only)",
                    "programs are well-typed C++ (arr_real op= complex, assigning complex to a real array do not compile: 'ill-typed' in the model, never generated)"],
}
