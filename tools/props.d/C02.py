# C02 — to be merged into tools/props.py by the integrator (PROPS["C02"], LEVEL_TEXT["C02"]).

LEVEL_TEXT["C02"] = (
    "Theorems over the executable model of lib/fft/ifft.cpp + lib/stft.cpp (Model/Ifft.lean, generic scalar), exact arithmetic (R/C), unbounded in n, "
    "relative to the forward transform being the DFT (hypotheses IsDft / IsRDft = the statement of C01 for Fft.fftC / Fft.fftR; shown satisfiable; the *_model "
    "corollaries instantiate them at the functions the driver runs): "
    "ifft (scale, conj, fft, conj) IS the inverse DFT for every n >= 1, hence ifft(fft(x)) = x and fft(ifft(X)) = X as arrays (DFT inversion from orthogonality of the roots of unity); n = 0 is rejected. "
    "The coefficient table of IfftPlanR equals exp(+2 pi i k/n) for EVERY even n - both fill paths (direct loop for 4 !| n, quarter-wave fill for 4 | n; the former defect). "
    "irfft(X, n) of a Hermitian spectrum is the real inverse DFT; irfft reads the bins 0..n/2 only, so the n-bin and the (n/2+1)-bin input forms give the same signal "
    "(every scalar type); irfft(rfft(x)) = x from both forms; every odd n, n = 0 and every other input size is rejected. "
    "The three frequency ranges: _convert_range_istft o _convert_range_stft is the identity (twosided: every n; centered: every even n; onesided: on Hermitian frames, and on the bins 0..n/2 - "
    "all irfft reads - for every frame), every scalar type. "
    "istft o stft: for EVERY window (COLA is not needed), overlap < nwin <= nfft, even nfft, range, method and signal: the frame count is (nx-overlap)/hop, the output length nwin+(nseg-1)hop, and "
    "y[t] = x[t] at every sample whose accumulated weight passes the code's guard (> nseg eps). "
    "No division by zero in istft: every output sample is a quotient by the guarded weight, which is non-zero for every window, frame list and nseg (0 included: the zero-frame 0/0 was repaired in /repo, commit 4d79298). "
    "UNCONDITIONAL (Props/C02Total): with C01's fftC_eq / fftR_eq the hypotheses are discharged for the library's own transform models at every length 1 <= n < 2^31 -- ifft_eq_idft_total, ifft_fft_total, fft_ifft_total, irfft_eq_total, irfft_rfft_total, istft_stft_total. "
    "Tie: correspondence of the model with the library (ifft, irfft both forms + rejected sizes, iscola outcome incl. hop <= 0, stft frames of all ranges, istft of stft frames AND of arbitrary frames with arbitrary/negative windows): "
    "stft/istft/iscola bit-exact today (tolerance 1e-11 of the line maximum), ifft/irfft <= 8e-13 (tolerance 1e-10; the forward model's chirp phase for prime sizes, see C01). "
    "Rejected calls (odd n by irfft / IfftPlanR / one-argument irfft / istft, wrong bin or frame counts, overlap >= nwin, empty inputs) are part of the histories the harness runs: the model is a function of the "
    "arguments alone, so every result the library returns AFTER rejected calls on the same thread goes through the same correspondence and the same bounds, and is compared bit-exactly with a fresh thread. "
    "Measured by the ORACLE in long double (not proved): rounding - ||ifft(fft(x)) - x|| <= 64 n eps ||x||, ifft / irfft vs the long-double inverse (real) DFT <= 32 n eps ||.|| (worst observed 0.11 of the bound), "
    "irfft forms bit-identical, |istft(stft(x))[t] - x[t]| <= 4 eps nfft ||x||_2 A[t] with A[t] = sum_i |win^a| / sum_i win^(a+1) the conditioning of the normalisation (worst observed 0.11 of the bound), all outputs finite."
)

PROPS["C02"] = {
    "gen": [],
    "lean_props": ["DspVerif.Props.C02", "DspVerif.Props.C02Total"],
    "harness": [{"src": "c02.cpp", "cfg": "rel",
                 "tol": {"*": (1e-11, 0.0), "ifft": (1e-10, 0.0), "irfft": (1e-10, 0.0), "ifftg": (1e-9, 0.0), "irfftg": (1e-9, 0.0)}},
                {"src": "c02.cpp", "cfg": "asan", "tiers": ["thorough"],
                 "tol": {"*": (1e-11, 0.0), "ifft": (1e-10, 0.0), "irfft": (1e-10, 0.0), "ifftg": (1e-9, 0.0), "irfftg": (1e-9, 0.0)}}],
    "rule": "ifft: EVERY n in 1..2048 (quick 1..512) x {gauss, impulse, constant, tone, alternating, 1e+-100 dynamic range; ROUND 4: an impulse of amplitude DBL_MAX/64 at every length without a Bluestein leaf (finite spectrum, finite inverse: ifft(fft(x)) must reproduce it; lengths with a prime factor > 41 are counted, not judged -- C01's known finding; the same class as a real impulse through rfft / irfft in both input forms at even lengths where neither n nor n/2 has such a factor)}, free function and IfftPlan objects (reused across calls), all samples against the "
            "long-double inverse DFT, both compositions; + sampled n to 2^17 (primes, 2p, 4q, 2^k, odd); "
            "irfft: EVERY even n in 2..2048 (quick 2..512), both input forms, bins from rfft(x) and synthetic Hermitian bins (upper half of the n-form unrelated data), one-argument overload, plan reuse, "
            "every odd n in 1..2049 and n in {-3..0, 4097, 65537, 99999} rejected for four input sizes, wrong input sizes rejected; sampled even n to 2^17; "
            "stft/istft: nfft in {8..1024 powers of two} + {12,20,24,28,36,40,48,60,72,96,100,120,144,200,240,360,500,1000} + even non-multiples of 4 {10,14,30,66} (quick: 19 of them), nwin = nfft, "
            "nfft/2(+1), nfft-3, windows {hann, hamming, blackman, cosine, kaiser(0.5), kaiser(5), rectangular} symmetric and periodic, EVERY overlap 0..nwin-1 accepted by iscola for the method "
            "(6905 pairs thorough), ranges {centered, twosided, onesided} x methods {ola, wola}, 2-3 frame counts per pair (1..3, 4..9, and one covering every window position), "
            "lengths not aligned to the hop, signals {gauss, constant, ramp, sine, impulses at frame boundaries}; default-window overloads; overlap >= nwin rejected; zero frames (signal shorter than the window); "
            "histories with REJECTED calls: the irfft sweep runs half of its lengths right after irfft / IfftPlanR calls for n+1 and n-1 (three entry points) and a wrong bin count were rejected on the same worker thread "
            "(the other half before), the ifft sweep applies its plan objects to n+1, n-1 and 0 samples first, the stft grid issues istft(nfft+1), istft(nfft-1), istft(frames one bin too long) and stft(overlap = nwin) "
            "before a configuration; every history of length <= 3 (thorough 4 at n = 10, 12) over a 14..21-letter alphabet {7 valid entry points at n, n+2, n-2; 10 kinds of rejected call at n+1, n-1, n, 0, -2} "
            "around base lengths {2, 10, 12, 64} (thorough + {6, 16, 30, 100, 250, 1000, 2048}) that has a valid call after a rejected one, 96 (600) random histories of 32 (60) calls over 1..4 base lengths <= 2048 (8192) "
            "with 'try n+1, fall back to n' pairs, thorough: 2^16, 2^17, 2 x 46349, 4 x 12345, 98306; each history in a fresh thread, each valid result against the round-trip bound AND bit-exact with the same call in a "
            "fresh thread, each rejected call must throw; "
            "distinct = distinct protocol lines + distinct oracle configurations (entry point, length, class / stft configuration); non-trivial = all",
    "technique": "Lean 4 proofs over a hand-written generic-scalar model (DFT inversion from root-of-unity orthogonality, even/odd split of the real inverse transform, index-permutation and "
                 "overlap-add algebra) + differential correspondence with the library + long-double inverse-DFT / reconstruction oracle",
    "level_note": "floating-point rounding is not modelled: all tolerances are measured (ORACLE); the theorems are relative to fft = DFT (C01) - IsDft / IsRDft appear as explicit hypotheses and are "
                  "discharged only for the exact DFT (satisfiability), C01's theorem for Fft.fftC / Fft.fftR plugs into the *_model corollaries; the model is hand-written (loops -> index maps, "
                  "slice assignment -> overlapAdd fold) and tied to the code by the correspondence run only; iscola is modelled and tied by correspondence but carries no theorem "
                  "(it only delimits the property's domain, and the reconstruction theorem does not need it); overlaps > nwin in istft (negative hop) are not modelled",
    "trusted_base": TB_COMMON + [
        "property C01 (the forward plans compute the DFT) enters Props/C02 as the hypotheses IsDft / IsRDft",
        "Model/Ifft.lean is hand-written: operation order, the table fill, range index arithmetic, the guard `norm <= nseg*eps ? 1 : norm` and the frame placement are tied to lib/fft/ifft.cpp and lib/stft.cpp by the correspondence run",
        "long double (x87 80-bit) cosl/sinl tables and direct O(n^2) sums are the measurement reference of the ORACLE; the accumulated window weight is re-evaluated by the harness in long double",
    ],
    "assumptions": ["int modelled as unbounded Nat (sizes <= 2^17 in the sweep); overlap >= 0",
                    "windows are finite real arrays; the istft theorem needs no COLA property, the harness nevertheless restricts itself to the pairs iscola accepts (the property's domain)"],
}
