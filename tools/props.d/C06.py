# C06 — to be merged into tools/props.py by the integrator (LEVEL_TEXT["C06"] and PROPS["C06"]).

LEVEL_TEXT["C06"] = (
    "Theorems, STRUCTURAL (for every sample type with whatever + and * it carries -- no algebraic law is used, only data movement is rearranged -- "
    "hence for Float itself, no rounding caveat): T06.all framing_invariant / framing_invariant_except, stated once: a `process` with the split law "
    "process s (a++b) = (s2, y1++y2), (s1,y1) = process s a, (s2,y2) = process s1 b, gives for EVERY partition of EVERY stream into frames of the "
    "documented granularity (empty frames included) the final state and the concatenated output of ONE call on the whole stream (induction on the "
    "partition); any two partitions of the same stream agree. The split law itself for EVERY listed processor: FftFilter (block buffer _x, fill count "
    "_nx, overlap _olap all handed over; any frame lengths, outputs as concatenations; any transform pair), MAFilter, Tuner (phase incl. its wrap), "
    "Compressor, Limiter, NoiseGate (hold counter), Agc real and complex are literal sample folds that only append to their output (fold_split); "
    "the history hand-over proofs: FirFilter (last nh-1 samples, frames shorter than the history included, real and complex, any conj), Delay, "
    "HilbertFilter (delay line + FIR zipped), FIRInterpolator (sublen-1), FIRDecimator (decim*(sublen-1), frames multiples of decim), "
    "FIRRateConverter (sublen-1, frames multiples of decim, every L, M >= 1; needs every schedule offset < decim, which the constructor establishes), "
    "the FIRResampler wrapper in all four modes; MedianFilter, LMS/NLMS (outputs, errors, coefficients, history; locked or not) and RLS from the "
    "split theorems of C16 / C12. Each with its `*_framing` corollary from the constructor's state. Instance independence: in the pure model two "
    "objects used in any interleaving produce what each produces alone (instances_independent). "
    "Tie: the driver executes exactly the `runFrames` the theorems speak about, frame by frame, on the models of C07/C08/C12/C16/C20 and three local "
    "models (Delay, Tuner, HilbertFilter::process); bit-exact agreement with the real objects on every correspondence case, the FftFilter path "
    "included (its transform pair is instantiated with the C01 model of the library's own plans, Fft.fftC / Fft.ifftWith: tolerance 0). "
    "ORACLE (the C++ side of the same statement, incl. what no model sees: aliasing, statics, in-place buffers): the implementation against itself, "
    "memcmp of the doubles, whole-stream call vs EVERY composition of short streams, heavy-tailed random framings of streams to 1e5 samples, and "
    "2..4 separately constructed instances used interleaved."
    " REGENERATED TIE (Props/C06Gen): the Delay<T> constructors and process, the HilbertFilter constructors and process are translated from the C++ on every run (Gen/CtorDelay, Gen/StepsDelay, Gen/StepsFir, Gen/StepsSlice) and proved equal to the local models (delayRProcess_eq, hilbertProcess_eq, *Ctor*_buf); the split laws are restated for the generated code (gen_delay_split, gen_hilbert_split_from_ctor). "
)

PROPS["C06"] = {
    "gen": ["Cmplx", "Dynamics", "Slice", "StepsBase", "StepsArray", "StepsSlice", "StepsFir", "StepsDelay", "CtorFir", "CtorDelay"],
    "lean_props": ["DspVerif.Props.C06", "DspVerif.Props.C06Gen"],
    "harness": [{"src": "c06.cpp", "cfg": "rel",
                 "tol": {"frame": (1e-11, 1e-290), # frameF: FftFilter model on the C01 model of the library's plans (same operation order): worst observed deviation 0
                         # (seeds 1,2,3 quick; seed 1 thorough) -> compared bit for bit
                         "frameF": (0.0, 0.0), "frameR": (1e-9, 0.0)}}],
    "rule": "per processor (FirFilter R/C, FftFilter R/C, MAFilter R/C, Delay R/C (+ initial buffer), MedianFilter, HilbertFilter (explicit type-3 taps and "
            "the default design), Tuner, FIRInterpolator, FIRDecimator, FIRRateConverter, FIRResampler (custom taps and default designs), Agc R/C, Compressor, "
            "Limiter, NoiseGate, LMS R/C, NLMS R/C, RLS R/C) and parameter point: ALL 2^(k-1) framings of k granules for every k = 1..K (K = 12 thorough, 8 quick; "
            "granule = 1 sample, `decim` samples for the decimating converters, for FftFilter K granules spanning 3.4 blocks) plus all 2^7 framings of 8 coarse "
            "granules spanning 2.5x the memory of the processor (frames shorter than / equal to / longer than its history); parameter grid: filter, delay, "
            "moving-average and Hilbert lengths 2..300 (thorough: every length; quick: 26 edge lengths + a seed-dependent ninth), median orders 3..33 and 40, "
            "(L,M) in 1..12 x 1..12 reduced or not plus 160/441, 147/160, 441/160, 160/147 (thorough all 148 pairs; quick all <= 4 + a third), tap counts "
            "not a multiple of the branch count included, Tuner fs in {2..16, 100, 8000, 44100} x integer / non-integer / +-fs/2 frequencies (phase wrap inside "
            "the stream), adaptive lengths 1..33 (LMS from 2), AGC window 1..300, 20/60 random parameter sets per dynamics processor (hold time of a few samples, "
            "zero attack/release included); heavy-tailed random framings (frame sizes log-uniform in 1..4096 granules + sizes around the memory length) of "
            "streams of 5e3..1e5 samples, 3 (quick) / 10 (thorough) parameter draws per processor x 2..3 framings; 68 / 148 groups of 2..4 separately "
            "constructed instances (same type different parameters, mixed types, same parameters different data) used in random interleaving. "
            "Strengthening classes (round 2), for every processor class: COPIES (copy-construction, copy-assignment over a live object, element of "
            "std::vector<P>(2, obj), by value + move, a destroyed copy; from a fresh prototype or mid-stream; 2 / 8 draws per class, 4 copies each) used "
            "interleaved with their source -- each copy bit-identical to a separately constructed object after the same prefix, the source unaffected "
            "(key C06:<proc>:copy); frames of 20000, 70000 and 140000 samples after shorter ones on the same object (thorough: 2^14..2^17 (+1), 49152 k, "
            "decreasing orders; 3 / 7 of them also through the model with a 20000-sample frame); inputs and FIR / FFT / multirate coefficient vectors at "
            "the absolute scales {1e-300, 1e-17, 2^-60, 1e-8, 1, 1e8, 2^60, 1e100} and inputs with runs of +0 / -0 longer than the memory; rejected calls "
            "(frame not a multiple of decim_rate(), len(x) != len(d)) between the frames of decimating converters and adaptive filters (key C06:<proc>:failed-call). "
            "inputs: gaussian segments of varying scale, silences, plateaus, impulses, quantised values (median ties), level steps -70..+10 dB (dynamics), "
            "desired = short FIR of the input + noise (adaptive). distinct = distinct (processor, parameters, input, framing) comparisons; non-trivial = all",
    "technique": "Lean 4 structural proofs (generic framing theorem by induction on the partition + per-processor split laws over arbitrary sample types) over "
                 "the executable models + frame-by-frame correspondence of the models with the real objects + exhaustive/random bit-exact self-comparison "
                 "of the implementation (whole stream vs framed, interleaved instances)",
    "level_note": "the theorems are about the hand-written models; Delay, Tuner, FirFilter, FftFilter, HilbertFilter, MedianFilter, the adaptive filters, the resamplers and the dynamics processors are proved equal to REGENERATED constructors / process bodies in their own properties' Gen bridges (C06Gen for Delay and HilbertFilter), the remaining processors are tied by correspondence only; Delay, Tuner and HilbertFilter::process are "
                  "LOCAL models in Model/Framing.lean (the HilbertFilter constructor's firtype check is not modelled: the model is built from impz()); "
                  "FftFilter's transform pair is a parameter (the split law holds for any two functions; the driver uses the C01 model of the library's plans, Fft.fftC / Fft.ifftWith, at Float); "
                  "instance independence is immediate in a pure model -- on the C++ side it is established only by the interleaving runs of the oracle; "
                  "bit-exact framing invariance of the compiled code additionally relies on the compiler not reassociating differently per call "
                  "(observed: identical bits on all 14M comparisons)",
    "trusted_base": TB_COMMON + [
        "the split theorems of other properties that are reused: C12.lms_refines / lms_framing / rls_refines / runR_append, C16.process_append, "
        "C08.rateconv_schedule / phasePair_lt (same kernel, same axiom audit)",
        "memcmp equality of IEEE doubles as the oracle's notion of 'same output' (NaN payloads and signed zeros included)",
    ],
    "assumptions": [
        "FirFilter / HilbertFilter / FftFilter with at least one tap, Delay length >= 1 (the property's domain starts at 2)",
        "decimating converters: decim >= 1 and frames that are multiples of decim_rate() (any other length throws before any state change: C08.decim_reject)",
        "adaptive filters: len(x) = len(d) per frame; LmsFilter(len = 1) is outside the domain: every process() call throws (slice(nx, nx)), whole stream or framed",
    ],
}
