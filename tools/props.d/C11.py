# C11 — to be merged into tools/props.py by the integrator (PROPS["C11"], LEVEL_TEXT["C11"]).

LEVEL_TEXT["C11"] = (
    "Theorems over the executable model of lib/window.cpp + lib/fir.cpp (Model/Window.lean, generic scalar). "
    "Structural, for EVERY scalar type (hence for the Float bit patterns) and every n: _sym_window assembly gives length n, the symmetric variant is a palindrome, "
    "the periodic variant is the first n points of the symmetric window of n+1 (hann, hamming, blackman, blackmanharris, cosine, gauss for every alpha; tukey/kaiser symmetric); "
    "fir1 (all four types, every order, cut-off and window): accepted iff the window has n+1 taps (n+2 for odd-order high-pass / band-stop), result has that many taps, "
    "a wrong-length window is rejected, low-/high-pass responses are palindromes (every order, incl. the even-order high-pass of the former defect). "
    "Exact over R, for all n >= 3, all k < n, all parameter values: every point of hann/hamming/blackman/blackmanharris/cosine/gauss/tukey (both variants) equals the textbook closed form; "
    "kaiser equals |I0t(beta sqrt(1-(2k/(n-1)-1)^2))/|I0t(beta)|| with I0t the code's own series, which is a partial sum (<= 1000 terms) of the I0 power series; "
    "all values in [0,1] (kaiser: >= 0 only); fir1 low-pass sum h = 1, high-pass |sum (-1)^k h_k| = 1 (hypothesis: raw taps do not sum to 0), band-pass/band-stop palindromes. "
    "Measured by the ORACLE in long double (not proved): rounding distance to the closed forms (tolerance 1e-12), kaiser vs I0 summed to convergence (1e-12 relative, beta in [0,40]), "
    "kaiser <= 1, |H(0)|/|H(pi)| = 1 to 1e-12 in Float, Hamming-design masks (2 % / 0.02 outside 4/(n+1) transitions) on a 4096-point response grid. "
    "Tie: bit-level correspondence (tolerance 1e-12 relative to the line maximum; observed <= 1.2e-16, only gauss/pow differs at all) of model and library on window vectors, "
    "fir1 impulse responses, firtype and rejected windows; unbounded in n and in the parameters, which the sweep cannot reach."
)

PROPS["C11"] = {
    "gen": [],
    "lean_props": ["DspVerif.Props.C11", "DspVerif.Props.C11More"],
    "harness": [{"src": "c11.cpp", "cfg": "rel", "tol": {"*": (1e-12, 0.0)}},
                {"src": "c11.cpp", "cfg": "asan", "tol": {"*": (1e-12, 0.0)}, "tiers": ["thorough"]}],
    "rule": "windows: every family x every length 3..512 (quick 3..96) + log-uniformly sampled lengths to 1e5 (incl. 99999, 100000) x both variants (tukey/kaiser: symmetric only) x "
            "parameter grids gauss alpha {0.5..6}, tukey r {-0.5..1.5 incl. 0, 1, 1e-9, 0.999999}, kaiser beta {0..40} + a random parameter of the range per (family, length); "
            "fir1: every order 2..256 (quick 2..48) + sampled/boundary orders to 2000 x four types x cut-off grid of (0.02,0.98) (49 points thorough) + random cut-offs, band-edge pair grid + random pairs, "
            "default window and 17 custom window kinds (eight families, an asymmetric perturbed Hamming, periodic hann, hann with -0 ends, zero-padded and five scaled Hammings), wrong-length windows {nn-1, nn+1, 0, 1, 2nn, n+1 vs n+2}; "
            "boundary-directed (round 2): tukey r at -0.5, +-0, denormals, DBL_MIN, 1e-300 .. eps/2, eps, 2eps .. 1e-4, 1, 1.5 (each +- ulps), at the taper-length branch points 2k/(n-1) +- ulp and log-uniform over (1e-323,1); "
            "gauss alpha 0, denormal .. DBL_MAX (exp-underflow and square-overflow thresholds, range ends +- ulp, negative); kaiser beta 0, denormal .. 40 +- ulp, powers of two; "
            "one log-uniform parameter per (family, length) in the dense sweep; window lengths 2^16, 2^17 +- 1 .. 1000003; fir1 order 1 and orders to 8191 (masks) / 2^16, 2^17, 196608 (no mask), "
            "cut-offs within an ulp of 0, 0.02, 0.5, 0.98, 1 and at 1e-310 .. 1e-4, band edges one ulp apart / spanning (0,1); custom windows periodic, zero-padded, with -0 end points, "
            "scaled by 1e-300 .. 1e100 (scale invariance for odd prototype order); window passed as temporary / copy; valid design bit-identical before and after a rejected call; "
            "distinct = distinct (family,n,variant,parameter) / (type,n,cut-offs,window) tuples; non-trivial = all",
    "technique": "Lean 4 proofs over a hand-written generic-scalar model (structural theorems for every scalar type, closed forms / ranges / gains exact over R) "
                 "+ bit-level differential correspondence with the library + long-double oracle (closed forms, converged I0, 8192-point long-double FFT response masks)",
    "level_note": "floating-point rounding is not modelled: closeness of the Float values to the closed forms, kaiser <= 1, the Kaiser series' distance to I0 and the Hamming-design masks "
                  "are measured (ORACLE), not proved; literals enter the model through OfScientific (hand-copied from the source, validated bit-exactly by the correspondence run); "
                  "the gain theorems assume the raw prototype taps do not sum to zero (the code divides by that sum) — the harness runs the real code over the whole cut-off grid",
    "trusted_base": TB_COMMON + [
        "Model/Window.lean is hand-written (not generated): operation order, literals and the _sym_window / slice index arithmetic are tied to lib/window.cpp and lib/fir.cpp only by the correspondence run",
        "dsplib array slices / flip / concatenation are modelled by List take / drop / reverse / append; std::pow, std::cos, std::sin, std::exp, std::sqrt, std::floor by the Fn class (Float: libm; R: Mathlib)",
        "long double (x87 80-bit) cosl/sinl/expl/sqrtl and the harness's own radix-2 long-double FFT are the measurement reference of the ORACLE",
    ],
    "assumptions": ["n >= 3 for windows and n >= 1 for fir1 (the property's domain); int modelled as unbounded Nat (lengths <= 1e5, orders <= 2000 in the sweep)",
                    "asserts of fir1 (n > 0, 0 < wn < 1, wn1 < wn2) are compiled out (NDEBUG); inputs outside them are not part of the property and not exercised"],
}
