# C17 — to be merged into tools/props.py by the integrator (uses TB_COMMON of that file)

LEVEL_TEXT["C17"] = (
    "Theorems, unbounded. (a) shape/index functions for EVERY element type, length and argument: integer arange lists start + k*step for EXACTLY the k >= 0 "
    "strictly before stop (iff, both step signs; count = ceil((stop-start)/step) clamped at 0; step 0 throws), fractional arange with integral count "
    "(count, values, all strictly before stop, next point = stop), linspace (n points, first x1, last x2, equal spacing; n = 0 throws), repelem "
    "(r[k] = x[k/n]), flip, upsample (x[i] at i*n+phase, zero elsewhere), downsample (keeps exactly the indices phase + k*n < N), "
    "downsample(upsample(x)) = x for every factor and phase, zeropad, delayseq (r[i] = x[i-d] or 0), cumsum forward = prefix sums / reverse = suffix sums, "
    "complex(real z, imag z) = z. (b) value functions over R / C: the evaluated formula IS the definition: abs = modulus, abs2, "
    "angle = Complex.arg (the atan2 case split incl. both axes and 0), exp(cmplx) = complex exp, expj = e^{ix}, power(cmplx, real) = principal power via the polar form, "
    "power(x, int) with its four shortcuts = integer power (real and complex, x != 0), sum, dot (bilinear), mean, rms = sqrt(sum x^2 / n), "
    "stddev = sqrt(sum |x - mean|^2 / (n-1)) (n >= 2), norm p = 1, 2, >= 3 (real and complex), max/min/argmax/argmin = FIRST extreme, peak2peak = max - min "
    "(complex: ordered by magnitude), dB and degree conversions = their definitions and all six round trips; the dB conversions (mag2db, db2mag, pow2db, db2pow) and abs2(real) "
    "are the definitions REGENERATED from the C++ AST (Gen/Dynamics.lean), not hand copies: theorems and driver use them directly. "
    "Tie: bit-exact correspondence (angle/complex power/complex tanh within 1e-13 relative: model uses the atan case split resp. the closed form of ctanh) of every "
    "overload, scalar and array, on the special points and random grids; exhaustive shape boxes. "
    "Measured, not proved: 'within a few rounding units' against long double for log-uniform magnitudes 1e+-100, special points (0, -0, +-1, +-i, axes), "
    "exponents in [-8, 8], lengths 1..1000 (budget table at the top of harness/c17.cpp); libm (atan2, pow, ctanh, exp, log*) is trusted."
)

PROPS["C17"] = {
    "technique": "Lean 4 proofs over hand-written executable models generic in the element type (index functions, Array.ofFn index maps) and in the scalar "
                 "(value functions, instantiated at R with Mathlib: Complex.arg, Complex.cpow_ofReal_re/im, Real.rpow_logb, List sums; mag2db/db2mag/pow2db/db2pow/abs2(real) are not hand-written but "
                 "machine-generated from lib/math.cpp, include/dsplib/math.h by tools/cxx2lean.py on every run), tied to the code by "
                 "bit-exact differential correspondence of every overload; long-double / brute-force oracle on the implementation over the stated grids",
    "level_note": "floating-point rounding is not modelled (theorems are exact over R/C or structural); std::atan2 is modelled by the textbook case split with atan and pi "
                  "(sign of zero observed as 1/x < 0), std::tanh(std::complex) by the closed form (tanh a + i tan b)/(1 + i tanh a tan b); std::round is compared by the oracle only "
                  "(Mathlib's `round` rounds half up, C rounds half away from zero); the integer arange count is computed exactly in Int (the double quotient of two ints cannot cross an integer); "
                  "C int overflow and negative repeat/size arguments are outside the model",
    "gen": ["Cmplx", "Dynamics"],
    "lean_props": "DspVerif.Props.C17",
    "harness": [{"src": "c17.cpp", "cfg": "rel",
                 "tol": {"angle": (4e-15, 0.0), "v.angle": (4e-15, 0.0), "cpow": (1e-13, 0.0), "cpowi": (1e-13, 0.0), "v.cpowi": (1e-13, 0.0), "ctanh": (1e-13, 0.0)}},
                # the lifetime / aliasing / value-category section and the large-frame section once more under ASan + UBSan
                # (dangling results of temporaries, reads of moved-from operands, overlapping copies, index overflow in block paths)
                {"src": "c17.cpp", "cfg": "asan", "env": {"C17_ONLY": "lifetime,large"},
                 "tol": {"angle": (4e-15, 0.0), "v.angle": (4e-15, 0.0), "cpow": (1e-13, 0.0), "cpowi": (1e-13, 0.0), "v.cpowi": (1e-13, 0.0), "ctanh": (1e-13, 0.0)}}],
    "rule": "scalar functions: 39 special reals (0, -0, +-1, +-0.5, half-integers, 1e+-100, pi, ...) + 5000 (thorough 75000) random reals with log-uniform magnitude 1e-100..1e100; "
            "144 special complex points (all pairs of 0, -0, +-1, +-2, +-0.5, +-1e-100, +-1e100: zeros, signed zeros, +-1, +-i, both axes) + 4 axis points per random magnitude + "
            "14000 (210000) random complex points; every power overload on special + random bases x exponents {-8..8} u 12 fractions u 60 (300) random in [-8, 8]; "
            "every array overload on the same pools; reductions: every length 1..48 + 40 random lengths to 1000 (thorough: every length 1..1000, 3 repetitions) x 5 content classes "
            "(full range, band of <= 2 decades with random signs, one-signed band, special points, small integers with ties) x {real, complex}; "
            "upsample/downsample: every length <= 12 x every factor -1..n+2 x every phase -1..factor (invalid ones must throw) + random long arrays; repelem/flip/zeropad/delayseq: "
            "lengths 0..16 exhaustive parameters + random to 1000; integer arange: every start/stop/step in [-12, 12] (step 0 must throw) + random large; fractional arange: dyadic and decimal steps, "
            "counts 0..1000; linspace: n = 0..100 x 10 (60) endpoint pairs; all inverse pairs; distinct = distinct protocol lines / oracle evaluations; non-trivial = all. "
            "Second round (defects invisible to any sweep with independently drawn operands): "
            "(i) ALIASING / LIFETIME: every array function (about 75 overload x parameter combinations per element type) on lengths 1, 2, 3, 4, 7, 8, 9, 16, 33, 64, 257, 1000 "
            "(thorough: + 5..48, 100, 255..257, 511..513, 999, 4096, 65537) x content classes, with the operand as named object, temporary, moved copy, slice of itself, slice of a temporary, "
            "nested expression, result bound to const&, range-for over the temporary result, x = f(x), x = f(move(x)), x = f(slice of x), x.slice = f(x); every two-array function "
            "(dot real and complex, complex(re, im), power(vec, vec), power(cvec, vec)) additionally with the SAME OBJECT for both parameters (direct, through a reference, object + slice / temporary copy of itself, "
            "overlapping slices of one object), result assigned back to either operand / into a slice of it, and after a rejected (size-mismatch) call; the same object(s) again after an in-place change of their contents; max/min(a, a). Oracle: BIT-identical to the same call "
            "on equal but distinct deep copies, operands unmodified (compared with a pristine copy never handed to the library), result storage distinct from the operands'; dot(x, x), power(x, x), complex(x, x) also against the long-double definition in EVERY reduction case "
            "(all lengths x classes) and through CORR. The section runs a second time under ASan + UBSan. "
            "(ii) SCALE CLASSES / BOUNDARIES: both ulp-neighbours of every half-integer to 6.5, powers of two 2^+-{1,2,3,10,31,32,52,53,63,64,100,200,300,332}, neighbours of 2^31, 2^32, 2^51, 2^52, 2^53, 2^63; "
            "46 extreme magnitudes (DBL_MAX, DBL_MAX/2, 2^1023, 1e300 ... 1e-300, DBL_MIN, denormals to 5e-324) for every function whose exact result is finite and that forms no square "
            "(deg2rad/rad2deg in 1e-300..1e305, abs2(real) in 1.5e-154..1.3e154, complex abs/abs2 with the larger part in 1.5e-154..9e153); exp at 700, 709, log(DBL_MAX), log(DBL_MIN), -745.13; db2pow/db2mag to +-3230/+-6460 dB; "
            "complex arguments with ONE special component (0, -0, +-1, 1 +- ulp, -1 +- ulp, +-0.5, +-2, pi, -pi/2, 5e-324, DBL_MIN, 1e-300) and a random other one, both orders, two magnitude ranges, also as power bases; "
            "exponents -0, +-{5e-324, DBL_MIN, 1e-300, 1e-100, 1e-17, 1e-8}, both ulp-neighbours of -2, -1, 1, 2, 3 and of 0.5, inner neighbours of +-8; extreme real power bases whenever the exact power lies in 1e-290..1e290; "
            "reduction classes: all-negative band, extreme absolute scale 1e-305 ... DBL_MAX/(2n) (linear reductions: sum, mean, cumsum, dot with unit-scale second operand, real norm-1/min/max/arg*/peak2peak), "
            "band with ONE special element (1e3 x max, -1e3 x max, +0, -0, 1e-3 x min) planted first / last / centre. "
            "(iii) LARGE FRAMES: every array overload, power overload, reduction, shape function and generator on single calls of 65536 and 131073 elements after a 100-element call "
            "(thorough: 65535, 65536, 65537, 98304, 131072, 131073, 147456 = 3*49152, 196608, 262145), full long-double / brute-force oracle on every element",
    "trusted_base": TB_COMMON + [
        "long double (x87 80-bit) libm functions and brute-force loops in harness/c17.cpp are trusted as the reference definitions; the budget per function is the table at the top of that file "
        "(8 eps*scale; conditioning terms for power(cmplx, n), db2pow/db2mag, norm p >= 3; the a-priori bound (n-1)u of recursive summation for reductions)",
        "glibc atan2 / ctanh implement the case split / closed form used by the model (checked to 4e-15 / 1e-13 relative by CORR, to 8 eps by the oracle)",
    ],
    "assumptions": [
        "in-domain inputs only: log of positive numbers, pow(0, n) for n >= 0, pow(negative, integer), results inside 1e-290..1e290, exp arguments below 700, stddev for n >= 2, non-empty arrays for min/max",
        "downsample with phase >= length (outside the quantifier 'phases below the array length') returns one zero element instead of an empty array: counted as statistic, not a failure",
        "dot(arr_cmplx, arr_cmplx) is the bilinear product sum x_i*y_i (no conjugation), as documented ('array dot')",
        "complex min/max/argmin/argmax/peak2peak order by |z|^2 computed in double: near-ties within 4 eps may resolve either way (oracle accepts any element within 4 eps of the extreme)",
        "delayseq is instantiable for real arrays only (the complex instantiation does not compile: zeros(N) is arr_real)",
        "outside the quantifier 'no intermediate overflow of squares' (counted as statistics, not evaluated): abs2(real) beyond 1.5e-154..1.3e154, complex abs/abs2 with the larger part beyond 1.5e-154..9e153, "
        "rms/stddev/norm p >= 2/complex norm/complex min-max at the extreme absolute scales; deg2rad/rad2deg below 1e-300 (x/180, x/pi denormal) or above 1e305 (x/pi*180 overflows)",
    ],
}
