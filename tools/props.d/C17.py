# C17 — to be merged into tools/props.py by the integrator (uses TB_COMMON of that file)

LEVEL_TEXT["C17"] = (
    "Theorems, unbounded. (a) shape/index functions for EVERY element type, length and argument: integer arange lists start + k*step for EXACTLY the k >= 0 "
    "strictly before stop (iff, both step signs; count = ceil((stop-start)/step) clamped at 0; step 0 throws), fractional arange with integral count "
    "(count, values, all strictly before stop, next point = stop), linspace (n points, first x1, last x2, equal spacing; n = 0 throws), repelem "
    "(r[k] = x[k/n]), flip, upsample (x[i] at i*n+phase, zero elsewhere), downsample (keeps exactly the indices phase + k*n < N), "
    "downsample(upsample(x)) = x for every factor and phase, zeropad, delayseq (r[i] = x[i-d] or 0), cumsum forward = prefix sums / reverse = suffix sums, "
    "complex(real z, imag z) = z. (b) value functions over R / C: the evaluated formula IS the definition: abs = modulus, abs2, "
    "angle = Complex.arg (the atan2 case split incl. both axes and 0), exp(cmplx) = complex exp, expj = e^{ix}, power(cmplx, real) = principal power via the polar form, "
    "power(x, int) with its four shortcuts = integer power (real and complex, x != 0), sum, dot (bilinear), mean, rms = sqrt(sum x^2 / n), "
    "stddev = sqrt(sum |x - mean|^2 / (n-1)) (n >= 2), norm p = 1, 2, >= 3 (real and complex), max/min/argmax/argmin = FIRST extreme, peak2peak = max - min "
    "(complex: ordered by magnitude), dB and degree conversions = their definitions and all six round trips; the dB conversions (mag2db, db2mag, pow2db, db2pow) and abs2(real) "
    "are the definitions REGENERATED from the C++ AST (Gen/Dynamics.lean), not hand copies: theorems and driver use them directly. "
    "Tie: bit-exact correspondence (angle/complex power/complex tanh within 1e-13 relative: model uses the atan case split resp. the closed form of ctanh) of every "
    "overload, scalar and array, on the special points and random grids; exhaustive shape boxes. "
    "Measured, not proved: 'within a few rounding units' against long double for log-uniform magnitudes 1e+-100, special points (0, -0, +-1, +-i, axes), "
    "exponents in [-8, 8], lengths 1..1000 (budget table at the top of harness/c17.cpp); libm (atan2, pow, ctanh, exp, log*) is trusted."
)

PROPS["C17"] = {
    "technique": "Lean 4 proofs over hand-written executable models generic in the element type (index functions, Array.ofFn index maps) and in the scalar "
                 "(value functions, instantiated at R with Mathlib: Complex.arg, Complex.cpow_ofReal_re/im, Real.rpow_logb, List sums; mag2db/db2mag/pow2db/db2pow/abs2(real) are not hand-written but "
                 "machine-generated from lib/math.cpp, include/dsplib/math.h by tools/cxx2lean.py on every run), tied to the code by "
                 "bit-exact differential correspondence of every overload; long-double / brute-force oracle on the implementation over the stated grids",
    "level_note": "floating-point rounding is not modelled (theorems are exact over R/C or structural); std::atan2 is modelled by the textbook case split with atan and pi "
                  "(sign of zero observed as 1/x < 0), std::tanh(std::complex) by the closed form (tanh a + i tan b)/(1 + i tanh a tan b); std::round is compared by the oracle only "
                  "(Mathlib's `round` rounds half up, C rounds half away from zero); the integer arange count is computed exactly in Int (the double quotient of two ints cannot cross an integer); "
                  "C int overflow and negative repeat/size arguments are outside the model",
    "gen": ["Cmplx", "Dynamics"],
    "lean_props": "DspVerif.Props.C17",
    "harness": [{"src": "c17.cpp", "cfg": "rel",
                 "tol": {"angle": (4e-15, 0.0), "v.angle": (4e-15, 0.0), "cpow": (1e-13, 0.0), "cpowi": (1e-13, 0.0), "v.cpowi": (1e-13, 0.0), "ctanh": (1e-13, 0.0)}}],
    "rule": "scalar functions: 39 special reals (0, -0, +-1, +-0.5, half-integers, 1e+-100, pi, ...) + 5000 (thorough 75000) random reals with log-uniform magnitude 1e-100..1e100; "
            "144 special complex points (all pairs of 0, -0, +-1, +-2, +-0.5, +-1e-100, +-1e100: zeros, signed zeros, +-1, +-i, both axes) + 4 axis points per random magnitude + "
            "14000 (210000) random complex points; every power overload on special + random bases x exponents {-8..8} u 12 fractions u 60 (300) random in [-8, 8]; "
            "every array overload on the same pools; reductions: every length 1..48 + 40 random lengths to 1000 (thorough: every length 1..1000, 3 repetitions) x 5 content classes "
            "(full range, band of <= 2 decades with random signs, one-signed band, special points, small integers with ties) x {real, complex}; "
            "upsample/downsample: every length <= 12 x every factor -1..n+2 x every phase -1..factor (invalid ones must throw) + random long arrays; repelem/flip/zeropad/delayseq: "
            "lengths 0..16 exhaustive parameters + random to 1000; integer arange: every start/stop/step in [-12, 12] (step 0 must throw) + random large; fractional arange: dyadic and decimal steps, "
            "counts 0..1000; linspace: n = 0..100 x 10 (60) endpoint pairs; all inverse pairs; distinct = distinct protocol lines / oracle evaluations; non-trivial = all",
    "trusted_base": TB_COMMON + [
        "long double (x87 80-bit) libm functions and brute-force loops in harness/c17.cpp are trusted as the reference definitions; the budget per function is the table at the top of that file "
        "(8 eps*scale; conditioning terms for power(cmplx, n), db2pow/db2mag, norm p >= 3; the a-priori bound (n-1)u of recursive summation for reductions)",
        "glibc atan2 / ctanh implement the case split / closed form used by the model (checked to 4e-15 / 1e-13 relative by CORR, to 8 eps by the oracle)",
    ],
    "assumptions": [
        "in-domain inputs only: log of positive numbers, pow(0, n) for n >= 0, pow(negative, integer), results inside 1e-290..1e290, exp arguments below 700, stddev for n >= 2, non-empty arrays for min/max",
        "downsample with phase >= length (outside the quantifier 'phases below the array length') returns one zero element instead of an empty array: counted as statistic, not a failure",
        "dot(arr_cmplx, arr_cmplx) is the bilinear product sum x_i*y_i (no conjugation), as documented ('array dot')",
        "complex min/max/argmin/argmax/peak2peak order by |z|^2 computed in double: near-ties within 4 eps may resolve either way (oracle accepts any element within 4 eps of the extreme)",
        "delayseq is instantiable for real arrays only (the complex instantiation does not compile: zeros(N) is arr_real)",
    ],
}
