# C09 — to be merged into tools/props.py by the integrator
LEVEL_TEXT["C09"] = (
    "Theorems over an abstract shared-memory step semantics (locations, per-thread deterministic programs with data-dependent control flow, "
    "interleavings = arbitrary schedules): for EVERY number of threads and EVERY interleaving, if each thread stays inside its footprint and no thread "
    "reads or writes what another writes, every thread is in exactly its single-threaded state (noninterference, result_preserved, "
    "sequential_result_reached) and the trace has no conflicting pair of accesses (no_race); with one engine per thread the values a thread draws are "
    "independent of every other thread's seeds/draws (rng_isolated); the library's footprint TABLE (every thread_local / static / mutable variable, plan "
    "members, per-entry-point read/write regions) satisfies these premises for free functions, objects used by one thread, and plan objects shared through "
    "const solve (table_raceFree, discipline_exclusive, concurrent_use_safe). Tie: the table's variable/member/method lists are re-extracted from lib/ and "
    "include/ by a source scan on every run (footprint cases); enforced rng interleavings on the real library are predicted bit-exactly by a per-thread "
    "mt19937 model; every thread's final plan-cache keys after a concurrent run are the ones the sequential LRU model computes from its own calls; "
    "ThreadSanitizer + bit-exact comparison with single-threaded runs over 2..16 barrier-released threads and 41 shared plan objects of every kind, "
    "over seven input classes (unit, subnormal, underflowing, mixed zeros/-0/subnormal elements, rounding ties, near-DBL_MAX, non-finite), with calls that throw "
    "inside the programs (later valid calls = the program without the failed calls), first plans of lengths above 2^16 created by several threads at once, "
    "and fresh child processes whose first library calls are made by worker threads; the per-thread floating-point environment (fegetround, MXCSR incl. FTZ/DAZ, "
    "x87 control word) is read around EVERY library call in every thread (the table says no entry point writes it; `fpenv` cases), and early threads (created "
    "before the first library call), late threads and nested threads must reproduce bit for bit what the main thread computed before they ran and after they finished. "
    "PARTIAL: the theorems speak about the model; which C++ accesses exist is syntactic extraction + dynamic validation.")

PROPS["C09"] = {
    "gen": [],
    "lean_props": "DspVerif.Props.C09",
    "harness": [{"src": "c09.cpp", "cfg": "tsan"},
                {"src": "c09.cpp", "cfg": "rel", "tiers": ["thorough"]}],
    "rule": "3 (thorough 18) fresh child processes (`--history k`: the first library calls of the process are made by 4..8 worker threads from a barrier — subnormal probe program / "
            "first plans of lengths above 2^16 incl. primes and products of primes > 251 / throwing first calls — the main thread recomputes single-threaded afterwards); "
            "2 (24) rounds in which 3 early threads (created before the first library call of the process), a thread created by an early thread, 3 (2..7) late threads and a thread "
            "created by a late thread evaluate a probe program (every transform kind x 7 input classes, 250..450 calls, half of the threads with throwing calls in between) that the main "
            "thread evaluated before they started and evaluates again after they finished: all results bit-identical; the floating-point environment (fegetround, MXCSR control bits "
            "incl. FTZ/DAZ, x87 control word) read before and after every library call in every thread (quick: ~70000 checks) and at start/end of main; "
            "200 (thorough 2500 under TSan plus 2500 uninstrumented) scenarios of 2..16 threads released from a spin barrier, each thread a random program of 8..40 calls "
            "(fft/ifft/rfft/irfft over small/pow2/composite/prime<=41/prime>41 lengths against 4-entry plan caches, czt, xcorr, welch, resample, FftFilter ctor/process, "
            "own FftPlan ctor/solve, randn/rand/randi/rng, const solve on one of 41 shared FftPlan/FftPlanR/IfftPlan/IfftPlanR/CztPlan objects of every plan kind, built by "
            "the main thread or by a thread that has ended); inputs of seven classes built from bit patterns (unit, subnormal 1e-308..1e-321, underflowing products, mixed with zero runs / -0 / "
            "subnormal / power-of-two elements, rounding ties, near DBL_MAX, inf/NaN elements); in every second scenario 8% / 30% of the calls THROW (irfft with odd n or a wrong number of "
            "bins, const solve on a shared / own plan with a wrong-size input; in some, the first call of every second thread throws) and every valid call is also compared with the same "
            "program run without its failing calls; in every second scenario the concurrent run comes first and the single-threaded references afterwards; 2 (62) large scenarios: after small "
            "calls the first plans of lengths above 2^16 / 2^17 (k*49152, k*65536, 65537, 257*263, 2*65537, ...; fft/ifft/rfft/irfft/xcorr/welch/resample/FftFilter frames) are created by "
            "2..4 threads at once; variants: all threads run the same program, all threads hammer one shared plan; every call compared bit-exactly "
            "with the same program run alone; 40 (400) enforced interleavings of rng()/rand() over 2..16 threads; source scan of all of lib/ and include/; "
            "distinct = distinct (scenario, thread, call) triples; non-trivial = all",
    "technique": "Lean 4 proof (noninterference by induction on the interleaving over an abstract shared-memory semantics; footprint table as data) + source-scan / "
                 "mt19937 / LRU-key correspondence + ThreadSanitizer happens-before race detection with bit-exact single-threaded comparison",
    "level_note": "partial: the theorems are about the abstract memory model and the footprint table; that the C++ code performs no other accesses is extracted "
                  "syntactically (mutable / static / thread_local / const_cast / plan members / non-const plan methods) and validated dynamically under TSan; "
                  "shared_ptr reference counts (atomics), the allocator and the C++ memory model are trusted",
    "trusted_base": TB_COMMON + [
        "ThreadSanitizer (clang-14 runtime) as the dynamic race detector; its __tsan_on_report hook attributes reports to scenarios",
        "fegetround / _mm_getcsr / fnstcw (aarch64: FPCR) as the observation of the per-thread floating-point environment; popen + /proc/self/exe to re-execute the harness as a fresh process",
        "the harness's source scanner (tokeniser + declaration classifier in harness/c09.cpp) decides which variables exist; const-correctness of C++ "
        "(a const member function cannot write a non-mutable member without const_cast) carries 'const solve writes no member' — writes through pointer members "
        "are visible only to TSan / the bit-exact comparison / the plan_members list",
        "std::shared_ptr control blocks are atomic and are not modelled; thread_local gives one instance per thread (C++ memory model)",
        "libstdc++ mt19937 / generate_canonical<double,53> as modelled in Model/Conc.lean (checked bit-exactly by the rng cases); randn/randi only compared with single-threaded runs",
    ],
    "assumptions": [
        "threads are released from a common barrier after every shared plan object has been constructed (initial memory of the model); objects other than plans are used by one thread each",
        "inputs passed to library calls are not written by other threads during the call",
    ],
}
