# C16 — to be merged into tools/props.py by the integrator (uses TB_COMMON of that file)

LEVEL_TEXT["C16"] = (
    "Theorems for EVERY linear order (so every input, repeated values included), every length and every window order: "
    "the model sort returns a permutation index vector, sorted[i] = x[idx[i]] and ordered values; median is the middle order statistic "
    "(counting characterisation, unique); `_update_sort` transliterated keeps 'sorted window = sorted permutation of the ring buffer', hence "
    "MedianFilter output k = median of the last n samples of init^n ++ stream for every n >= 3, every initial value and EVERY framing "
    "(process-call splitting proved irrelevant), medfilt = median of the centred zero-padded window; Kendall = (C - D)/C(n,2), symmetric, "
    "in [-1,1], = +-1 for strictly monotone relations; Pearson = moment formula, symmetric, |r| <= 1 (Cauchy-Schwarz) over the reals. "
    "Tie: bit-exact correspondence of all five entry points on every data class AND value class (clusters of adjacent doubles, integers at 2^52, multiples of denorm_min, "
    "+-0, scales 1e-300..1e300, powers of two); the implementation's own sort output is checked for the three relations. "
    "The median oracles are EXACT (the two middle order statistics are input values: got == a, resp. got == fl(a+b)/2), so a wrong order statistic 1 ulp away is a failure. "
    "Every MedianFilter OBJECT (constructed, copied, moved, filled into a vector, passed by value; frames and results through temporaries; failed calls in between) is checked "
    "against the median of its own window. Rounding of Pearson/Spearman (and the Spearman = rank clause) is measured against O(n^2) long-double definitions, all permutations "
    "of length <= 7; scale-, offset- and 1-ulp value classes of corr are held to the same references (r, rho, tau are invariant under scaling and translation; Pearson "
    "for scales / spreads within 1e-70..1e70, beyond that its range limit is only measured). The model of _pearson_corr is literal (mean pass, centred sums, the product form with "
    "the residual sum_x*sum_y still subtracted); pearson_eq_pearsonM proves that over the reals the centring changes nothing, so every Pearson theorem is about the code's formula."
    " REGENERATED TIE (Props/C16Gen): the MedianFilter constructor, _update_sort (its two bounded while-walks as fuel-bounded recursions) and the process loop body are translated from the C++ on every run and proved equal to the model (medianCtor_eq, updateSort_eq, medianStep_eq); T16.3 is restated from the generated constructor through the generated run (gen_medianFilter_from_ctor). "
)

PROPS["C16"] = {
    "technique": "Lean 4 proofs over hand-written executable models of sort/median/MedianFilter/medfilt/corr (List.Perm + Pairwise invariants, "
                 "pair-count permutation invariance, Cauchy-Schwarz), tied to the code by bit-exact differential correspondence; "
                 "brute-force / long-double oracles on the implementation over the stated domain",
    "level_note": "std::sort is modelled by a merge sort (values are determined, index order among ties is not compared); memmove on the sorted window is "
                  "modelled on List (stale last cell not represented); floating-point rounding is not modelled: theorems are over linear orders / the reals, "
                  "the Pearson/Spearman values are measured (1e-9 / 1e-12) against long double; NaN inputs are outside the model (IEEE != vs. order)",
    "gen": ["Cmplx", "StepsBase", "StepsArray", "StepsMedian", "CtorMedian"],
    "lean_props": ["DspVerif.Props.C16", "DspVerif.Props.C16More", "DspVerif.Props.C16Gen"],
    "harness": [{"src": "c16.cpp", "cfg": "rel", "tol": {"corr": (1e-11, 1e-13)}}],
    "rule": "sort/median: every length 1..2000 x 10 content classes (distinct, repeated, sorted, reversed, constant, sorted/reversed with repeats, "
            "near-sorted, sawtooth, two-valued) x both directions (quick: one class per length in rotation + all classes on a length grid), "
            "all sequences over {0,1,2} up to length 5; MedianFilter: orders 3..64, 10^4-sample streams, 8 content classes x 6 framings "
            "(one call, sample-by-sample, tiny incl. empty frames, around the window length, mixed, large) x 5 initial-history modes "
            "(quick: 5 class/framing pairs per order), short streams below the window length; medfilt: orders 3..64 x lengths 1..2000 around the window length; "
            "corr: all pairs of permutations of length <= 6 (quick 5), every permutation of length 7 (quick 6) against identity/reversed/random x, "
            "random permutations to length 2000, strictly monotone (non-linear and affine) relations; three kinds each, both argument orders; "
            "distinct = distinct protocol lines / oracle evaluations; non-trivial = all (each is a different input). "
            "VALUE CLASSES (round 2): 7 value classes (1..3-ulp clusters of adjacent doubles with exact repeats and rising/falling/sawtooth nextafter chains; integers in [2^52, 2^53) "
            "incl. jittered time stamps; k*denorm_min; +-0 mixed with +-denorm_min/+-DBL_MIN/+-1; one absolute scale of 1e-300, 1e-17, 1e-8, 1, 1e8, 1e100, 1e300; powers of two "
            "2^-1070..2^1000 -2..+2 ulps; mixed scales in one window) for sort/median at every length 1..2000 (quick: rotation + grid), every sequence over a 3-member nextafter chain "
            "up to length 5; for MedianFilter orders 3..64 x the 7 classes + the window-boundary class (period n-1, n, n+1 stream drifting one ulp per period) x 6 framings x 5 initial "
            "histories incl. a 1-ulp neighbour of a data sample and -0.0 (quick: 3 class/framing pairs per order, 3000-sample streams), every stream of length n+3 over a 3-member chain "
            "for orders 3..5 (thorough ..6); medfilt: orders 3..64 x lengths around the window x the 8 classes. LARGE SINGLE CALLS: sort/median of 65537 and 131073 elements (thorough also "
            "46349, 65536, 98304, 131072, 147456, 196608, 262145), MedianFilter frames of 65537 and 131073 samples after small frames (thorough: 65536, 98304, 131072, 147456, 196608, 262145), "
            "medfilt of 70001 / 131073 samples, each followed by small calls. OBJECT LIFETIME: 90 (thorough 600) random programs per run over MedianFilter objects: copy construction, "
            "by-value parameter + return, vector fill constructor, copy of a vector of filters, move construction, copy assignment where the class offers one, destruction of some objects, "
            "frames passed as named arrays / slice temporaries / concatenation temporaries / arithmetic temporaries / arrays built from std::vector, results bound to const& and consumed by "
            "range-for, interleaved with calls that must throw (order < 3, empty medfilt, corr size mismatch) followed by valid stateless calls; every output of every object against the "
            "exact median of its own history; the ancestry of 2 objects per program is one CORR stream. CORR (corr): nextafter chains (1 / 1..2 ulps apart, bases 1, 2^52, denorm_min, "
            "through zero, -2^53, any scale) under random permutations and monotone relations, all 100 pairs of the scales 1e-300, 1e-100, 1e-70, 1e-17, 1e-8, 1, 1e8, 1e70, 1e100, 1e300, offsets +-1e3..+-2^52 "
            "with random permutations and affine relations, lengths just beyond 2000 (thorough 2001, 2048, 4099, 8191, 46349). Pearson is held to the long-double reference (1e-9) on the "
            "offset class, on 1-ulp chains and on all scale pairs with BOTH scales in [1e-70, 1e70]; where a scale (resp. the spread max-min of a 1-ulp chain) is outside [1e-70, 1e70] the "
            "product of the two variance terms under the root can leave the double range (x = y = {1,2,4}*1e100 gives 0): a floating-point RANGE limit outside the property's quantifier, "
            "measured only (statistics corr_pearson_{scale,ulpchain}_outofrange_{ok,off,nonfinite}); Spearman and Kendall are checked at every scale",
    "trusted_base": TB_COMMON + [
        "std::sort / std::is_sorted are modelled by List.mergeSort / an adjacent-pair scan; equal values may come out in a different index order (index vectors are not compared; "
        "the harness checks permutation, gather and order on the implementation's own output)",
        "IEEE comparison semantics (NaN) and rounding are not modelled; the data generators produce no NaN. -0.0 occurs (value classes): +0.0 and -0.0 compare equal, so which of the "
        "two appears in an output is not compared (CORR compares floats numerically, the oracles use ==)",
        "harness oracles (brute-force window median, counting order statistic, O(n^2) long-double r / rho / tau) are trusted as definitions",
    ],
    "assumptions": [
        "correlation clauses are claimed for tie-free samples of length >= 2 (n < 2, constant samples: 0/0, exercised in CORR only)",
        "median/medfilt on an empty array are outside the quantifier (length >= 1): medfilt throws, median reads out of bounds",
    ],
}
