# C16 — to be merged into tools/props.py by the integrator (uses TB_COMMON of that file)

LEVEL_TEXT["C16"] = (
    "Theorems for EVERY linear order (so every input, repeated values included), every length and every window order: "
    "the model sort returns a permutation index vector, sorted[i] = x[idx[i]] and ordered values; median is the middle order statistic "
    "(counting characterisation, unique); `_update_sort` transliterated keeps 'sorted window = sorted permutation of the ring buffer', hence "
    "MedianFilter output k = median of the last n samples of init^n ++ stream for every n >= 3, every initial value and EVERY framing "
    "(process-call splitting proved irrelevant), medfilt = median of the centred zero-padded window; Kendall = (C - D)/C(n,2), symmetric, "
    "in [-1,1], = +-1 for strictly monotone relations; Pearson = moment formula, symmetric, |r| <= 1 (Cauchy-Schwarz) over the reals. "
    "Tie: bit-exact correspondence of all five entry points on every data class; the implementation's own sort output is checked for the three relations. "
    "Rounding of Pearson/Spearman (and the Spearman = rank clause) is measured against O(n^2) long-double definitions, all permutations of length <= 7."
)

PROPS["C16"] = {
    "technique": "Lean 4 proofs over hand-written executable models of sort/median/MedianFilter/medfilt/corr (List.Perm + Pairwise invariants, "
                 "pair-count permutation invariance, Cauchy-Schwarz), tied to the code by bit-exact differential correspondence; "
                 "brute-force / long-double oracles on the implementation over the stated domain",
    "level_note": "std::sort is modelled by a merge sort (values are determined, index order among ties is not compared); memmove on the sorted window is "
                  "modelled on List (stale last cell not represented); floating-point rounding is not modelled: theorems are over linear orders / the reals, "
                  "the Pearson/Spearman values are measured (1e-9 / 1e-12) against long double; NaN inputs are outside the model (IEEE != vs. order)",
    "gen": [],
    "lean_props": ["DspVerif.Props.C16", "DspVerif.Props.C16More"],
    "harness": [{"src": "c16.cpp", "cfg": "rel", "tol": {"corr": (1e-11, 1e-13)}}],
    "rule": "sort/median: every length 1..2000 x 10 content classes (distinct, repeated, sorted, reversed, constant, sorted/reversed with repeats, "
            "near-sorted, sawtooth, two-valued) x both directions (quick: one class per length in rotation + all classes on a length grid), "
            "all sequences over {0,1,2} up to length 5; MedianFilter: orders 3..64, 10^4-sample streams, 8 content classes x 6 framings "
            "(one call, sample-by-sample, tiny incl. empty frames, around the window length, mixed, large) x 5 initial-history modes "
            "(quick: 5 class/framing pairs per order), short streams below the window length; medfilt: orders 3..64 x lengths 1..2000 around the window length; "
            "corr: all pairs of permutations of length <= 6 (quick 5), every permutation of length 7 (quick 6) against identity/reversed/random x, "
            "random permutations to length 2000, strictly monotone (non-linear and affine) relations; three kinds each, both argument orders; "
            "distinct = distinct protocol lines / oracle evaluations; non-trivial = all (each is a different input)",
    "trusted_base": TB_COMMON + [
        "std::sort / std::is_sorted are modelled by List.mergeSort / an adjacent-pair scan; equal values may come out in a different index order (index vectors are not compared; "
        "the harness checks permutation, gather and order on the implementation's own output)",
        "IEEE comparison semantics (NaN) and rounding are not modelled; the data generators produce no NaN and no -0.0",
        "harness oracles (brute-force window median, counting order statistic, O(n^2) long-double r / rho / tau) are trusted as definitions",
    ],
    "assumptions": [
        "correlation clauses are claimed for tie-free samples of length >= 2 (n < 2, constant samples: 0/0, exercised in CORR only)",
        "median/medfilt on an empty array are outside the quantifier (length >= 1): medfilt throws, median reads out of bounds",
    ],
}
