# snippet for tools/props.py — amendments to the PROPS["C04"] / LEVEL_TEXT["C04"] entries defined there
# (second round: value-carrying and large-scale scenarios of harness/c04.cpp)

LEVEL_TEXT["C04"] = LEVEL_TEXT["C04"] + (
    " Second tie (value-carrying): array cells are arbitrary IEEE bit patterns moved by the model as opaque values (Array model proved equal to the "
    "List model of the theorems, Model/Slice `assignSliceA_toList` etc.), compared bit for bit incl. the sign of zero (NaN payload-agnostic) on "
    "same-array overlapping pairs with up to 1.4e5 (thorough 3e5) elements, every right-hand-side kind, every special scalar, value-category variants and histories with failed calls."
)

PROPS["C04"]["rule"] = (
    "exhaustive box over (n,i1,i2,step) x {real,cmplx} x {const,mutable} (+ end placeholder, copies of slice objects), "
    "all same-array (dst,src) slice pairs of equal count (position-coded AND with arbitrary bit patterns as contents, assignment spelled through mutable / const slices, "
    "named slice objects and copies of them, temporaries), every right-hand-side kind (scalar, named array, temporary array, braced list, other-array slice) x length relation; "
    "every scalar of a 32-value pool (+-0, denormals, +-DBL_MIN/MAX, +-inf, quiet/signalling NaNs, 1 +- ulp, 1e-300..1e100; complex: 8x8 component pairs) through every "
    "destination slice of n <= 5 (7) and through unit / reversed / strided / random slices of n = 9..65537 (131075); "
    "500 (6000) LARGE same-array pairs with a forced collision 'destination cell j is source cell k' (j<k and j>k, gaps 0,1,..,count-1 at every scale; counts 1..2e4, one in ten up to 1.4e5 (3e5), "
    "always 65536, 65537, 98304, 131072, 131073; strides +-{1,2,3,4,5,7,16,33} in all sign combinations; contents position-coded / arbitrary bits / runs of +-0); "
    "random triples to n=1e5 (incl. strides +-2^30, +-(2^31-1), indices +-2^30) for reading AND for assignment of every right-hand-side kind (counts equal or off by one), "
    "bit-exact reads through conversion, operator* and iteration; histories of 16..30 valid and throwing assignments on one array (n = 7, 40, 1500, 70000) against a shadow copy; "
    "the count rule of assignment is judged EXACTLY (third round): destination count != source count => must throw and write nothing (key C04:count-mismatch-accepted / "
    "C04:assign-count-mismatch), in particular source count 0 on a non-empty slice and an empty slice with a non-empty source, for every spelling of a right-hand side that has a "
    "count (named / temporary array, braced list, other-array and same-array slice through mutable / const slices, named slice objects and copies, slices materialised into "
    "temporaries), on every destination slice of n <= 5 (8) and on unit / reversed / strided / empty destinations of n = 64..65537 (131075); both counts 0 => nothing written "
    "(an empty ARRAY right-hand side is itself sliced and may throw, lists and slices must be accepted); histories contain shorter, EMPTY and longer right-hand sides; "
    "end placeholder: slice(i1, end, step) for every step of the box incl. 0 and negative ones and slice(i1, end) / slice(i1, i2) with the DEFAULT step, const and mutable overloads, "
    "real and complex, also as destination / source of assignments and on random large arrays; "
    "distinct = distinct protocol lines + oracle-only cases (reads, history steps); non-trivial = all (every line is a different argument tuple)"
)

PROPS["C04"]["trusted_base"] = PROPS["C04"]["trusted_base"] + [
    "value-carrying cases: both sides generate the array contents from (mode, seed, index) with the same splitmix-style hash (harness/c04.cpp content<T>, Driver/H04 content); "
    "large arrays are compared through a 64-bit FNV-style digest of the canonicalised bit patterns, small ones (n <= 24) cell by cell",
]
