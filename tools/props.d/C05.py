# C05 — to be merged into tools/props.py by the integrator
LEVEL_TEXT["C05"] = (
    "Theorems over the hand-transcribed guard / index logic (Model/Guards.lean) of 47 modelled entry points: for EVERY integer argument tuple "
    "(rates / orders >= 1 and lengths >= 0 only where the code needs them) the modelled outcome is `ok shape` or `throws`, never `ub` — every unchecked "
    "subscript of a returning call is inside its buffer (slices: every visited position, all n,i1,i2,step), every model loop is counted; the misuse "
    "classes of the statement (length mismatch, bad index-list entries, plan on another length, braced list of another count) are exactly the `throws` "
    "outcomes; the radix-2 butterfly indices stay in [0,n). Tie: boundary-directed call programs over ALL public entry points of include/dsplib/*.h under "
    "clang ASan+UBSan with -DNDEBUG (DSPLIB_ASSUME live) + watchdog; the model must predict ok<shape>/ERR of every modelled call. Memory safety of "
    "arbitrary C++ is NOT proved: outside the modelled guard logic the sanitizer run is the only evidence."
)

PROPS["C05"] = {
    "gen": [],
    "lean_props": "DspVerif.Props.C05",
    "harness": [{"src": "c05.cpp", "cfg": "asan"}],
    "rule": "38 sections, one forked process each (a call that dies is reported, skipped and the section re-run, so one finding does not hide the rest): "
            "array ops/compare/mask/index lists (entries over -n..n+2, empty list, vector<int> and arr_int forms) x {real,complex} with operand lengths "
            "{0,1,2,3,n-1,n,n+1,2n}; slice read/fill/assign from array, braced list (every length 0..n+2), other-array and same-array slices over the box "
            "n<=4 (6 thorough), i1,i2 in [-n-2,n+2], step in [-3,3]; FftPlan/FftPlanR/IfftPlan/IfftPlanR/CztPlan of 32 (150 thorough) sizes applied to every length "
            "of that set (+ base-class pointer interface), fft/ifft/irfft/rfft/czt one-shots; FirFilter/FftFilter streams of frames of every length, fir1/firtype; "
            "polyphase, the three resamplers (custom filters of 1..24*rate taps and default design) with multiple / non-multiple / empty frames, FIRResampler, "
            "resample() for 20 ratios x filter lengths x signal lengths; all math.h element-wise / reduction / two-array functions, primes over the 32-bit range; "
            "utils.h (arange, zeropad, delayseq, repelem, peakloc, finddelay, findpeaks, linspace, conversions, from_file on short files); all windows n in {0..9,64,65}; "
            "medfilt/MedianFilter; iscola/stft/istft (window, overlap in {-2..lw+1}, nfft, range, frame counts and lengths); welch (8 overloads)/mscohere; sinad/snr/thd on "
            "random, zero, constant, ramp, sine data; Lms/Rls with mismatched x/d; Delay, Agc, awgn, random, Tuner, xcorr, gccphat, hilbert, HilbertFilter, PreambleDetector, "
            "Compressor/Limiter/NoiseGate; calls whose only array operands are empty; random call programs over pools of long-lived plans/filters/converters; large arguments "
            "(2^14, thorough 2^17) under the watchdog. distinct = calls executed (distinct_nontrivial statistic); non-trivial = all",
    "technique": "Lean 4 proof over a hand-written guard/index model (weakest-precondition combinators, slice in-bounds lemma, loop lemmas, xidxs invariant) "
                 "+ ASan/UBSan boundary-directed API-call harness with per-call watchdog + model/implementation correspondence of ok/throws and result shapes",
    "level_note": "the model is a hand transcription of the DSPLIB_ASSERT/THROW conditions and subscript expressions (not regenerated); int is unbounded Int; "
                  "heap behaviour, std:: containers, memcpy/memmove, floating-point to int conversions and everything outside the 47 modelled entry points are covered by "
                  "the sanitizer run only; the time clause is a 20 s per-call watchdog on calls whose sizes are <= 2^17 (measurement)",
    "trusted_base": TB_COMMON + [
        "Model/Guards.lean is hand-written: its agreement with the code is checked only by the correspondence run (ok/ERR + shapes of ~95k quick / ~330k thorough modelled calls)",
        "clang-14 AddressSanitizer + UndefinedBehaviorSanitizer (-fsanitize=address,undefined, -fno-sanitize-recover=all) and glibc's nonnull annotations define what counts as an observed violation",
        "the per-call watchdog (20 s) stands for 'terminates within time proportional to its documented complexity'",
    ],
    "assumptions": [
        "documented ranges used by the generators: sizes / orders / rates >= 1, scalar subscripts valid, arrays non-empty where a reduction needs an element, finite sample values (no NaN/Inf inputs), |int arguments| small enough that int arithmetic does not overflow",
    ],
}
