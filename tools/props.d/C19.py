# C19 — to be merged into tools/props.py by the integrator (LEVEL_TEXT["C19"], PROPS["C19"]).

LEVEL_TEXT["C19"] = (
    "Theorems (exact, R): the deviation awgn() gives its noise is such that the noise power is P_x/10^(snr/10) — sigma^2 for real input, "
    "2*sigma^2 summed over both components for complex input (sqrt(0.5) per component), awgn(x) = x + sigma*randn element-wise; "
    "for EVERY engine, history and interleaved call sequence the values after rng(seed) are a function of seed and the calls alone "
    "(the only state surviving a call is the engine; normal_distribution's cached value lives for one call), randi inside its inclusive bounds "
    "given the uniform_int_distribution contract; _periodogram(c*x) = c^2*_periodogram(x) with no hypothesis, _harm_analyze equivariant under every "
    "k > 0 (peak search, plateau walk by equality with the peak value, descents, argmax, positive-bin filter, sort inside median are order-only; sums, centroid, median floor scale) => "
    "snr, sinad, thd value and harmonic frequencies of c*x equal those of x for every c != 0, every signal, window, nharm, aliased. "
    "Tie: the deviation formulas of awgn (rms(arr)*pow(10,(-1)*snr/20), sqrt(0.5)*rms(arr)*pow(...)) are REGENERATED from lib/awgn.cpp's AST on every run "
    "(Gen/Awgn.lean) and the scale theorems are stated about these generated definitions; model vs implementation — awgn bit-exact with the drawn values as inputs; snr/sinad/thd(Psd) bit-exact on every spectrum over a 4-letter "
    "alphabet up to 5 (6) bins, random spectra with ties/zeros and real periodograms; _periodogram (public-API replica, tied bit-exactly to the internal "
    "one through thd(Time) == thd(replica, Psd)) vs the model's textbook DFT; rand/randn/randi/awgn streams bit-exact vs the model's "
    "std::mt19937 + libstdc++-12 generate_canonical / normal (polar) / uniform_int (Lemire), incl. single calls of 2^16..2^20 values (digest) and the engine position after them. "
    "Measured only (long double oracle, the property's tolerances): noise level within 6 standard errors, zero mean, whiteness, re/im independence, "
    "Gaussian shape; thd within 0.1 dB, frequencies within 0.1 bin, sinad within 1.5 dB on the stated tone family; Float residue of the scale invariance."
    " REGENERATED TIE (Props/C19Gen): the peak / descent walks of lib/snr.cpp (_locate_peak, _left_descent, _right_descent, the plateau walk and lobe bounds of _get_psd_tone) are translated from the C++ on every run as fuel-bounded recursions and proved equal to Model/Noise's getTone bounds (locatePeak_eq, leftDescent_eq, rightDescent_eq, toneBounds_eq); scale equivariance is restated for them (gen_toneBounds_scale). "
)

PROPS["C19"] = {
    "gen": ["Cmplx", "Awgn", "StepsBase", "StepsArray", "StepsSnr"],
    "lean_props": ["DspVerif.Props.C19", "DspVerif.Props.C19Gen"],
    "harness": [{"src": "c19.cpp", "cfg": "rel",
                 "tol": {"awgnR": (0.0, 0.0), "awgnC": (0.0, 0.0), "stream": (0.0, 0.0), "streamD": (0.0, 0.0), "harm": (1e-13, 0.0),
                         "pgram": (1e-11, 0.0), "measT": (1e-9, 0.0)}}],
    "rule": "awgn: 80 (400 thorough) trials, real and complex alternating, length 10^4..10^5 (10^6), SNR -10..80 dB incl. both ends, amplitude 10^-3..10^3, "
            "tone / multitone / Gaussian / uniform / DC signals, 6-standard-error bounds on power (total and per component), mean, lags 1..8, re/im cross-correlation, "
            "signal correlation, 8 s.e. on skewness/kurtosis; in EVERY trial also the noise power of each sixteenth of the record (7 s.e., total and per component), "
            "no sample returned unchanged, y == x + sigma*randn(n) bit for bit against a separate randn(n) after the same rng(seed); length classes k*2^16, k*2^17, k*2^18 (k = 1..4), "
            "2^18-1, 2^18+1, 10^6, 999424, primes 46349 / 65537 / 999983, real and complex, once (3 times) each; amplitude classes 1e-100, 1e-17, 1e-8, 1e8, 1e100; "
            "operands that are temporaries (copy, x*1.0, slice, range-for over the call), input unchanged; thd/sinad/snr: lengths 2048..2^17 (11 fixed lengths incl. 2049, 4095, 4097, 2500, 3000, 5000, 10000 + random + "
            "30000, 65536, 100000, 131071, 131072), 1..5 harmonics at -10..-40 dBc incl. both ends, random phases, amplitude 10^-2..10^2, off-bin / on-bin / coherent, "
            "plain and aliased harmonics, every component >= 100 bins from the others, DC and Nyquist; scale factor 10^-3..10^3 (|delta| <= 1e-9 dB) and 2^-20..2^20 (bit-exact), "
            "with and without a noise floor; scale classes 1e-100, 1e-17, 1e-8, 1e8, 1e100 in one of six trials; "
            "the BOUNDARY of the tone family: one distance exactly d bins (d = 100, 100.5, 101, 128, 130, random real and random integer in [100,130]) in 7 constellations "
            "(fundamental to DC in transform bins / in record bins, top harmonic to Nyquist in transform / record bins, three aliased constellations with harmonics d bins from the "
            "fundamental, from DC, from Nyquist and from each other) at N = 2048, 4096, .., 2^17, 2049, 2500, 3000, 4095, 4097, 5000, 10000, 30000, 46349, 65537, 100000, 100001, 100003, "
            "120000, 131071 (thorough: all 22 x 7 x 7; quick: 12 fixed representatives incl. N = 2^17 with the fundamental at 100, 100.5, random in [100.5,128], 128 bins and N = 120000 at "
            "101 record bins, plus one constellation per length rotating with the seed); in one of four trials the measurement is repeated after four failed calls "
            "(nharm = 1 on Time and Psd input, record of 2^18+1 samples to sinad and snr) and must be bit-identical; failures on inputs whose spectrum has an exact two-bin tie at a lobe top "
            "(component exactly midway between two bins) are reported under the single key C19:thd-lobe-top-tie; replay: seeds 0..100 (0..1000) + -1, INT_MAX, INT_MIN, programs of 3..14 interleaved calls over all 11 entry points, three runs "
            "after different histories (odd number of randn() calls, partially consumed normal pair); randi: 80 (400) ranges of width 1..8 (negative, straddling zero, "
            "randi(imax)), 4000 draws each, both bounds reached, nothing outside; single-value, INT_MIN..INT_MAX and INT_MAX-3..INT_MAX ranges; "
            "stream correspondence of single calls returning 2^16..2^20 values (awgn real/complex, randn(n), rand(n), rand(range,n), randi(n)) followed by scalar draws, through a digest "
            "(count, FNV-1a over the 64-bit patterns, first, last): 7 programs quick, 47 thorough (all length classes above). "
            "distinct = distinct protocol lines / oracle inputs; non-trivial = all",
    "technique": "Lean 4 proof (exact real algebra for the awgn scale factors; state-passing semantics over an abstract engine for the replay clause; "
                 "order-comparison equivariance + homogeneity of sums/median/DFT for scale invariance) + bit-exact model/implementation correspondence "
                 "(incl. an executable mt19937 + libstdc++ distribution model) + long-double statistical / spectral oracle",
    "level_note": "KNOWN FINDING C19:sinad-value / single harmonic at -40 dBc (property violated in a corner, not repaired): sinad() of a noise-free tone whose only harmonic sits at -40 dBc can be off by up to 2.6 dB at lengths just above a power of two (the estimator reads snr 43..50 dB for a noise-free signal); listed in known_findings.txt by key and witness {dbc: [-40]}; every other sinad failure is reported. floating-point rounding is not modelled: T19.3 is exact in R, the Float residue (<= 1e-9 dB; snr of a noise-free signal is a ratio to transform rounding "
                  "noise and is only recorded) is measured; statistical clauses (level within 6 s.e., whiteness, Gaussianity) and the 0.1 dB / 0.1 bin / 1.5 dB accuracy of "
                  "thd/sinad on the tone family are measurements, not theorems; that no distribution object outlives a call is established by the stream correspondence "
                  "and the replay oracle, not by a source scan; the evaluation order of the two randn() arguments of complex awgn is unspecified in C++ (probed: imaginary part first with g++ 12)",
    "trusted_base": TB_COMMON + [
        "std::uniform_int_distribution contract (values in [lo, hi]) is a hypothesis of the randi theorems (IntContract); the GCC-12 algorithm is additionally modelled and compared bit-exactly",
        "harness re-statement of _periodogram (anonymous namespace in lib/snr.cpp) with the public API, checked bit for bit against the library on every measurement trial",
        "window::kaiser(n, 38) is an input of the periodogram model (its values are the subject of C11)",
    ],
    "assumptions": ["one thread: g_engine is thread_local, the model's state is one engine",
                    "snr of a noise-free signal (ratio to rounding noise, ~290 dB) is outside the scale-invariance measurement for factors that are not powers of two"],
}
