# props snippet for C14 (to be merged into tools/props.py / tools/props.d/C14.py by the integrator)
LEVEL_TEXT["C14"] = (
    "Theorems (exact arithmetic, no bound on any size): TUNER -- for every fs >= 1, EVERY frequency the constructor accepts (exactly |f| <= fs/2, "
    "real division; integral or not), every stream and every framing into process() calls (empty frames included), output k is input k times "
    "exp(2 pi i f k / fs) for every k (tuner_eq: integral f -- the counter wraps at fs and the phase is fs-periodic; non-integral f -- the 64-bit "
    "counter is k itself, never reset); framing invariance of Tuner and Delay is proved for every scalar type. HILBERT -- for every n >= 3 and every "
    "real x: re(hilbert(x)) = x, DFT(hilbert(x))[k] = w_k DFT(x)[k] with w = 1 (DC, Nyquist), 2 (0 < k < n/2), 0 (n/2 < k < n), hence the negative-"
    "frequency bins vanish (hilbert_re / hilbert_spectrum / hilbert_onesided; core lemma Lib/C14Dft.analytic_re from orthogonality of the roots of "
    "unity), relative to `fft = DFT, ifft = inverse DFT at length n` (C01/C02), a hypothesis shown satisfiable and discharged for the exact pair "
    "(hilbert_exact); hilbert(x, n) = hilbert(x padded / truncated to n) including the n < 3 exceptions (hilbertN_eq, every scalar type). "
    "HILBERTFILTER -- for every accepted tap vector (odd length M >= 3), every stream, every framing: real part of output k is x[k - M/2] (0 before), "
    "imaginary part is sum_{j<=k} h[j] x[k-j] (hf_eq, on top of C07's FirFilter theorems); design_fir returns M = flen|1 taps for every ifft. "
    "UNCONDITIONAL (Props/C14Total): with C01/C02 for the library's own transform models, hilbert_total / hilbertN_total hold for every 3 <= n < 2^31 with no hypothesis on the transforms (hilbert_re_total, hilbert_spectrum_total, hilbert_onesided_total; n < 3 is rejected: hilbert_err_total). (Props/C14Gen) the Tuner theorem is transported to the REGENERATED per-sample loop body (tunerStep_eq, tuner_run_eq, tuner_gen_eq). "
    "Tie: hand-written model (Model/Hilbert.lean; fft/ifft instantiated with the C01 plan model, FirFilter/kaiser/firtype with the C07/C11 models) "
    "against the library: bit-exact for Tuner (streams to 6.5 fs, rates 8..1e5; counter values around 2^16, 2^24 and, thorough, 2^31 and 2^32 of single-object streams), Delay, design_fir taps (all lengths/tw sampled), "
    "HilbertFilter::process; hilbert to 1e-10 of the line scale (Bluestein lengths differ by 6e-13). "
    "Measured only: the 1e-3 quadrature accuracy of the designed filter over max(2 tw, 6/M) <= f <= 0.5 - max(2 tw, 6/M) (worst observed 7.1e-5, "
    "time domain on process() outputs and long-double frequency response of impz()), and all rounding (hilbert: 64 n eps normwise; Tuner: 1e-9 + 4 eps phase)."
    " REGENERATED TIE (Props/C14Gen): the Tuner constructor (guard, exact integer test) and process loop body, the Delay and HilbertFilter constructors and process are translated from the C++ on every run and proved equal to the models (tunerCtor_eq, tunerStep_eq, hilbertCtorTaps_eq, gen_hfProcess_eq); the Tuner and HilbertFilter theorems are restated from the generated constructor through the generated process (tuner_gen_from_ctor, hilbert_gen_from_ctor). "
)

PROPS["C14"] = {
    "gen": ["Cmplx", "SmallFft", "Consts", "Slice", "StepsBase", "StepsTuner", "CtorTuner", "StepsArray", "StepsSlice", "StepsFir", "StepsDelay", "CtorFir", "CtorDelay"],
    "lean_props": ["DspVerif.Props.C14", "DspVerif.Props.C14Total", "DspVerif.Props.C14Gen"],
    "harness": [{"src": "c14.cpp", "cfg": "rel",
                 "tol": {"hilb": (1e-10, 0.0), "hilbg": (1e-10, 0.0), "hilbn": (1e-10, 0.0),
                         "hfd": (1e-13, 0.0), "hfp": (1e-13, 0.0), "tun": (1e-13, 0.0), "tunx": (1e-13, 0.0),
                         "dlyR": (0.0, 0.0), "dlyC": (0.0, 0.0), "dlyI": (0.0, 0.0), "dlyJ": (0.0, 0.0),
                         "tunk": (1e-13, 0.0), "hfg": (1e-12, 0.0), "dlygR": (0.0, 0.0), "dlygC": (0.0, 0.0)}}],
    "rule": "hilbert: quick = 124 lengths in 3..4096 (all 3..48, 2^p and 2^p +-1, primes, highly composite, 40 random), thorough = EVERY length 3..4096; "
            "x 9 signal kinds {gauss, gauss with DC and Nyquist projected out, pure DC, alternating (pure Nyquist for even n), tone on a bin centre, tone off "
            "bin, DC+Nyquist+tones, impulse, 2^+-20 dynamic range}; oracle per case: every sample of the real part, and long-double DFT of the output on the "
            "negative bins (all of them for n <= 160, else both ends of the range + 20 random); hilbert(x, n'): 200 / 3000 (length, n') pairs (same, truncate, pad, "
            "unrelated; small grid exhaustive) against hilbert of the explicit copy and against the definition; n < 3 as exception cases. "
            "HilbertFilter: quick = 25 requested lengths in 31..401 (odd and even) x 4..5 tw in 0.005..0.1 (+1 random tw), thorough = EVERY length 31..401 x 9 tw "
            "+ 1 random tw; per filter: long-double frequency response of impz() at 97 / 241 points of [fmin, 0.5 - fmin] (both edges included), 4..10 tones "
            "(both band edges, 0.25, random, coarse-grid), amplitude 1e-3..1e3, random phase, streams of 2M+8..2M+200 samples, one call and 2..6 random frames; "
            "constructor from taps with 6 symmetric/antisymmetric/odd/even patterns. "
            "Tuner: 25 / 123 rates in 8..1e5 (8, 9, 10, 11, 16, 25, 64, 100, 1000, 8000, 44100, 99999, 100000 + random) x 22..28 frequencies "
            "{0, +-1, +-floor(fs/2), random integers, +-0.5, 0.25, 1/3, nextafter(1), floor(fs/2)-0.5, nextafter(floor(fs/2)), random fractional, +-fs/2 (odd fs: "
            "fractional), beyond the band (rejected)}, streams of 3..6 fs + ragged tail (to 6.5 fs; 3 fs for fs > 20000), framings {one call, 2..7 random cuts "
            "with empty frames, frames of length 0, 1, fs-1, fs, fs+1, random}; every sample against long-double exp(2 pi i f k/fs); framed run bit-compared "
            "with a one-call run of a second object. Delay: 30 / 120 cases (real / complex, zero / given initial contents, nd 1..200, 1..6 frames) + Delay(0). "
            "Round-2 classes. OBJECT LIFETIME (HilbertFilter from (flen, tw) and from taps, Tuner, DelayReal / DelayCmplx with and without initial contents): 9 ways of copying "
            "{copy-construction, copy-assignment over a live object of other parameters, elements of vector(3, obj), by-value lambda capture held in a std::function, copy of a copy whose "
            "intermediate is destroyed, a copy that is used and destroyed, self-assignment, moved copy, source assigned from its own copy} x {fresh prototype, mid-stream} x 2 / 8 "
            "repetitions; afterwards source and copies continue INTERLEAVED with data of their own while all are alive; every object is compared bit for bit (sign of zero included) "
            "with a separately constructed object fed the same frames, checked against the definition (delay: bits; Tuner: long-double phase; HilbertFilter: real part bits, imaginary "
            "part = long-double sum h[j] x[t-j] within 4 M eps sum|h||x|), and sent through CORR; one case in three has FAILED CALLS interleaved (hilbert n < 3, rejected taps, "
            "rejected Tuner frequency, Delay(0).process). TEMPORARIES: 10 expressions (temporary processor objects, rvalue operands a | b, a + b, -b, a * c, results bound to const& "
            "or iterated by range-for) x 8 / 40 inputs = named-operand form bit for bit. VALUE CLASSES for every numeric input (signals, initial contents, taps): absolute scales "
            "1e-300, 1e-17, 1e-8, 1, 1e8, 1e100, runs of +0 / -0, denormals, exact powers of two (every third Tuner case, all lifetime cases, 12 / 36 scaled-tap filters); Tuner "
            "frequencies 4.9e-324, -1e-300, 1e-17, -eps, -0.0 and one ulp inside / outside +-fs/2; HilbertFilter tw one ulp inside both ends of [0.005, 0.1]. LARGE FRAMES after short "
            "ones: 1 / 6 patterns (137, 20000, 1, 70000, 513, 140000, 7; multiples of 65536 and 49152; 2^k + 1; an empty frame followed by 262144) x 2 / 3 filters and delays (nd 1 .. 70001): "
            "HilbertFilter real part at every sample, imaginary part around every frame boundary + 2500 / 6000 random samples, and bit-equality with a second object fed frames of 4099; "
            "CORR by digest of generated streams (hfg, dlygR, dlygC). hilbert beyond the swept range: 4097, the first prime above 46340, 65536, twice that prime "
            "(thorough: + 14 lengths to 147456). LONG TUNER STREAMS on worker threads, EVERY sample checked (exact anchors every 4096 samples with f k / fs reduced mod 1 in 128-bit integer "
            "arithmetic, long-double rotation in between): quick = 3 objects of 2^24 + 2^18..2^20 samples (integer f, f = 0.3, random fractional f; constant 2^20 and mixed frames "
            "incl. 65537, 131073, k * 49152, 3 * 2^19, empty and tiny frames around the powers of two) + frame boundaries at residues of frames of 2, 3, 5, 7, 16, 17 around k = 2^16 "
            "(thorough: every residue) and of frames of 3 and 16 around k = 2^24 (quick 4, thorough all 19); thorough = additionally ONE object beyond 2^32 + 2^21 samples (f = 0.3, fs = 1e5) "
            "and four beyond 2^31 + 2^20 (integer f, random fractional f, -(fs/2 - 0.5), 1e-3), i.e. across the 32-bit signed and unsigned limits of the sample counter; 64 outputs "
            "around k = 2^16, 2^24, 2^31, 2^32 and at the end of every stream are recomputed by the model from the counter value (tunk). "
            "Round-3 class. TUNER NEXT TO AN INTEGER f (the constructor's integer / non-integer decision; only an exactly integral f may restart the phase counter every fs samples): "
            "f = k + d with k in {0, +-1, +-7, +-(fs/2 - 1), +-fs/4, +-fs/2 with the offset pointing inwards, 2 random} and d in {+-1 ulp of k, +-1e-12, +-1e-9, +-1e-7, +-5e-7, +-1e-6, "
            "+-1e-5, +-1e-3}, fs in {8, 100, 1000, 8000} (thorough: + 9, 4099, one random rate); quick = a rotating third / fifth / seventeenth of the (k, d) grid per rate (about 150 cases, "
            "every offset class about 10 times), thorough = the full grid; streams of 3..50 fs + ragged tail, and for |d| < 1e-8 at fs <= 1000 as many periods as make a lag of 2 pi d per "
            "period exceed 5e-8 (up to about 8000 fs at fs = 8; one-ulp offsets excepted; sample budget 2e5 / 1e6 per case); framings {one call, random cuts, frames of 0, 1, fs-1, fs, fs+1, random}; inputs of every "
            "value class; EVERY sample against exp(2 pi i f k/fs) with f k/fs reduced mod 1 in 128-bit integer arithmetic, bound |x| (1e-9 + 4 eps phase); framed run bit-compared with a "
            "one-call run; 18 / 90 cases through CORR (tun); the statistics tuner_near_integer_restart_drift_over_bound_* record by what factor a counter restart would have exceeded the "
            "bound (>= 2.6e5 for |d| >= 1e-9, about 50 for 1e-12; one ulp is below the rounding of the phase itself and is tied by CORR only). One more long stream of this class "
            "(fs = 8000, f = +-7 + d, 2^24 + 2^18 samples; thorough: fs = 8, f = 1 +- 1e-13, 2^31 + 2^20 samples). "
            "distinct = distinct protocol lines; non-trivial = all",
    "technique": "Lean 4 proof over hand-written state-explicit models (generic scalar; Float in the driver, R / C in the theorems) + own DFT lemma library "
                 "(inverse pair, conjugate symmetry, analytic-signal lemma) + differential correspondence on the real library + long-double oracle of the "
                 "property's own definitions and tolerances",
    "level_note": "rounding and the 1e-3 design accuracy of HilbertFilter are measured, not proved; the hilbert theorems are relative to fft = DFT / ifft = inverse DFT "
                  "at the length used (C01/C02; shown satisfiable and discharged for the exact pair); models are hand-written (sample loop -> Array.foldl, "
                  "slices -> Array.extract, in-place spectrum edit -> index map); Tuner, Delay and HilbertFilter (constructors and process) are proved equal to the REGENERATED code (Props/C14Gen), hilbert() is tied to the code only by the correspondence run; design_fir's numeric "
                  "content (Kaiser window, ifft of the x^8 taper) is tied by correspondence only, its structure (M taps, odd) is proved",
    "trusted_base": TB_COMMON + [
        "the library's fft(arr_real) / ifft(arr_cmplx) are the DFT and its inverse at the lengths used (properties C01/C02): hypotheses IsRealDft / IsIdft of T14.1/T14.2, discharged for the exact pair",
        "the driver instantiates these parameters with the C01 plan model (Model/Fft.lean: fftR, ifftWith (fftC)), FirFilter with Model/Fir.lean (C07), kaiser/firtype with Model/Window.lean (C11)",
        "long double (x87 80-bit) evaluation of exp(2 pi i f k/fs), of the tones and of the DFT bins is taken as exact relative to the double-precision bounds",
        "/repo fixes bd73cae (Tuner guard: real division) and a0bedcc (Delay<cmplx_t>(initial) compiles) found while building this check are part of the tree the model follows",
    ],
    "assumptions": ["hilbert: n >= 3 (for n < 3 the code throws: modelled and checked as exception cases)",
                    "HilbertFilter(flen, tw): tw/fs below ~1/4 so that design_fir's pass-band is non-empty (else the code throws std::length_error: modelled as an exception); the property's domain is tw <= 0.1",
                    "Tuner: fs >= 1 (the phase divides by fs); the 64-bit sample counter does not overflow (2^63 samples); streams beyond 2^31 / 2^32 samples through one object are exercised in the thorough tier only (a quick run stops at 2^24 + 2^20: reaching sample 2^31 costs 2^31 sin/cos pairs, about a minute)",
                    "HilbertFilter(taps): firtype() compares with the absolute tolerance 2 eps, so taps that are all below 4.4e-16 are classified symmetric and refused; recorded (stat hf_scaled_taps_refused_by_firtype_absolute_tolerance) and reproduced by the model, not part of the property's domain (flen, tw)",
                    "Delay(0) throws at the first process() (slice constructor): modelled (delayProcessE) and checked as an exception case"],
}
