# props snippet for C14 (to be merged into tools/props.py / tools/props.d/C14.py by the integrator)
LEVEL_TEXT["C14"] = (
    "Theorems (exact arithmetic, no bound on any size): TUNER -- for every fs >= 1, EVERY frequency the constructor accepts (exactly |f| <= fs/2, "
    "real division; integral or not), every stream and every framing into process() calls (empty frames included), output k is input k times "
    "exp(2 pi i f k / fs) for every k (tuner_eq: integral f -- the counter wraps at fs and the phase is fs-periodic; non-integral f -- the 64-bit "
    "counter is k itself, never reset); framing invariance of Tuner and Delay is proved for every scalar type. HILBERT -- for every n >= 3 and every "
    "real x: re(hilbert(x)) = x, DFT(hilbert(x))[k] = w_k DFT(x)[k] with w = 1 (DC, Nyquist), 2 (0 < k < n/2), 0 (n/2 < k < n), hence the negative-"
    "frequency bins vanish (hilbert_re / hilbert_spectrum / hilbert_onesided; core lemma Lib/C14Dft.analytic_re from orthogonality of the roots of "
    "unity), relative to `fft = DFT, ifft = inverse DFT at length n` (C01/C02), a hypothesis shown satisfiable and discharged for the exact pair "
    "(hilbert_exact); hilbert(x, n) = hilbert(x padded / truncated to n) including the n < 3 exceptions (hilbertN_eq, every scalar type). "
    "HILBERTFILTER -- for every accepted tap vector (odd length M >= 3), every stream, every framing: real part of output k is x[k - M/2] (0 before), "
    "imaginary part is sum_{j<=k} h[j] x[k-j] (hf_eq, on top of C07's FirFilter theorems); design_fir returns M = flen|1 taps for every ifft. "
    "Tie: hand-written model (Model/Hilbert.lean; fft/ifft instantiated with the C01 plan model, FirFilter/kaiser/firtype with the C07/C11 models) "
    "against the library: bit-exact for Tuner (streams to 6.5 fs, rates 8..1e5), Delay, design_fir taps (all lengths/tw sampled), "
    "HilbertFilter::process; hilbert to 1e-10 of the line scale (Bluestein lengths differ by 6e-13). "
    "Measured only: the 1e-3 quadrature accuracy of the designed filter over max(2 tw, 6/M) <= f <= 0.5 - max(2 tw, 6/M) (worst observed 7.1e-5, "
    "time domain on process() outputs and long-double frequency response of impz()), and all rounding (hilbert: 64 n eps normwise; Tuner: 1e-9 + 4 eps phase)."
)

PROPS["C14"] = {
    "gen": ["Cmplx", "SmallFft", "Consts"],
    "lean_props": ["DspVerif.Props.C14", "DspVerif.Props.C14Total"],
    "harness": [{"src": "c14.cpp", "cfg": "rel",
                 "tol": {"hilb": (1e-10, 0.0), "hilbg": (1e-10, 0.0), "hilbn": (1e-10, 0.0),
                         "hfd": (1e-13, 0.0), "hfp": (1e-13, 0.0), "tun": (1e-13, 0.0), "tunx": (1e-13, 0.0),
                         "dlyR": (0.0, 0.0), "dlyC": (0.0, 0.0), "dlyI": (0.0, 0.0), "dlyJ": (0.0, 0.0)}}],
    "rule": "hilbert: quick = 124 lengths in 3..4096 (all 3..48, 2^p and 2^p +-1, primes, highly composite, 40 random), thorough = EVERY length 3..4096; "
            "x 9 signal kinds {gauss, gauss with DC and Nyquist projected out, pure DC, alternating (pure Nyquist for even n), tone on a bin centre, tone off "
            "bin, DC+Nyquist+tones, impulse, 2^+-20 dynamic range}; oracle per case: every sample of the real part, and long-double DFT of the output on the "
            "negative bins (all of them for n <= 160, else both ends of the range + 20 random); hilbert(x, n'): 200 / 3000 (length, n') pairs (same, truncate, pad, "
            "unrelated; small grid exhaustive) against hilbert of the explicit copy and against the definition; n < 3 as exception cases. "
            "HilbertFilter: quick = 25 requested lengths in 31..401 (odd and even) x 4..5 tw in 0.005..0.1 (+1 random tw), thorough = EVERY length 31..401 x 9 tw "
            "+ 1 random tw; per filter: long-double frequency response of impz() at 97 / 241 points of [fmin, 0.5 - fmin] (both edges included), 4..10 tones "
            "(both band edges, 0.25, random, coarse-grid), amplitude 1e-3..1e3, random phase, streams of 2M+8..2M+200 samples, one call and 2..6 random frames; "
            "constructor from taps with 6 symmetric/antisymmetric/odd/even patterns. "
            "Tuner: 25 / 123 rates in 8..1e5 (8, 9, 10, 11, 16, 25, 64, 100, 1000, 8000, 44100, 99999, 100000 + random) x 22..28 frequencies "
            "{0, +-1, +-floor(fs/2), random integers, +-0.5, 0.25, 1/3, nextafter(1), floor(fs/2)-0.5, nextafter(floor(fs/2)), random fractional, +-fs/2 (odd fs: "
            "fractional), beyond the band (rejected)}, streams of 3..6 fs + ragged tail (to 6.5 fs; 3 fs for fs > 20000), framings {one call, 2..7 random cuts "
            "with empty frames, frames of length 0, 1, fs-1, fs, fs+1, random}; every sample against long-double exp(2 pi i f k/fs); framed run bit-compared "
            "with a one-call run of a second object. Delay: 30 / 120 cases (real / complex, zero / given initial contents, nd 1..200, 1..6 frames) + Delay(0). "
            "distinct = distinct protocol lines; non-trivial = all",
    "technique": "Lean 4 proof over hand-written state-explicit models (generic scalar; Float in the driver, R / C in the theorems) + own DFT lemma library "
                 "(inverse pair, conjugate symmetry, analytic-signal lemma) + differential correspondence on the real library + long-double oracle of the "
                 "property's own definitions and tolerances",
    "level_note": "rounding and the 1e-3 design accuracy of HilbertFilter are measured, not proved; the hilbert theorems are relative to fft = DFT / ifft = inverse DFT "
                  "at the length used (C01/C02; shown satisfiable and discharged for the exact pair); models are hand-written (sample loop -> Array.foldl, "
                  "slices -> Array.extract, in-place spectrum edit -> index map) and tied to the code only by the correspondence run; design_fir's numeric "
                  "content (Kaiser window, ifft of the x^8 taper) is tied by correspondence only, its structure (M taps, odd) is proved",
    "trusted_base": TB_COMMON + [
        "the library's fft(arr_real) / ifft(arr_cmplx) are the DFT and its inverse at the lengths used (properties C01/C02): hypotheses IsRealDft / IsIdft of T14.1/T14.2, discharged for the exact pair",
        "the driver instantiates these parameters with the C01 plan model (Model/Fft.lean: fftR, ifftWith (fftC)), FirFilter with Model/Fir.lean (C07), kaiser/firtype with Model/Window.lean (C11)",
        "long double (x87 80-bit) evaluation of exp(2 pi i f k/fs), of the tones and of the DFT bins is taken as exact relative to the double-precision bounds",
        "/repo fixes bd73cae (Tuner guard: real division) and a0bedcc (Delay<cmplx_t>(initial) compiles) found while building this check are part of the tree the model follows",
    ],
    "assumptions": ["hilbert: n >= 3 (for n < 3 the code throws: modelled and checked as exception cases)",
                    "HilbertFilter(flen, tw): tw/fs below ~1/4 so that design_fir's pass-band is non-empty (else the code throws std::length_error: modelled as an exception); the property's domain is tw <= 0.1",
                    "Tuner: fs >= 1 (the phase divides by fs); the 64-bit sample counter does not overflow (2^63 samples)",
                    "Delay(0) throws at the first process() (slice constructor): modelled (delayProcessE) and checked as an exception case"],
}
