# C12 — to be merged into tools/props.py by the integrator
LEVEL_TEXT["C12"] = (
    "Theorems for EVERY scalar type (real and complex instances of one generic model), every filter length >= 1, every state, "
    "every input history and every frame: LmsFilter::process (LMS and NLMS, leakage, +eps) computes exactly the clean per-sample "
    "recursion (w,r) -> (y = w.r, e = d - y, w') — a-priori output, e = d - y, framing independence; RlsFilter::process is the "
    "per-sample recursion with a-priori output, e = d - y, and its flat _p[i*n+k] code is the matrix recursion "
    "g = Pu/(lambda+u^H P u), P' = (P - g u^H P)/lambda, w' = w + conj(g) e; locked: coefficients (and P) never change and "
    "y[k] = sum_j coeffs()[j] x(k-j) (over R and C, no conjugation). Over R: NLMS, leak 1, noise-free: squared misalignment changes by "
    "exactly -mu e^2 (2(p+eps) - mu p)/(p+eps)^2 per sample, hence never increases for 0 < mu < 2, along every call of process (Props/C12More: the same for COMPLEX data, nlms_process_misalignment_le_complex). "
    "T12.4 (Props/C12More) rls_is_wls / rls_process_is_wls: for every forgetting factor lambda > 0, every diagonal load delta > 0, every filter length and every real input/desired history, "
    "the coefficient vector RlsFilter holds after the history is THE minimiser of the exponentially weighted, diagonally regularised least-squares cost "
    "(Sherman-Morrison induction sm_inv / rls_step_invariant: P stays the inverse of the weighted Gram matrix, rls_run_minimiser: completing the square). "
    "Tie: executable model vs implementation, bit-exact on every emitted case (real/complex, lengths 2..64, step/leak/forgetting/"
    "diagonal-load grids, random lock schedules, framings incl. empty/1/len-1/len, size-mismatch throws, scale classes 1e-300..1e140 with denormal / "
    "negative-zero samples and boundary step sizes, one single call above 2^17 samples by digest). "
    "Measured only (oracle, long double): convergence below 1e-6 on white input for NLMS and RLS, sample-by-sample agreement with the "
    "extended-precision reference recursion (relative, absolute floor 1e-280 next to the underflow threshold), bit-identity of a long single call with the "
    "same stream in small frames, copies of filter objects, call-to-call monotonicity of the NLMS misalignment, real RLS = exponentially weighted, diagonally regularised least squares (batch normal equations)."
    " REGENERATED TIE (Props/C12Gen): the LmsFilter / RlsFilter constructors and the sample-loop bodies of their process (LMS, NLMS, RLS; real and complex; all tap loops) are translated from the C++ on every run and proved equal to the model steps (lms*Ctor_eq, rls*Ctor_eq, lms*Step_eq, rls*Step_eq, *_run_eq); e = d - y, the locked clause and T12.4 are restated for the generated code (lms*_gen_from_ctor_error_exact, rls_gen_from_ctor_is_wls). "
)

PROPS["C12"] = {
    "gen": ["Cmplx", "StepsBase", "StepsArray", "StepsAdaptive", "CtorAdaptive"],
    "lean_props": ["DspVerif.Props.C12", "DspVerif.Props.C12More", "DspVerif.Props.C12Gen"],
    "harness": [{"src": "c12.cpp", "cfg": "rel", "tol": {"lms": (1e-12, 0.0), "rls": (1e-9, 0.0)}}],
    "rule": "per type (real, complex) and filter (LMS, NLMS, RLS): boundary scenarios (zero input, locked from the start, empty calls, frames of len-1/len/len+1); "
            "random arbitrary input/desired pairs on horizons <= 3 len + 24 over lengths 2..64 (edge lengths 2,3,4,5,7,8,16,31,32,33,63,64 favoured), "
            "input kinds white / scaled 1e-3..1e3 / zero stretches / impulsive / dc, desired = noise-free system, noisy system, unrelated; "
            "NLMS step in (0,2), LMS step across 1%..90% of 2/(3 len power), leak in {1, 0.9999, 0.99, 0.9}, forgetting 0.9..1, diagonal load 1e-2..1e4, "
            "four framing styles, random lock/unlock schedules, size-mismatch calls; "
            "scale classes: input at absolute scales 1e-300, 1e-150, 1e-17, 1e-8, 1, 1e8, 1e100 (RLS also 1e+-140 with the diagonal load scaled by 1/power, "
            "and unmatched loads), unknown system at 1e-8 / 1 / 1e8, NLMS step from the smallest denormal over (0, eps) and 1 to 2 - ulp, 2, 0, -0, "
            "LMS step 1e-300 .. 0.9 of the stable bound, leakage {1, 1 - ulp, 0.5, 1e-8, 1e-300, 0}, forgetting {1, 1 - ulp, 0.999999, 0.95, 0.9}, "
            "exact-zero and negative-zero runs of len-1 .. 2 len+3 samples, denormal samples, exact powers of two, desired exact zero / negative zero, "
            "rejected calls (one side empty, off by one, off by up to len, as the first call) after about every third call, operands passed as temporaries; "
            "copies of the filter object mid-stream (copy-construct, vector(n, proto), copy-assign over a used filter, returned temporary) while the original "
            "is fed other data; a kept Result must survive later calls; "
            "long single calls: one process() call of 2^16+r, 2^17+r, 2^18+r, 2^16+1, 2^17+1, 2^18+1, k*65536, k*49152 (thorough also 2^20+r) samples for LMS, NLMS "
            "(len 2..64) and RLS (len 2..8), as the first call or after small ones, with rejected long calls around it and a second, locked, long call, "
            "inside white streams with silent stretches longer than the delay line — per-call oracles, reference recursion, convergence and bit-identity with "
            "the same stream fed in frames of <= 1000 samples, desired signal noise-free (convergence) or noisy (adaptation never settles: every later bit depends on every update) "
            "(quick: two long calls per filter and type - one just above 2^17, one above 2^18 or a large multiple of 49152/65536 (RLS: above 2^16 and above 2^17), "
            "one of the two noisy; one goes through the model by digest); "
            "real RLS vs batch weighted least squares at check points of horizons <= 4 len + 8; "
            "convergence: NLMS 8 steps + random x lengths {2,3,8,16,64} (thorough 11 lengths), RLS 6 forgetting x 7 loads + random x the same lengths, "
            "and at input scales 1e-4/1e8/1e100 (NLMS), 1e-100/1e-8/1e8/1e100 (RLS, load scaled) with the system at 1e-8/1/1e8; "
            "distinct = distinct scenarios (every scenario has its own case seed); non-trivial = all",
    "technique": "Lean 4 refinement proof (buffer-indexed implementation model -> clean per-sample recursion, generic in the scalar), "
                 "exact NLMS misalignment identity over R, model/implementation correspondence (bit-exact today), "
                 "long-double oracle: reference recursion, snapshot FIR check, batch normal equations (Cholesky), convergence runs",
    "level_note": "floating-point rounding is not modelled: the convergence bound 1e-6 and the agreement with the weighted least-squares solution are measured "
                  "(RLS forward error is judged against the conditioning of the weighted Gram matrix evaluated in the reference); "
                  "T12.4 (RLS = weighted least squares) is proved over the reals for real data; the complex RLS is proved to be the standard matrix recursion but its least-squares characterisation is not stated",
    "trusted_base": TB_COMMON + [
        "oracle references (long double recursion, Cholesky solver) in harness/c12.cpp",
        "convergence is a statistical statement about white input: checked on sampled realisations with horizons chosen from the "
        "contraction factor 1 - mu(2-mu)/len (NLMS) and the decay of the regularisation lam^k/delta (RLS)",
    ],
    "assumptions": ["lengths 2..64 as in the property (the theorems hold for every length >= 1)",
                    "LMS (un-normalised) is only claimed to report a-priori errors and honour the lock; its convergence is not part of the property",
                    "convergence is checked with leakage 1 (a leakage < 1 biases the solution by design)"],
}
