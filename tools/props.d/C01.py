# props snippet for C01 (to be merged into tools/props.py by the integrator)
LEVEL_TEXT["C01"] = (
    "Theorems (exact, over C, every input, unbounded sizes) about the functions of Model/Fft.lean at R -- the definitions the driver runs at Float: "
    "T01.4 facfft_eq: the general Cooley-Tukey recursion of _facfft (transposes, inner P-point transforms, twiddles tw[q*p*decim] with first row/column "
    "skipped, outer Q-point transforms) is the DFT for EVERY well-formed factor tree, every head length the tree size divides and every DFT leaf solver; "
    "T01.5 dftSlow_eq: _dft_slow with its running index (iw += k, conditional subtraction) is the DFT for every n >= 1; "
    "T01.1 (Props/C01Kernels, REGENERATED kernels fft2/4/8, rfft2/4/8, dft3, literals abstracted by 2c^2=1 / 4d^2=3 + lit_ok for the written digits); "
    "T01.2 coeffs_eq: every cell of the quarter-wave table of Pow2FftPlan holds exp(-2 pi i k/n) for every n divisible by 4; "
    "T01.7 rfftPacked_eq: RealFftPlan's packed transform (half-length complex plan + untangling, Nyquist bin, mirrored upper half) is the DFT of the real input "
    "for every even n, given a DFT of size n/2; T01.8 the DFT of a real sequence is conjugate symmetric and complex(x) denotes the same sequence; "
    "T01.9 fftCN_eq / fftRN_eq: fft(x, n') is the DFT of x zero-padded / truncated to n' (all three branches); "
    "T01.10 fftPrime_eq, fftLeaf_eq, fftFactor_eq, fftC_eq_partial, fftR_eq_partial: plan selection (small / prime / power of two / factor tree; real: small / "
    "prime / packed even / odd composite) glued to the kernels -- with the components NOT proved as explicit hypotheses on the branch that uses them: "
    "the bit-reversal + butterfly network of Pow2FftPlan for n = 2^l >= 16 (T01.3), Bluestein's identity for primes > 41 (T01.6), well-formedness of mkPlan "
    "(mkPlan_wf); unconditional where they are not needed: n in {1,2,4,8}, every prime 3..41, and worked composite instances (fftC_eq_60, fftR_eq_120, fftCN_eq_60). "
    "Tie: correspondence of the model at Float with the library (bit-identical on every fft/rfft/fftn/rfftn case observed; czt and lengths through the prime-CZT "
    "differ only by the long-double chirp phase of the library). Measured only: the 32 n eps relative l2 bound (and the czt bound of DESIGN.md) against a long-double direct DFT."
)

PROPS["C01"] = {
    "gen": ["SmallFft", "Consts", "Cmplx"],
    "lean_props": ["DspVerif.Props.C01Kernels", "DspVerif.Props.C01", "DspVerif.Props.C01Pow2", "DspVerif.Props.C01Plan", "DspVerif.Props.C01Czt", "DspVerif.Props.C01Total"],
    "harness": [{"src": "c01.cpp", "cfg": "rel",
                 # the model mirrors the operation order: fft/rfft/fftn/rfftn agree bit-exactly today, 1e-11 of the line maximum tolerates harmless
                 # re-association.  czt (and fftg/rfftg, whose sampled large lengths include primes solved by the same CZT): the library forms the chirp
                 # phase angle(w)*k^2/2 in long double (/repo 4e9c74f), the Float model in double -> difference up to ~eps*|arg w|*N^2/2 (observed 8e-13 for
                 # czt, 1.2e-11 for a prime near 10^5): 1e-9.  A wrong index / sign / twiddle changes outputs by O(1) relative.
                 "tol": {"fft": (1e-11, 0.0), "rfft": (1e-11, 0.0), "fftn": (1e-11, 0.0), "rfftn": (1e-11, 0.0),
                         "czt": (1e-9, 0.0), "fftg": (1e-9, 0.0), "rfftg": (1e-9, 0.0)}}],
    "rule": "ORACLE (long-double direct DFT, relative l2 error <= 32 n eps): EVERY n in 1..512 (quick) / 1..4096 (thorough), all bins, x 8 input classes "
            "{complex Gaussian, impulse at 0 / random / n-1, constant, single complex tone, alternating signs, 1e+-150 dynamic range} x 6 entry points "
            "{fft(arr_cmplx), FftPlan(n), fft(arr_real), rfft, FftPlanR(n), fft(complex(x))} + real-vs-complexified and conjugate-symmetry comparisons + a 9th call "
            "on the same plan object; plus a structured sample of lengths up to 2^17 (primes, semiprimes with two CZT leaves / small x large, prime powers, 2^k p, "
            "highly composite, powers of two; ~16 quick / ~130 thorough): all bins for the closed-form classes, 256 sampled bins (with mirrors, the tone's own bins) "
            "as a LOWER bound of the error for the others + Parseval and sum-of-bins consequences over all bins; fft(x, n') for all n' in 1..2n, n <= 24 (quick) / 64 "
            "(thorough), complex, real and rfft; czt: 600 (quick) / 6000 (thorough) cases, exhaustive (n,m) in 1..8 corner, random n,m <= 64 (every 10th thorough case "
            "<= 300), w on the unit circle (DFT contour, inverse contour, w = -1, w = 1, random), a in {1, 1+ulp, |a| in [0.5,2] random, |a| in {0.5,2}, |a| = 1}, "
            "free function and CztPlan, bound 32 n2 eps sqrt(m) ||x_j a^-j||_2, plus the fixed former counterexample (n=56, m=2, w=-1, impulse at 55). "
            "CORR: Gaussian complex+real vectors for every n <= 512 and all 8 classes for n <= 40 (full vectors), digests (8 bins + 4 weighted sums of a generated "
            "input) for every n in 513..4096 (thorough) and 8 / 40 sampled large lengths, fft(x,n') for n <= 12 and n = 16, 24, ..., about half (quick) / a tenth "
            "(thorough) of the czt cases. distinct = distinct protocol lines; non-trivial = all",
    "technique": "Lean 4 proof over an index-map model generic in the scalar (run at Float by the driver, reasoned about at R with toC : Cx R -> C) "
                 "+ differential correspondence on the real library + long-double direct-DFT oracle with the property's own bound",
    "level_note": "floating-point rounding is measured, not proved (32 n eps bound checked by the oracle); the model is hand-written (in-place butterflies / transposes -> "
                  "index maps over immutable arrays) and tied to the code by the correspondence run, the small kernels are regenerated from the source; NOT proved: "
                  "T01.3 (bit-reversal table + butterfly stages of Pow2FftPlan), T01.6 (Bluestein/CZT identity), mkPlan_wf (PlanTree is well formed for every n) -- they "
                  "appear as explicit hypotheses of fftC_eq_partial / fftR_eq_partial and are covered only by CORR + ORACLE; the library's long-double chirp phase (czt) is "
                  "modelled by the mathematically identical double expression",
    "trusted_base": TB_COMMON + [
        "long double (x87 80-bit) direct DFT with long-double sin/cos twiddles is taken as exact relative to the 32 n eps double-precision bound",
        "for lengths above 4096 the non-closed-form input classes are checked on 256 sampled bins (a lower bound of the l2 error, never extrapolated) plus Parseval / bin-sum over all bins",
        "Lean Float.cos/sin/atan2/pow/sqrt call the same glibc functions as the library (observed: bit-identical correspondence)",
        "Props/C01Kernels.lean (T01.1, other module) is imported for the leaf kernels",
    ],
    "assumptions": ["lengths n >= 1 (the property's domain); arrays are immutable in the model, aliasing / in-place effects are exhibited only by the correspondence run",
                    "czt: w is given as the double pair (cos t, sin t); the reference takes w on the unit circle (its argument in long double), a exactly as given"],
}
