# props snippet for C01 (to be merged into tools/props.py by the integrator)
LEVEL_TEXT["C01"] = (
    "Theorems (exact, over C, every input, unbounded sizes) about the functions of Model/Fft.lean at R -- the definitions the driver runs at Float: "
    "T01.4 facfft_eq: the general Cooley-Tukey recursion of _facfft (transposes, inner P-point transforms, twiddles tw[q*p*decim] with first row/column "
    "skipped, outer Q-point transforms) is the DFT for EVERY well-formed factor tree, every head length the tree size divides and every DFT leaf solver; "
    "T01.5 dftSlow_eq: _dft_slow with its running index (iw += k, conditional subtraction) is the DFT for every n >= 1; "
    "T01.1 (Props/C01Kernels, REGENERATED kernels fft2/4/8, rfft2/4/8, dft3, literals abstracted by 2c^2=1 / 4d^2=3 + lit_ok for the written digits); "
    "T01.2 coeffs_eq: every cell of the quarter-wave table of Pow2FftPlan holds exp(-2 pi i k/n) for every n divisible by 4; "
    "T01.7 rfftPacked_eq: RealFftPlan's packed transform (half-length complex plan + untangling, Nyquist bin, mirrored upper half) is the DFT of the real input "
    "for every even n, given a DFT of size n/2; T01.8 the DFT of a real sequence is conjugate symmetric and complex(x) denotes the same sequence; "
    "T01.9 fftCN_eq / fftRN_eq: fft(x, n') is the DFT of x zero-padded / truncated to n' (all three branches); "
    "T01.3 (Props/C01Pow2) pow2fft_eq: the bit-reversal table built by doubling (bitrevTable_getD) and the log2 n butterfly stages of Pow2FftPlan are the DFT for every "
    "power of two n >= 16; T01.6 (Props/C01Czt) czt_eq / cztPrime_hczt: Bluestein's chirp identity, the no-wrap circular convolution through the padded power-of-two "
    "transforms and the final chirp multiplication give sum_j x[j] a^-j w^(jk) for |w| = 1, hence the DFT at every prime length > 41; (Props/C01Plan) mkPlan_wf: the factor tree "
    "built by the planner (trial factorisation, sorting, split into P x Q) is well formed for every 2 <= n < 2^31; "
    "T01.10 (Props/C01Total) fftC_eq / fftR_eq, UNCONDITIONAL: for every 0 < n < 2^31 the plan selection (small / prime / power of two / factor tree; real: small / prime / packed even / "
    "odd composite) glued to those components is the DFT of its input (fftCN_eq_total / fftRN_eq_total for fft(x, n'), fftR_conj_symm_total, fftR_eq_fftC_total for the real-input clauses); "
    "the *_partial forms with the components as hypotheses are kept as the intermediate statements. "
    "Tie: correspondence of the model at Float with the library (bit-identical on every fft/rfft/fftn/rfftn case observed; czt and lengths through the prime-CZT "
    "differ only by the long-double chirp phase of the library). Measured only: the 32 n eps relative l2 bound (and the czt bound of DESIGN.md) against a long-double direct DFT."
)

PROPS["C01"] = {
    "gen": ["SmallFft", "Consts", "Cmplx"],
    "lean_props": ["DspVerif.Props.C01Kernels", "DspVerif.Props.C01", "DspVerif.Props.C01Pow2", "DspVerif.Props.C01Plan", "DspVerif.Props.C01Czt", "DspVerif.Props.C01Total"],
    "harness": [{"src": "c01.cpp", "cfg": "rel",
                 # the model mirrors the operation order: fft/rfft/fftn/rfftn agree bit-exactly today, 1e-11 of the line maximum tolerates harmless
                 # re-association.  czt (and fftg/rfftg, whose sampled large lengths include primes solved by the same CZT): the library forms the chirp
                 # phase angle(w)*k^2/2 in long double (/repo 4e9c74f), the Float model in double -> difference up to ~eps*|arg w|*N^2/2 (observed 8e-13 for
                 # czt, 1.2e-11 for a prime near 10^5): 1e-9.  A wrong index / sign / twiddle changes outputs by O(1) relative.
                 "tol": {"fft": (1e-11, 0.0), "rfft": (1e-11, 0.0), "fftn": (1e-11, 0.0), "rfftn": (1e-11, 0.0),
                         "czt": (1e-9, 0.0), "fftg": (1e-9, 0.0), "rfftg": (1e-9, 0.0)},
                 # czt outputs can cancel to ~eps of the inputs (a start point a with a tiny component sends an O(1) input to outputs of 1e-9 and 1e-16):
                 # the tolerance of a czt line is relative to the largest input sample / parameter as well as the largest output
                 "tol_scale_inputs": ["czt"]}],
    "rule": "ORACLE (long-double direct DFT, relative l2 error <= 32 n eps): EVERY n in 1..512 (quick) / 1..4096 (thorough), all bins, x 8 input classes "
            "{complex Gaussian, impulse at 0 / random / n-1, constant, single complex tone, alternating signs, 1e+-150 dynamic range} x 6 entry points "
            "{fft(arr_cmplx), FftPlan(n), fft(arr_real), rfft, FftPlanR(n), fft(complex(x))} + real-vs-complexified and conjugate-symmetry comparisons + a 9th call "
            "on the same plan object; plus a structured sample of lengths up to 2^17 (primes, semiprimes with two CZT leaves / small x large, prime powers, 2^k p, "
            "highly composite, powers of two; ~16 quick / ~130 thorough): all bins for the closed-form classes, 256 sampled bins (with mirrors, the tone's own bins) "
            "as a LOWER bound of the error for the others + Parseval and sum-of-bins consequences over all bins; fft(x, n') for all n' in 1..2n, n <= 24 (quick) / 64 "
            "(thorough), complex, real and rfft; czt: 600 (quick) / 6000 (thorough) cases, exhaustive (n,m) in 1..8 corner, random n,m <= 64 (every 10th thorough case "
            "<= 300), w on the unit circle (DFT contour, inverse contour, w = -1, w = 1, random), a in {1, 1+ulp, |a| in [0.5,2] random, |a| in {0.5,2}, |a| = 1}, "
            "free function and CztPlan, bound 32 n2 eps sqrt(m) ||x_j a^-j||_2, plus the fixed former counterexample (n=56, m=2, w=-1, impulse at 55). "
            "czt PARAMETER CLASSES (800 quick / 8000 thorough cases, same bound, reference a^-j in polar long-double form cross-checked against repeated multiplication): "
            "real and imaginary part of a INDEPENDENTLY from {0, -0, 1, -1, 1+ulp, 1-ulp, -1-ulp, 0.5, -0.5, +-random} (all 121 pairs but a = 0; counted: cases where the real "
            "part alone is within an ulp of 1), a = 1 + delta in 6 directions for delta in {eps/2 .. 1e-4} with few outputs and long inputs (the code's abs(a-1) > eps(a.re) test), "
            "a == w, a == conj(w), w in {DFT contour, inverse contour, exact 1 / -1 / (-1,-0) / i / -i, real (imaginary) part alone special with the other part 1e-9, |w| = 1 + ulp, "
            "a/|a|, random}, (n, m) in {<= 8, m = n, m = 1, n = 1, m + n - 1 = 2^k - 1 / 2^k / 2^k + 1, prime x pow2, pow2 x prime, prime x prime, m < n, m > n}, inputs {complex, "
            "real, real with -0 imaginary parts, 1e+-150 dynamic range, last-sample impulse, constant, 1e-290 scale, 1e100 scale}, entry points czt(), CztPlan, CztPlan second "
            "call / copy of a used plan whose original is destroyed, CztPlan after a rejected (wrong-size) call; |w| != 1 (outside the domain) goes through CORR only. "
            "MAGNITUDE CLASSES for every entry point {fft(arr_cmplx), FftPlan, fft(arr_real), rfft, FftPlanR, fft(complex(x)), fft(x, n') / rfft(x, n') of the non-zero prefix}, "
            "plan objects used after a rejected call and as copy-constructed / copy-assigned copies: every n in 1..96 (quick) / 1..1024 (thorough) + structured larger lengths "
            "(quick to 98304 = 2*49152, thorough to 2^18, 3*2^16, 3*49152, primes 65537 / 131071, 2*46349): real impulses of height {0.9, 0.6, 0.5(1+2^-20), 0.26} S at positions "
            "{0, 1, n-1, n/2, random even, random odd, random}, two / three real samples, complex impulses and pairs, dense real / complex vectors, all with l1 norm <= 0.95 S (so every "
            "partial sum of every bin stays below S), at S = DBL_MAX (result must be finite and within 32 n eps; lengths with a Bluestein leaf: the same demand at S = DBL_MAX/(8 sqrt n); at S = DBL_MAX a non-finite result "
            "there is the known finding C01:cztleaf-top-of-range-nonfinite, a finite one must be accurate, see level_note), S = 1e-300, S = DBL_MIN, 2^-1054, 2^-1072 (denormal range: additional absolute allowance 12 n denormal steps, 24 n with a Bluestein "
            "leaf; the unchanged library uses <= 10% of it); all-(+0), all-(-0), mixed zero inputs -> every output component is a zero; samples replaced by -0.0 -> same values as with +0.0. "
            "ALIASING: x = fft(x) and x = plan(x) bit-identical to a distinct destination (every n, Gaussian and dynamic-range inputs). "
            "CORR: Gaussian complex+real vectors for every n <= 512 and all 8 classes for n <= 40 (full vectors), digests (8 bins + 4 weighted sums of a generated "
            "input) for every n in 513..4096 (thorough) and 8 / 40 sampled large lengths, fft(x,n') for n <= 12 and n = 16, 24, ..., about half (quick) / a tenth "
            "(thorough) of the czt cases, the czt parameter-class cases with n, m <= 64 (half quick / an eighth thorough + every a = 1 + delta case), every third (quick) / ninth "
            "(thorough) magnitude-class signal and the zero inputs for n <= 64 (not the denormal scales at Bluestein lengths). distinct = distinct protocol lines; non-trivial = all",
    "technique": "Lean 4 proof over an index-map model generic in the scalar (run at Float by the driver, reasoned about at R with toC : Cx R -> C) "
                 "+ differential correspondence on the real library + long-double direct-DFT oracle with the property's own bound",
    "level_note": "floating-point rounding is measured, not proved (32 n eps bound checked by the oracle); the model is hand-written (in-place butterflies / transposes -> "
                  "index maps over immutable arrays) and tied to the code by the correspondence run, the small kernels are regenerated from the source; n >= 2^31 is outside the theorems (int lengths); "
                  "the library's long-double chirp phase (czt) is "
                  "modelled by the mathematically identical double expression. KNOWN FINDING C01:cztleaf-top-of-range-nonfinite (property violated, not repaired): for lengths with a prime factor > 41 (Bluestein leaf) the "
                  "library returns NaN for finite inputs above ~0.8 DBL_MAX/sqrt(n2) although the exact DFT is finite (impulse 0.0716 DBL_MAX at n = 43, 0.0149 DBL_MAX at n = 1031, "
                  "0.00195 DBL_MAX at n = 65537): the frequency-domain product with the chirp spectrum overflows. The oracle reports exactly the class {Bluestein leaf, l1 norm of the "
                  "input above DBL_MAX/(8 sqrt n), exact DFT representable, result non-finite} under that one key (one line per entry point and run, with the count); finite results "
                  "there must still be accurate, and everything below DBL_MAX/(8 sqrt n) or at lengths without a Bluestein leaf is judged under the mag-top-* keys",
    "trusted_base": TB_COMMON + [
        "long double (x87 80-bit) direct DFT with long-double sin/cos twiddles is taken as exact relative to the 32 n eps double-precision bound",
        "for lengths above 4096 the non-closed-form input classes are checked on 256 sampled bins (a lower bound of the l2 error, never extrapolated) plus Parseval / bin-sum over all bins",
        "Lean Float.cos/sin/atan2/pow/sqrt call the same glibc functions as the library (observed: bit-identical correspondence)",
        "Props/C01Kernels.lean (T01.1, other module) is imported for the leaf kernels",
    ],
    "assumptions": ["lengths n >= 1 (the property's domain); arrays are immutable in the model, aliasing / in-place effects are exhibited only by the correspondence run",
                    "czt: w is given as the double pair (cos t, sin t); the reference takes w on the unit circle (its argument in long double), a exactly as given"],
}
