# props snippet for C13 (to be merged into tools/props.py / tools/props.d/C13.py by the integrator)
LEVEL_TEXT["C13"] = (
    "Theorems (exact arithmetic over R, every signal, window, overlap, segment count, accepted nfft; about Model/Spectrum.lean, the functions the "
    "driver runs at Float): welch returns nfft/2+1 (real) / nfft (complex) values, all >= 0; in density scaling their sum is "
    "nfft * mean_segments(sum_t |x w|^2) / (w.w) (Parseval with zero-padding, proved from the orthogonality of roots of unity; for real input the "
    "one-sided folding keeps the sum by conjugate symmetry); in power scaling a bin-centred complex tone a e^{2 pi i k0 t/nfft} has value |a|^2 at "
    "bin k0, value |a|^2 |W(j-k0)|^2/(sum w)^2 at every bin, and bin k0 is the maximum for every non-negative window; real input: entry k of f is "
    "k/nfft and entry k of pxx is the one-sided power of DFT bin k; complex input (as the code is): entry j of pxx is DFT bin j (transform order) "
    "while entry j of f is (j - nfft/2 + 1)/nfft, and for EVERY even nfft >= 4 and EVERY j the two differ by 1/nfft - 1/2 (not an integer) -- the recorded "
    "finding C13:complex-welch-axis in general form, plus the concrete witness (nfft 8, tone at +0.25 peaks at the entry labelled -1/8); "
    "mscohere in [0,1] by Cauchy-Schwarz over the segments for EVERY transform, and = 1 for y = s x, s != 0, wherever the spectrum of x is not zero. "
    "All clauses that use the transform take 'fft(seg, nfft) is the nfft-point DFT of the zero-padded segment' as explicit hypothesis (property C01; "
    "bridging lemmas isDftR_of_pad / isDftC_of_pad accept C01's statement shape). "
    "UNCONDITIONAL (Props/C13Total): every clause above is restated for the library's own fft(x, n) models (fftRN / fftCN, C01) for every accepted nfft < 2^31 -- welchR/C_size_total, _nonneg_total, _power_total, welchC_tone_value/peak/max_total, welchR_cos_tone_total, welchR_labels_total, mscohere_range_total, mscohere_scaled_copy_total; welchC_axis_witness_total is the formal counterpart of the known finding C13:complex-welch-axis. "
    "Tie: correspondence of the hand-written model with the library, "
    "bit for bit on every case so far (tolerance 1e-12 / 1e-9 of the line maximum), including the guard and boundary classes outside the property's domain. "
    "Measured only: rounding (long-double time-domain power vs. the returned sum, a-priori bound (nseg + winlen + 16 log2 nfft + 16) eps), the real "
    "bin-centred sinusoid (A^2/2 up to the negative-frequency image 2r + r^2, r = |S(2k0)|/S(0) computed from the window), off-bin tones "
    "(the label of the maximum is the nearest listed frequency whenever the exact estimator -- independent long-double evaluation -- has its unique "
    "maximum at the nearest bin), [0,1] and = 1 in Float; welch and mscohere bin by bin against the long-double evaluation of their definitions (signals with silent stretches, "
    "spectra spanning > 300 dB, scale classes), with tolerances derived from the conditioning of each bin."
)

PROPS["C13"] = {
    "gen": ["Cmplx", "SmallFft", "Consts"],
    "lean_props": ["DspVerif.Props.C13", "DspVerif.Props.C13Total"],
    "harness": [{"src": "c13.cpp", "cfg": "rel",
                 "tol": {"wR": (1e-12, 0.0), "wC": (1e-12, 0.0), "wRd": (1e-12, 0.0), "wCd": (1e-12, 0.0),
                         "coh": (1e-9, 0.0), "cohd": (1e-9, 0.0), "fR": (0.0, 0.0), "fC": (0.0, 0.0)}}],
    "rule": "welch: EVERY overlap 0..winlen-1 for every window length 1..nfft at nfft 8, 16, 32 (quick: a third of the lengths), real and complex, alternating scalings; "
            "nfft in {8,16,...,4096} x 10 window families (rect, hann, hamming, blackman, blackmanharris, gauss, cosine, tukey, kaiser, random positive; symmetric/periodic, "
            "random shape parameters) x window lengths {nfft, nfft-1, nfft/2, nfft/2+1, random} x overlap {0, 1, winlen/2, winlen-2, winlen-1, random} x 6 signal kinds "
            "(gauss, scaled 1e-3..1e3, tone+noise, impulsive, dc+noise, level changes) x signal length winlen..10^5 (segment counts 1 .. >1024, last segment ending at / before "
            "the last sample) x both scalings x real/complex (1 repetition quick, 10 thorough), 6 (48) full-length 10^5-sample signals; power scaling: bin-centred complex and real "
            "tones on every nfft x family x 2 (4) window lengths x 4 (10) tones incl. DC and Nyquist; tone sweep: every bin x 3 (5) offsets in (-0.48, 0.48) bins at nfft <= 64 (<= 512), "
            "220 (5000) sampled tones + all band-edge bins per configuration above, over (-1/2, 1/2) complex and (0, 1/2) real (twice as fine), 2 (5) window configurations per nfft; "
            "overloads: 16 (60) window lengths, every default overload against the explicit call bit for bit; mscohere: nfft x family x {independent, scaled copy (c = +-2^k or 1e-3..1e3), "
            "FIR-filtered copy, noisy copy, coloured pair} x sampled overlaps, every overlap for winlen 2..8 (16), 3 (10) pairs of 10^5 samples; guard classes: 40 boundary tuples "
            "(nfft not a power of two / <= 0, noverlap >= winlen, negative noverlap, signal shorter than the window, segment-count boundaries, window longer than nfft, nfft 1/2/4/8192, "
            "all-zero window, size mismatch). "
            "Round 2 (value-pattern classes; every welch call is also judged on sum(pxx) = nfft mean_seg(sum |x w|^2) / (sum w)^2 in power scaling): "
            "SILENT STRETCHES: 11 patterns (one / first / last segment, a range of segments, all but one window length, zero-padded tail, leading silence, gated bursts, "
            "a single non-zero sample, near misses one sample off the grid / one sample short, the whole record) x 9 quiet values (+0, -0, mixed zeros, denormals, 1e-310, 1e-170, 1e-120, "
            "1e-17, 1e-8) over every overlap of every window length at nfft 8/16/32 and over nfft x family x 2 (4) window lengths x sampled overlaps, real and complex, both scalings: "
            "sums over ALL segments, every bin against the long-double definition (1e-11 of the maximum), rectangular no-overlap records against the mean square of the whole record; "
            "COHERENCE AGAINST ITS DEFINITION (long double, per-bin tolerance from the conditioning of the bin, bins more than ~245 dB below the segment energy counted only): 7 kinds of x "
            "spanning up to > 450 dB in Pxx Pyy (tone / bin-centred tones + dither 1e-3..1e-15, decaying multisine, cascaded one-pole noise, 16-bit quantised tone, impulses + dither, white) x 7 partners "
            "(copy times +-2^k: 1 at EVERY bin whatever its level; scaled copy; (1 +- z)^p FIR copy; IIR copy; independent; copy + noise 1e-2..1e-12; delayed copy) x low-sidelobe windows "
            "(blackmanharris, kaiser 12..40, gauss 4..8) and ordinary ones x 1..32 segments (one segment: 1 at every bin), 11 x 11 scale pairs 1e-150..1e150 applied to x and y separately "
            "(pairs whose squares leave the double range: CORR only), exactly zero spectra (x = 0, y = 0, both, alternating +-1) and silent stretches in either signal (NaN or [0,1], pinned by CORR); "
            "welch of the same dynamic-range signals judged per bin relative to the bin; SCALE CLASSES of signal and window 1e-300..1e150 (14 x 14, power-of-two scales bit for bit, out-of-range "
            "pairs CORR only, |x| ~ 1e150 with finite squares); HISTORIES: up to 15 rejected calls (bad nfft, noverlap >= winlen, short signal, size mismatch; real / complex / mscohere) each followed by "
            "the three valid calls, bit for bit; ALIASING and TEMPORARIES: mscohere(x, x), welch(x, x), mscohere(x, y, x), x = welch(x).pxx, r = welch(r.pxx), rvalue operands, const& and range-for over "
            "results of temporaries; LONG RECORDS after the short ones: 4 (14) lengths 2^16..393216 incl. k 49152, k 65536, 2^17 +- 1, primes, welch and mscohere against the definition; "
            "PRIME LENGTHS > 46340 for signal, window and hop, nfft 8192..2^17. "
            "distinct = distinct protocol lines + oracle evaluations; non-trivial = all",
    "technique": "Lean 4 proof over a hand-written scalar-generic model (run at Float by the driver on top of C01's FFT model, reasoned about at R with the DFT as "
                 "explicit hypothesis; Parseval, conjugate symmetry and Cauchy-Schwarz proved in Lib/C13Dft) + differential correspondence on the real library + "
                 "long-double oracle (time-domain power, independent radix-2 long-double estimator for the tone clauses)",
    "level_note": "rounding is measured, not proved; the model of welch/mscohere is hand-written (loops -> List.foldl over the segment index, in-place updates -> Array.ofFn index maps) and tied "
                  "to the code only by the correspondence run; the theorems are relative to 'fft = DFT' (C01); the real-sinusoid and off-bin-tone clauses are measured only (the negative-frequency "
                  "image makes them approximate for any correct implementation); tones for which the exact estimator itself does not peak at the nearest bin (ties half-way between bins, real tones "
                  "within a main lobe of DC/Nyquist) are counted (tones_ambiguous_*), not judged; complex input: the label clause FAILS on the current tree (known finding C13:complex-welch-axis), "
                  "the theorems state what the code does and that its labels are not the frequencies of its values",
    "trusted_base": TB_COMMON + [
        "the library's fft(seg, nfft) at power-of-two nfft is the DFT of the zero-padded / truncated segment (property C01): hypothesis IsDftR / IsDftC of every theorem that uses the transform",
        "the driver instantiates the transform parameter of the model with C01's FFT model (Model/Fft.lean: fftRN / fftCN) at Float",
        "long double (x87 80-bit) evaluation of the time-domain power and of the reference estimator is taken as exact relative to the double-precision bounds",
    ],
    "assumptions": ["signal at least as long as the window, window power / window sum not zero, window length <= nfft for the power clauses: the property's domain; "
                    "outside it the code throws or divides by zero (NaN / -0) -- these classes are run by the harness and reproduced by the model",
                    "int arithmetic of the segment count modelled on Int (no overflow below 2^31 samples)"],
}
