# C10 — additions of the strengthening round (the base entry lives in tools/props.py): histories with rejected calls, long-history soak.

PROPS["C10"]["rule"] = (
    "all request histories of length <= L over six 6..11-letter alphabets of transform calls (complex, real, mixed incl. ifft/irfft/czt, inverse real in both input forms, "
    "inverse real WITH REJECTED CALLS {irfft / IfftPlanR / istft with the odd neighbour n+1 of a valid length, wrong bin count, a plan object that rejected a call and is used again}, "
    "forward/complex WITH REJECTED CALLS {FftPlan / FftPlanR / IfftPlan / CztPlan objects applied to n+1 samples, empty inputs, istft frames of the wrong length} + the stft/istft round trip), "
    "with and without long-lived plan objects; every even n <= 64 (thorough 256) x {irfft full, irfft half, istft(stft)} after each kind of rejected request for n+1 and n-1 as the first requests of a thread; "
    "random 400..2000-request histories over 40 lengths, three of four with about one rejected call in five ('try n+1, fall back to n' pairs); each history in a fresh thread, every result AND every outcome "
    "(exception or not) compared with the fresh-thread one, both caches' key lists in lock-step with the Lean model after every call (what a rejected call requests before it throws is modelled); "
    "SOAK (one thread each, beside the enumeration): the LRU container of lib/lru-cache.h, every lookup-or-create in lock-step with a reference LRU (exists/get/put outcome; full key order after each of the "
    "operations in windows of +-160 around every power of two, 2^31 + 2^16, 2^32 + 2^16, 2^32 + 2^20, every 2^24 and after every 2^20-operation block), 2^26 + 2^13 operations quick, 2^32 + 2^21 thorough; "
    "the complex and the real plan cache through the public API (FftPlan / FftPlanR), 2^26 + 2^13 requests each quick, 2^32 + 2^21 each thorough: hits on hot lengths with full key comparison (hook) every "
    "2^16 requests, a burst with evictions every 2^20, and lock-step windows of 48 mixed requests (hook after every request, replayed by the Lean model from the window's start state) around every power of two "
    "up to 2^32 and the later points above; operation counts in the statistics soak_*_operations / soak_*_requests; VERIF_C10_SOAK=full runs the 2^32 soak in the quick tier; "
    "distinct = distinct histories (every enumerated sequence is different); non-trivial = all")
PROPS["C10"]["level_note"] += (
    "; the soak reaches histories of > 2^32 requests by running them (about 1-3 minutes), between the lock-step windows the flat reference LRU of the harness (power-of-two lengths only: no nested "
    "requests) stands in for the Lean model, with which it is re-synchronised and compared at every window; rejected calls are modelled by the plan requests they make before throwing")
