# C10 — additions of the strengthening round (the base entry lives in tools/props.py): histories with rejected calls, long-history soak.

PROPS["C10"]["rule"] = (
    "all request histories of length <= L over six 6..11-letter alphabets of transform calls (complex, real, mixed incl. ifft/irfft/czt, inverse real in both input forms, "
    "inverse real WITH REJECTED CALLS {irfft / IfftPlanR / istft with the odd neighbour n+1 of a valid length, wrong bin count, a plan object that rejected a call and is used again}, "
    "forward/complex WITH REJECTED CALLS {FftPlan / FftPlanR / IfftPlan / CztPlan objects applied to n+1 samples, empty inputs, istft frames of the wrong length} + the stft/istft round trip), "
    "with and without long-lived plan objects; every even n <= 64 (thorough 256) x {irfft full, irfft half, istft(stft)} after each kind of rejected request for n+1 and n-1 as the first requests of a thread; "
    "random 400..2000-request histories over 40 lengths, three of four with about one rejected call in five ('try n+1, fall back to n' pairs); each history in a fresh thread, every result AND every outcome "
    "(exception or not) compared with the fresh-thread one, both caches' key lists in lock-step with the Lean model after every call (what a rejected call requests before it throws is modelled); "
    "SOAK (one thread each, beside the enumeration): the LRU container of lib/lru-cache.h, every lookup-or-create in lock-step with a reference LRU (exists/get/put outcome; full key order after each of the "
    "operations in windows of +-160 around every power of two, 2^31 + 2^16, 2^32 + 2^16, 2^32 + 2^20, every 2^24 and after every 2^20-operation block), 2^26 + 2^13 operations quick, 2^32 + 2^21 thorough; "
    "the complex and the real plan cache through the public API (FftPlan / FftPlanR), 2^26 + 2^13 requests each quick, 2^32 + 2^21 each thorough: hits on hot lengths with full key comparison (hook) every "
    "2^16 requests, a burst with evictions every 2^20, and lock-step windows of 48 mixed requests (hook after every request, replayed by the Lean model from the window's start state) around every power of two "
    "up to 2^32 and the later points above; operation counts in the statistics soak_*_operations / soak_*_requests; VERIF_C10_SOAK=full runs the 2^32 soak in the quick tier; "
    "N-POINT / DERIVED CALLS (third round): four more 11..13-letter alphabets, all histories of length <= 3 (thorough 4): fft(x_cmplx, n), fft(x_real, n), rfft(x, n) with inputs SHORTER, EQUAL and LONGER than n "
    "— several input lengths for ONE n (64, 60, 97, 16) within a history, every order; welch (real, complex) and mscohere with window lengths 48/16/64, 32/12 at nfft 64, sinad (periodogram, 48 and 40 samples -> nfft 64), "
    "hilbert(x, n), a rejected welch call (nfft not a power of two); calls that pad internally: xcorr (real, complex), FftFilter with 8/5/17 taps, finddelay, resample; every n <= 40 (thorough 130) x {complex, real}: "
    "inputs of n-1, 1, n+3, n/2, n, n/2+1 samples at that n as the first calls of a thread; single calls of 2^16 / 2^17 / 3*2^16 samples after small ones and short inputs after them at the same n; the random histories "
    "contain bursts of 2..4 n-point / spectral calls at one n with different input lengths and internally padding calls; the Lean model replays which plan each of these calls requests (one request for n whatever the input length; "
    "xcorr / FftFilter / finddelay / sinad: 2^nextpow2 of the padded length); witnesses name every call in words and carry the input generators (and the failing call's input array); "
    "CONCURRENT HISTORIES: 3 (thorough 12) batches of 8 histories of 500 (1500) calls run at the same time, one fresh thread each, on inverse-real lengths that differ between the threads (irfft full / half spectrum, "
    "2..31 identical irfft calls in a row, IfftPlanR objects, rejected odd lengths, n-point calls, hilbert, stft round trips): same bits as alone, same key lists (lock-step with the Lean model per thread); "
    "statistics npoint_calls_input_*, padded_calls_after_a_longer_input_at_the_same_n, histories_run_concurrently, phase_ms_*; "
    "distinct = distinct histories (every enumerated sequence is different); non-trivial = all")
PROPS["C10"]["level_note"] += (
    "; the soak reaches histories of > 2^32 requests by running them (about 1-3 minutes), between the lock-step windows the flat reference LRU of the harness (power-of-two lengths only: no nested "
    "requests) stands in for the Lean model, with which it is re-synchronised and compared at every window; rejected calls are modelled by the plan requests they make before throwing; the inputs of a call are a fixed function of its lengths (generators xc / xr), so 'depends only on its arguments' is tested on one input per length pair; the concurrent batches show races only with the probability the scheduler gives them (8 threads, about 10^4 inverse-real plan constructions each per batch)")
