# C08 — to be merged into tools/props.py by the integrator (LEVEL_TEXT["C08"] and PROPS["C08"]).

LEVEL_TEXT["C08"] = (
    "Theorems (exact arithmetic over the reals, every L, M >= 1 reduced or not, every coefficient vector with non-zero sum, every input, "
    "EVERY call of every history of accepted frames, not only the first call from rest): polyphase(h,m,gain,flip) is the zero-padded "
    "sum-normalised filter in branch form (DC gain 1); the textbook chain 'insert L-1 zeros, filter' only meets branch m%L at input m/L "
    "(polyphase identity); FIRInterpolator = chain with gain L at phase 0, |x|*L samples; FIRDecimator = flipped zero-padded filter at phase M-1 "
    "(for a linear-phase h: h itself at phase M-1-pad), |x|/M samples; the FIRRateConverter constructor's schedule is branch ((r+1)M-1)%L, offset "
    "((r+1)M-1)/L; FIRRateConverter output O = chain sample (O+1)M-1, |x|/M*L = |x|*L/M samples; frames that are not a multiple of M are rejected; "
    "every read of the three loops is inside the work buffer; FIRResampler's constructor is exhaustive on reduced ratios; "
    "resample(x,p,q,h) never throws and returns p'*ceil(len/q') samples for every p,q >= 1, every h, every x including the empty one "
    "(the padded input is long enough for EVERY value of delay()), returns x for p = q; delay() of the rate converter is the nearest integer to the "
    "group delay in output samples; every int intermediate of resample is bounded by the buffer / output length. "
    "Tie: hand-written model (Model/Resample.lean) run at Float against the real classes, bit-exact on all correspondence cases "
    "(polyphase tables, multi-call outputs with rejected frames in between, delay()/rates, resample with explicit h, next/prev_size, simplify). "
    "Measured only: rounding (implementation vs long-double textbook chain <= 1e-12 relative), the alignment of resample (least-squares lag on a "
    "slow tone, a sweep and a two-tone signal <= 1 output sample for all reduced p,q <= 16 and the audio ratios) and its band-limited accuracy."
)

PROPS["C08"] = {
    "gen": [],
    "lean_props": "DspVerif.Props.C08",
    "harness": [
        {"src": "c08.cpp", "cfg": "rel", "tol": {"*": (1e-12, 0.0)}},
        {"src": "c08.cpp", "cfg": "asan", "tiers": ["thorough"], "tol": {"*": (1e-12, 0.0)}},
    ],
    "rule": "converters: every pair (L,M) in 1..16 x 1..16 that is reduced (thorough: all 159; quick: all pairs <= 8 plus a seed-dependent third of the rest) "
            "for FIRRateConverter and FIRResampler, pure L for FIRInterpolator, pure M for FIRDecimator, a third of the non-reduced pairs, "
            "audio ratios 160/441 441/160 147/160 160/147 320/147 147/320 2/147 441/2 and their x100 sample-rate forms; per (class,L,M) 12 (quick) / 72 (thorough) "
            "repetitions cycling through h = default design | symmetric short | symmetric multiple of the rate | symmetric any length 2..40*max(L,M) | "
            "symmetric 40*max(L,M) or one less | non-symmetric; 1..4 frames per object (multiples of M incl. empty, frames shorter than the state, "
            "illegal lengths interleaved which must be rejected without disturbing the state), inputs gauss | tone | sweep | impulse | step | integer ramp; "
            "resample: all (p,q) <= 8 (quick) / <= 16 (thorough) incl. non-reduced and p = q + audio ratios + 48000/44100, lengths 1, multiples and non-multiples of q, "
            "empty input for every ratio, one 4.87M-sample input at 441/160 (thorough); alignment on 3 signals per reduced ratio; "
            "sum(h) = 0 (excluded point) run through CORR only; distinct = distinct protocol lines / oracle cases (random h and x differ per case); non-trivial = all",
    "technique": "Lean 4 proof over a hand-written executable model (generic scalar, Float for the driver, reals for the theorems) + bit-exact multi-call "
                 "correspondence with the real classes + long-double textbook-chain oracle (literal zero-stuff/convolve for small sizes)",
    "level_note": "rounding is not modelled (theorems over the reals; sum(h) != 0 is an explicit hypothesis, the excluded point is a CORR input class); int is modelled "
                  "as Nat (resample_no_overflow bounds every intermediate by the array lengths; uint16_t xidxs_ needs M <= 65536: phasePair_lt); the default coefficient "
                  "design (_multirate_fir = fir1 + kaiser) is an INPUT of the model (belongs to C11), the harness checks bit-exactly that the default constructors / "
                  "resample(x,p,q) use exactly the vector passed to the model; alignment (T08.9) and approximation quality are measured, not proved; the multi-call "
                  "statement is per call for an arbitrary history (the induction over calls is C06's framing theorem)",
    "trusted_base": TB_COMMON + [
        "memcpy-based delay-line update of process() modelled as Array append/extract; its aliasing-freedom is exhibited by the ASan+UBSan run (thorough tier)",
        "harness re-implementation of the anonymous _multirate_fir (public fir1 + window::kaiser), checked bit-exactly against resample(x,p,q) on every default-design case",
    ],
    "assumptions": [
        "sum(h) != 0 (no DC normalisation exists otherwise: the code divides by zero and returns inf/NaN — run as a correspondence case, not claimed)",
        "h non-empty (an empty vector makes the constructors call zeros(-1))",
        "array lengths fit 32-bit int: len + mdl + 2q + state length < 2^31 and ((len+mdl)/q + 2)*p < 2^31, delay()*q + p <= 2^31 (resample_no_overflow)",
    ],
}
