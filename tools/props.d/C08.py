# C08 — to be merged into tools/props.py by the integrator (LEVEL_TEXT["C08"] and PROPS["C08"]).

LEVEL_TEXT["C08"] = (
    "Theorems (exact arithmetic over the reals, every L, M >= 1 reduced or not, every coefficient vector with non-zero sum, every input, "
    "EVERY call of every history of accepted frames, not only the first call from rest): polyphase(h,m,gain,flip) is the zero-padded "
    "sum-normalised filter in branch form (DC gain 1); the textbook chain 'insert L-1 zeros, filter' only meets branch m%L at input m/L "
    "(polyphase identity); FIRInterpolator = chain with gain L at phase 0, |x|*L samples; FIRDecimator = flipped zero-padded filter at phase M-1 "
    "(for a linear-phase h: h itself at phase M-1-pad), |x|/M samples; the FIRRateConverter constructor's schedule is branch ((r+1)M-1)%L, offset "
    "((r+1)M-1)/L; FIRRateConverter output O = chain sample (O+1)M-1, |x|/M*L = |x|*L/M samples; frames that are not a multiple of M are rejected; "
    "every read of the three loops is inside the work buffer; FIRResampler's constructor is exhaustive on reduced ratios; "
    "resample(x,p,q,h) never throws and returns p'*ceil(len/q') samples for every p,q >= 1, every h, every x including the empty one "
    "(the padded input is long enough for EVERY value of delay()), returns x for p = q; delay() of the rate converter is the nearest integer to the "
    "group delay in output samples; every int intermediate of resample is bounded by the buffer / output length. "
    "Tie: hand-written model (Model/Resample.lean) run at Float against the real classes, bit-exact on all correspondence cases "
    "(polyphase tables, multi-call outputs with rejected frames in between, delay()/rates, resample with explicit h, next/prev_size, simplify). "
    "Measured only: rounding (implementation vs long-double textbook chain <= 1e-12 relative), the alignment of resample (least-squares lag on a "
    "slow tone, a sweep and a two-tone signal <= 1 output sample for all reduced p,q <= 16 and the audio ratios) and its band-limited accuracy."
    " REGENERATED TIE (Props/C08Gen): IResampler::polyphase, zeropad, the constructors of FIRInterpolator / FIRDecimator / FIRRateConverter (incl. the branch / offset schedule loop) and their whole frame-level process (guard, memcpy hand-over, nested loops) are translated from the C++ on every run and proved equal to the models (polyphase_eq, fir*Ctor_eq, fir*Process_eq); T08.2 / T08.3 / T08.5 are restated from the generated constructor through the generated process (gen_interp_from_ctor, gen_decim_from_ctor, gen_rateconv_from_ctor). "
)

PROPS["C08"] = {
    "gen": ["Cmplx", "StepsBase", "StepsArray", "StepsResample", "CtorResample"],
    "lean_props": ["DspVerif.Props.C08", "DspVerif.Props.C08Gen"],
    "harness": [
        {"src": "c08.cpp", "cfg": "rel", "tol": {"*": (1e-12, 0.0)}},
        {"src": "c08.cpp", "cfg": "asan", "tiers": ["thorough"], "tol": {"*": (1e-12, 0.0)}},
    ],
    "rule": "converters: every pair (L,M) in 1..16 x 1..16 that is reduced (thorough: all 159; quick: all pairs <= 8 plus a seed-dependent third of the rest) "
            "for FIRRateConverter and FIRResampler, pure L for FIRInterpolator, pure M for FIRDecimator, a third of the non-reduced pairs, "
            "audio ratios 160/441 441/160 147/160 160/147 320/147 147/320 2/147 441/2 and their x100 sample-rate forms; per (class,L,M) 12 (quick) / 72 (thorough) "
            "repetitions cycling through h = default design | symmetric short | symmetric multiple of the rate | symmetric any length 2..40*max(L,M) | "
            "symmetric 40*max(L,M) or one less | non-symmetric; 1..4 frames per object (multiples of M incl. empty, frames shorter than the state, "
            "illegal lengths interleaved which must be rejected without disturbing the state), inputs gauss | tone | sweep | impulse | step | integer ramp; "
            "resample: all (p,q) <= 8 (quick) / <= 16 (thorough) incl. non-reduced and p = q + audio ratios + 48000/44100, lengths 1, multiples and non-multiples of q, "
            "empty input for every ratio, one 4.87M-sample input at 441/160 (thorough); alignment on 3 signals per reduced ratio; "
            "sum(h) = 0 (excluded point) run through CORR only; distinct = distinct protocol lines / oracle cases (random h and x differ per case); non-trivial = all. "
            "Round-2 classes: h kinds single-tap (state of length 0) and sparse (whole branches zero); scale classes of h (x1e-300, 1e-17, 1e-8, 1e8, 1e100, -1, 2^-600, 2^40, "
            "denormal taps 1e-320, 3) and of x (the first eight), inputs with runs of exact zeros longer than any state and with negative zeros; "
            "copies of every converter (copy of a prototype, copy mid-stream, vector(n, used object), copy-assignment: bit-identical continuation, independence, chain); "
            "LARGE FRAMES IN HISTORIES, every output of every call against the chain: small-big-small, big-bigger, rejected big frame then big, 3..200 medium frames then big, "
            "geometric staircases up and down, big = just above 2^16 and 2^17 (quick) / 2^12..2^18, k*49152, k*65536, 10^6 (thorough), for 2 (quick, rotating with the seed) / all "
            "(thorough) of 6 interpolators, 6 decimators, 8 rate converters, 8 resampler ratios (all three modes, non-reduced, bypass); a third of them also as digest CORR lines "
            "(tag big: the driver regenerates the integer input, compares length, first/last 8 samples and the sum per call); "
            "EXTREME RATIOS 2/40001, 32769/2, 3/65536, 32768/32769, 7/32769, 1/65537, 1/40000, 40000/1, 65537/1, 48000/44101, 4/80002 (+ 48000/44101 direct, 5/65535, 32767/32768, "
            "40000/39999, 1/100003, 100003/1, 96000/3 thorough) with 2..16-tap, 2R+k-tap and default coefficient vectors, frames M, 0, 2M, M+1, M-1, M; "
            "resample() on LONG inputs: len = k*floor(B/q')*q', ceil(B/q')*q', B+1, floor-1 for B in 32Ki, 48Ki, 64Ki, 128Ki (quick) / 15 block sizes 4Ki..256Ki, 10^4, 5*10^4, 10^5 (thorough), "
            "q' in 1..8 (16) + 147, 160, 441, 2^16+-1, 2^17+-1, 2^18, 10^6, ALL outputs (the last delay() ones included) against the chain, some as digest CORR lines (tag bigres); "
            "resample() at the extreme ratios; operands that are temporaries / expression results (bit-identical); a rolling per-case watchdog (120 s quick) reports hangs with the case in flight",
    "technique": "Lean 4 proof over a hand-written executable model (generic scalar, Float for the driver, reals for the theorems) + bit-exact multi-call "
                 "correspondence with the real classes + long-double textbook-chain oracle (literal zero-stuff/convolve for small sizes)",
    "level_note": "rounding is not modelled (theorems over the reals; sum(h) != 0 is an explicit hypothesis, the excluded point is a CORR input class); int is modelled "
                  "as Nat (resample_no_overflow bounds every intermediate by the array lengths; the branch offsets xidxs_ are int since the repair of the uint16_t wrap, phasePair_lt bounds them by M); the default coefficient "
                  "design (_multirate_fir = fir1 + kaiser) is an INPUT of the model (belongs to C11), the harness checks bit-exactly that the default constructors / "
                  "resample(x,p,q) use exactly the vector passed to the model; alignment (T08.9) and approximation quality are measured, not proved; the multi-call "
                  "statement is per call for an arbitrary history (the induction over calls is C06's framing theorem)",
    "trusted_base": TB_COMMON + [
        "memcpy-based delay-line update of process() modelled as Array append/extract; its aliasing-freedom is exhibited by the ASan+UBSan run (thorough tier)",
        "harness re-implementation of the anonymous _multirate_fir (public fir1 + window::kaiser), checked bit-exactly against resample(x,p,q) on every default-design case",
    ],
    "assumptions": [
        "sum(h) != 0 (no DC normalisation exists otherwise: the code divides by zero and returns inf/NaN — run as a correspondence case, not claimed)",
        "h non-empty (an empty vector makes the constructors call zeros(-1))",
        "array lengths fit 32-bit int: len + mdl + 2q + state length < 2^31 and ((len+mdl)/q + 2)*p < 2^31, delay()*q + p <= 2^31 (resample_no_overflow)",
    ],
}
