# props snippet for C07 (to be merged into tools/props.py by the integrator)
LEVEL_TEXT["C07"] = (
    "Theorems (exact arithmetic, every tap vector with >= 1 taps, every input, every length, every call sequence; scalar-generic over any "
    "commutative semiring and any `conj`, instantiated at R and at Cx R = cmplx_t with the REGENERATED operators): "
    "FirFilter from rest outputs y[i] = sum_{k<=i} conj(h[k]) x[i-k], and the `_d` hand-over makes a sequence of calls equal to one call on the "
    "concatenation; MAFilter(n) keeps _accum = sum(_buf) over its ring buffer and equals FirFilter with n taps 1/n (n >= 1); "
    "FftFilter's overlap-add bookkeeping (block buffer, `_nx`, tail assignment to `_olap`, no circular wrap because fft_len = _n + m - 1) emits "
    "floor(len/_n)*_n samples, each equal to the direct filter's, and xcorr's padding / slice / flip gives sum_n a[n+lag] conj(b[n]) for every lag "
    "-(len b - 1)..len a - 1 -- both for EVERY transform pair satisfying the circular convolution / correlation theorem at the one length used, "
    "a hypothesis that is discharged for the exact DFT pair (Lib/C07Dft: orthogonality of roots of unity), i.e. what remains assumed is "
    "fft = DFT / ifft = inverse DFT (C01/C02). "
    "UNCONDITIONAL (Props/C07Total): the circular convolution / correlation hypotheses are proved for the library's own transform pair (C01's fftC_eq, C02's inverse) at every block length <= 2^31 -- circConv_lib, circCorr_lib, fftfilter_eq_fir_total_real/cmplx, fftfilter_two_calls_total, xcorr_eq_total_real/cmplx. "
    "Tie: correspondence of the four hand-written models with the library on tap counts 2..1024 x "
    "5 coefficient kinds x 6 input kinds x single/multi-call framings; the driver runs the FftFilter / xcorr models with the transform pair "
    "instantiated by the C01 model of the library's own plans (Fft.fftC / Fft.ifftWith (Fft.fftC ..), literals regenerated) -- the very "
    "instantiation the `*_total_*` theorems are about -- and ALL eight tags (FirFilter, MAFilter, FftFilter, xcorr) are compared BIT-EXACT "
    "(tolerance 0; observed deviation 0 on every case, seeds 1-3 quick and seed 1 thorough). "
    "Measured only: rounding -- long-double defining sums with the a-priori bound of the algorithm class (direct: (nh+8) eps sum|terms| per output; "
    "FFT paths: (8+log2 N) eps ||h|| ||x_block|| normwise; MAFilter: (1.5n+4) eps sum_{2n}|x|/n)."
    " REGENERATED TIE (Props/C07Gen): _conv, FirFilter constructor / conv / process (every tap count >= 1), both FftFilter constructors and FftFilter::process (transform pair, nextpow2, fft(x,n) as parameters) are translated from the C++ on every run and proved equal to the models (firRProcess_eq, firCProcess_eq, fftFilterCtor_eq, fftFilterProcess_eq); T07.1 / T07.2 are restated from the generated constructor through the generated process (gen_fir_from_ctor_*, gen_fftfilter_from_ctor_*). "
)

PROPS["C07"] = {
    "gen": ["Cmplx", "Slice", "StepsBase", "StepsArray", "StepsSlice", "StepsFir", "CtorFir", "StepsFftFilter"],
    "lean_props": ["DspVerif.Props.C07", "DspVerif.Props.C07Total", "DspVerif.Props.C07Gen"],
    "harness": [{"src": "c07.cpp", "cfg": "rel",
                 # fft*/xc*: the model runs the C01 model of the library's plans in the library's operation order -> worst observed
                 # deviation 0 (seeds 1,2,3 quick; seed 1 thorough); 100 x 0 = 0: compared bit for bit, no scale token
                 "tol": {"firR": (1e-13, 0.0), "firC": (1e-13, 0.0), "maR": (1e-13, 0.0), "maC": (1e-13, 0.0),
                         "fftR": (0.0, 0.0), "fftC": (0.0, 0.0), "xcR": (0.0, 0.0), "xcC": (0.0, 0.0)}}],
    "rule": "FirFilter and FftFilter: quick = 48 tap counts in 2..1024 (powers of two +-1, 1000, 1023, 1024, 24 random), thorough = EVERY tap count 2..1024; "
            "x {real, complex} x coefficient kind {random, symmetric, sparse, single tap first, single tap last} x input kind {gauss, impulsive, "
            "dynamic range 2^+-40 per sample / per segment, DC, unit impulse} x input length {0, 1, 2, nh-1, nh, nh+1, block-1, block, block+1, "
            "2 block, 2 block-1, 3 block+1, random to 4 blocks} x {one call, 2..5 calls with random cuts incl. empty frames}, plus inputs of "
            "20000..100000 samples (6 quick / 36 thorough); xcorr: ALL (n1,n2) in 1..16 (quick) / 1..48 (thorough), real and complex, autocorrelation "
            "entry points, plus 10/60 sampled pairs to 5000; MAFilter n in {1,2,3,4,5,7,8,16,33,100,128,1000} (+40 random to 1024), scalar and array API, "
            "inputs to 100000. Strengthening classes (round 2): coefficient kinds `tiny-tail` (one or two O(1) taps, all others NON-ZERO at 1e-16..1e-25) and "
            "`special-values` (+-0, denormals, 2^-1022, exact powers of two), input kinds `zero-runs` (bursts separated by runs of +0/-0 longer than 2 nh / "
            "block+nh / 2 n) and `special-values`; absolute SCALE classes {1e-300, 1e-17, 2^-60, 1e-8, 1, 1e8, 2^60, 1e100} for the coefficient vector x the input "
            "(every pair whose product stays in range; FirFilter, FftFilter, xcorr operands, MAFilter input; quick 1 pass, thorough 6) with a purely RELATIVE "
            "oracle (additive slack = a few denormal quanta, no 1e-300 floor); object lifetime: FirFilter / FftFilter / MAFilter banks std::vector<P>(3, proto) "
            "+ the prototype, copies made mid-stream by construction / assignment over a live filter / by value + move, a destroyed copy, self-assignment, "
            "temporaries -- every object bit-identical to a separately constructed one on (copied history ++ own stream) and within the defining-sum bound "
            "(12 / 120 scenarios x 6 classes, a quarter at non-unit scale); frames of 20000, 70000, 140000 samples after shorter ones (thorough: 2^14..2^17 (+1), "
            "k*49152, decreasing). Oracle = long-double defining sum at every output (a boundary-centred sample of >= 400 outputs when nh*len > 3e6). "
            "distinct = distinct protocol lines; non-trivial = all",
    "technique": "Lean 4 proof over hand-written state-explicit models (generic in the scalar; run at Float by the driver, reasoned about in any "
                 "commutative semiring / at R / at Cx R) + differential correspondence on the real library + long-double convolution-sum oracle",
    "level_note": "rounding is measured, not proved; the models of FirFilter/FftFilter/xcorr/MAFilter are hand-written (loop -> Finset sum, in-place buffer -> "
                  "functional array); FirFilter and FftFilter (constructors and process) are proved equal to the REGENERATED code (Props/C07Gen), xcorr and MAFilter's array form are tied to the code only by the correspondence run; FftFilter/xcorr theorems are relative to the transform pair "
                  "(circular convolution/correlation theorem as explicit hypothesis, proved for the exact DFT pair; fft = DFT is C01/C02); the FFT-path oracle is "
                  "normwise per block because an FFT convolution has no componentwise error bound",
    "trusted_base": TB_COMMON + [
        "the library's fft/ifft at power-of-two lengths are the DFT and its inverse (properties C01/C02): T07.2/T07.3 take the circular convolution / correlation theorem of the transform pair as hypothesis and discharge it for the exact DFT",
        "the driver instantiates the transform parameters of the FftFilter/xcorr models with the C01 model of the library's plans at Float (Fft.fftC / Fft.ifftWith, the instantiation of the `*_total_*` theorems; bit-exact agreement with the library); that this hand-written FFT model is the code is C01's correspondence run",
        "long double (x87 80-bit) evaluation of the defining sums is taken as exact relative to the double-precision bounds",
    ],
    "assumptions": ["tap count >= 1 (FirFilter's history length h.size()-1), MAFilter length n >= 1, xcorr operands non-empty: the property's domain (2..1024 taps, lengths >= 1)",
                    "array storage modelled as immutable arrays; aliasing/in-place effects are exhibited only by the correspondence run"],
}
