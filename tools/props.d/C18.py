# C18 — to be merged into tools/props.py by the integrator (uses TB_COMMON of that file)

LEVEL_TEXT["C18"] = (
    "Theorems (exact over R or structural, unbounded in every length / state / call history). "
    "T18.1 delayseq: r[i] = x[i-d] for 0 <= i-d < N, else the zero fill, length kept, |d| >= N gives zeros -- every element type (C17.delayseq_getElem, restated). "
    "T18.2 peakloc (real overload): for every array, index and both `cyclic` settings, if the three samples (cyclic neighbours) lie on a t^2 + b t + c with a != 0 the result is -b/(2a), "
    "the vertex (closed form idx + (yl-yr)/(2(yl-2yk+yr)); non-cyclic edges return idx); a = 0 (collinear samples, the code divides by 2a) is the explicit hypothesis and an input class of the harness. "
    "The COMPLEX overload is a different three-point interpolator: on real-valued data its offset from idx is -2 x the vertex offset (theorem peaklocC_real_data) -- the parabola clause is about the real overload. "
    "T18.3 for EVERY transform pair (parameters of the model): if ifft(fft(x1) conj(fft(x2))) has its strict |.|^2-maximum at index (-d) mod nfft and -nfft <= 2d < nfft, finddelay returns d "
    "(argmax = first largest, lag unwrapping, sign); if the PHAT correlation has its strict maximum at d mod M, 2|d|+1 < M, and the interpolation offset delta is at most 1/2, gccphat's tau*fs = d + delta. "
    "T18.4 detector, for every state and every call: process() reports the FIRST index of the call whose normalised correlation abs2(cx)/(pwx+eps) exceeds threshold^2 (and is finite), "
    "returns the last nh samples of the stream up to and including that index, oldest first (CDelay ring-buffer invariant across calls), score = sqrt of that value; reports nothing iff no index exceeds; "
    "a length that is not a multiple of frame_len() throws. Hence UNDER THE HYPOTHESIS that the normalised correlation exceeds the threshold at alignment only: offset = index of the preamble's last sample, "
    "preamble = the aligned samples; and nothing is reported when it never exceeds. From rest, cx is C07's FirFilter with taps flip(h)/(rms(h) nh) and pwx C07's moving average of |x|^2 "
    "(for every transform pair satisfying the circular convolution theorem; C07 discharges it for the exact DFT). "
    "Tie: bit-exact correspondence (gccphat tau*fs to 1e-9 sample) of the hand-written models, run with the C01 model of the library's own FFT plans, on all five entry points. "
    "Measured only (statistical hypotheses of the property, oracle on the implementation): that a white signal of >= 128 samples puts the correlation maximum at the true lag for |d| <= len/4 "
    "with noise <= -30 dB, half-sample accuracy of gccphat, score within 0.05 of 1, that Zadoff-Chu / chirp / PN preambles cross the threshold at alignment only, no false detection."
)

PROPS["C18"] = {
    "gen": ["SmallFft", "Consts", "Cmplx"],
    "lean_props": ["DspVerif.Props.C18", "DspVerif.Props.C18Total"],
    "harness": [{"src": "c18.cpp", "cfg": "rel",
                 "tol": {"plR": (1e-13, 0.0), "plC": (1e-13, 0.0), "gcc": (1e-12, 1e-9), "gccm": (1e-12, 1e-9), "det": (1e-11, 0.0)}}],
    "rule": "delayseq: every shift -N-2..N+2 for every N <= 9 (thorough 12), real and complex, + lengths 16..5000 with shifts 0, +-1, +-N/4, +-(N-1), +-N, +-(N+1), +-1e6, +-(2^31-1) and random; "
            "peakloc: lengths 1..500, every index (sampled for long arrays) x cyclic on/off x 6 content classes (gauss, 2^+-30 dynamic range, nearly flat, small integers with collinear triples, bump, exact parabola), real oracle = "
            "long-double vertex with conditioned tolerance, complex overload CORR only; finddelay / gccphat: quick = EVERY shift |d| <= len/4 for len 128, 129, 131 and 17 sampled shifts (0, +-1, +-2, +-len/4, +-(len/4-1), random) for 19 lengths to 5000; "
            "thorough = every shift for every length 128..160 and 192, 255, 256, 257, 33 sampled shifts for 69 lengths to 5000 (powers of two +-1, primes, random); x {real, complex} x white kind {gauss, uniform, +-1 binary} x "
            "{noiseless, noise 30 dB below on the delayed copy, noise 30..60 dB below on one or both}; gccphat fs from {1, 2, 3, 7, 10, 100, 1000, 8000, 16000, 22050, 44100, 47999, 48000} and uniform 1..48000, single and 3-channel overload; "
            "CORR-only: operands of different lengths 1..70, embedded copies, a short burst at every position nfft/2-2..nfft/2+2 of a power-of-two frame (both argument orders: the unwrap boundary), unrelated signals, "
            "gccphat single and multi-channel with ANY shift on lengths 3..90 (odd, prime, composite; both unwrap branches); +-1 signals are oracle-only for gccphat (an exactly-zero bin makes the PHAT weight amplify rounding noise: ill-conditioned comparison); "
            "detector: preamble lengths 16, 31, 64 (thorough: 16, 17, 24, 31, 32, 33, 48, 63, 64, 65, 100, 127, 128, 129, 199, 255, 256, 257, 400, 511, 512) with EVERY end offset modulo frame_len, 8 (6 random) further lengths with 21 (49) offsets incl. 0, 1, nh-3..nh, frame_len-2, frame_len-1; "
            "preamble kind {Zadoff-Chu root 1 / N-1 / random coprime, full-band chirp, m-sequence BPSK, m-sequence QPSK} with coefficient gain 0.1..10, received amplitude log-uniform over 60 dB, random carrier phase, "
            "background {silence, additive noise 30..60 dB below, other traffic 0..20 dB below not overlapping, noise floor 20..60 dB below not overlapping}, streams of 3..4 frames, calls of 1 frame or 1..3 frames, "
            "two thresholds per stream (uniform 0.3..0.9 and one of 0.3 / 0.5 / 0.9); every second stream also WITHOUT the preamble (silence, white noise, noise bursts, the same traffic with the preamble removed); "
            "the hypothesis 'single-sample correlation peak' is decided per stream and threshold by a long-double brute-force evaluation of the normalised metric (crossing at alignment only, 1e-3 margin): "
            "streams outside it (short preambles at low thresholds) are counted in S lines and go through CORR; distinct = distinct protocol lines / oracle evaluations; non-trivial = all",
    "technique": "Lean 4 proofs over hand-written executable models (peakloc / unwrap arithmetic over R; argmax, ring buffer and sample loop structurally; detector state machine on top of C07's FftFilter / MAFilter models) + "
                 "bit-exact differential correspondence on the real library (FFT parameters instantiated with the C01 plan model) + the property's own oracle (exact shift recovery, half-sample bound, long-double brute-force detector metric)",
    "level_note": "floating-point rounding is not modelled; the statistical content of the property (white signals of >= 128 samples peak at the true lag, PHAT interpolation offset below half a sample, preamble sidelobes below the threshold, "
                  "score near 1, no false detection on noise) is hypothesis of the theorems and MEASURED by the oracle; the models are hand-written and tied to the code by the correspondence run; T18.3 / T18.4 take the transforms as parameters "
                  "(fft = DFT is C01/C02; C07's circular-convolution hypothesis for the detector's correlation filter); after a report the C++ loop returns early, so the delay line misses the rest of that call (modelled; the property has one preamble per stream); "
                  "the complex overload of peakloc is not a parabola vertex (theorem) and is covered by correspondence only",
    "trusted_base": TB_COMMON + [
        "long double (x87 80-bit) brute-force evaluation of the detector metric and of the parabola vertex in harness/c18.cpp are taken as exact relative to the margins used (1e-3 on the threshold crossing, conditioned 16 eps on the vertex)",
        "Model/Fft.lean (C01 model of the library's FFT plan family) instantiates the transform parameters in the driver; Model/Fir.lean (C07) supplies FftFilter / MAFilter; Model/MathFns.lean (C17) supplies delayseq / argmax",
        "harness generators: splitmix64 Gaussian / uniform / binary white signals, Zadoff-Chu / chirp / LFSR m-sequence preambles",
    ],
    "assumptions": ["non-empty arrays, 0 <= idx < size for peakloc, preamble length >= 1, fs != 0, equal lengths for gccphat (a mismatch throws: modelled)",
                    "detector streams outside the hypothesis 'the normalised correlation crosses the threshold at alignment only' (e.g. 16..32-tap preambles at threshold 0.3, whose partial-overlap sidelobes or noise crossings exceed 0.09) are not oracle cases; "
                    "they are counted and compared with the model by CORR",
                    "peakloc's parabola clause is read for the real overload (the complex overload is a spectral-peak interpolator pinned by the repository's own test Utils.Peakloc)"],
}
