# C18 — to be merged into tools/props.py by the integrator (uses TB_COMMON of that file)

LEVEL_TEXT["C18"] = (
    "Theorems (exact over R or structural, unbounded in every length / state / call history). "
    "T18.1 delayseq: r[i] = x[i-d] for 0 <= i-d < N, else the zero fill, length kept, |d| >= N gives zeros -- every element type (C17.delayseq_getElem, restated). "
    "T18.2 peakloc (real overload): for every array, index and both `cyclic` settings, if the three samples (cyclic neighbours) lie on a t^2 + b t + c with a != 0 the result is -b/(2a), "
    "the vertex (closed form idx + (yl-yr)/(2(yl-2yk+yr)); non-cyclic edges return idx); a = 0 (collinear samples, the code divides by 2a) is the explicit hypothesis and an input class of the harness. "
    "The COMPLEX overload is a different three-point interpolator: on real-valued data its offset from idx is -2 x the vertex offset (theorem peaklocC_real_data) -- the parabola clause is about the real overload. "
    "T18.3 for EVERY transform pair (parameters of the model): if ifft(fft(x1) conj(fft(x2))) has its strict |.|^2-maximum at index (-d) mod nfft and -nfft <= 2d < nfft, finddelay returns d "
    "(argmax = first largest, lag unwrapping, sign); if the PHAT correlation has its strict maximum at d mod M, 2|d|+1 < M, and the interpolation offset delta is at most 1/2, gccphat's tau*fs = d + delta. "
    "T18.4 detector, for every state and every call: process() reports the FIRST index of the call whose normalised correlation abs2(cx)/(pwx+eps) exceeds threshold^2 (and is finite), "
    "returns the last nh samples of the stream up to and including that index, oldest first (CDelay ring-buffer invariant across calls), score = sqrt of that value; reports nothing iff no index exceeds; "
    "a length that is not a multiple of frame_len() throws. Hence UNDER THE HYPOTHESIS that the normalised correlation exceeds the threshold at alignment only: offset = index of the preamble's last sample, "
    "preamble = the aligned samples; and nothing is reported when it never exceeds. From rest, cx is C07's FirFilter with taps flip(h)/(rms(h) nh) and pwx C07's moving average of |x|^2 "
    "(for every transform pair satisfying the circular convolution theorem; C07 discharges it for the exact DFT). "
    "UNCONDITIONAL (Props/C18Total): with C01/C02/C07 for the library's own transform models -- finddelay_total_real/cmplx (the FFT cross-correlation IS the lag-domain sum for every pair of lengths below 2^31), circConv_lib / circXc_lib, detector_first_call_total / detector_first_call_silent_total (the detector's FFT correlation filter is the direct correlation on the first call from rest). "
    "Tie: bit-exact correspondence (gccphat tau*fs to 1e-9 sample) of the hand-written models, run with the C01 model of the library's own FFT plans, on all five entry points. "
    "Measured only (statistical hypotheses of the property, oracle on the implementation): that a white signal of >= 128 samples puts the correlation maximum at the true lag for |d| <= len/4 "
    "with noise <= -30 dB, half-sample accuracy of gccphat, score within 0.05 of 1, that Zadoff-Chu / chirp / PN preambles cross the threshold at alignment only, no false detection."
    " REGENERATED TIE (Props/C18Gen): the preamble detector — PreambleDetectorImpl constructor, CDelay, the whole process (frame guard, FFT correlation filter and moving power through the generated FftFilter / MAFilter code, sample loop with early return as a first-hit search) and reset — is translated from the C++ on every run and proved equal to Model/Detect (detectorCtor_eq, detectorProcess_eq for every state of the invariant domain and every frame, detectorReset_eq); the first-call theorems and T18.4 are restated for the generated code (detector_gen_first_call_total, detector_gen_process_spec). (Props/C18GenPeak): BOTH overloads of peakloc (int index arithmetic (idx-1+n)%n / (idx+1)%n as truncated remainders, the 2*x[mk] left-oriented cmplx_t template, real(cmplx_t) of lib/math.cpp) are translated on every run and proved equal to Model/Detect for every array, every index inside it and both cyclic settings (peaklocR_gen_eq, peaklocC_gen_eq); T18.2 is restated for the generated code (peakloc_vertex_gen, peakloc_noncyclic_edge_gen). finddelay and gccphat stay hand-modelled. "
)

PROPS["C18"] = {
    "gen": ["SmallFft", "Consts", "Cmplx", "StepsBase", "StepsArray", "StepsDyn", "CtorDyn", "StepsFftFilter", "StepsDetector", "StepsPeakloc"],
    "lean_props": ["DspVerif.Props.C18", "DspVerif.Props.C18Total", "DspVerif.Props.C18Gen", "DspVerif.Props.C18GenPeak"],
    "harness": [{"src": "c18.cpp", "cfg": "rel",
                 "tol": {"plR": (1e-13, 0.0), "plC": (1e-13, 0.0), "gcc": (1e-12, 1e-9), "gccm": (1e-12, 1e-9), "det": (1e-11, 0.0), "det2": (1e-11, 0.0)}}],
    "rule": "delayseq: every shift -N-2..N+2 for every N <= 9 (thorough 12), real and complex, + lengths 16..5000 with shifts 0, +-1, +-N/4, +-(N-1), +-N, +-(N+1), +-1e6, +-(2^31-1) and random; "
            "peakloc: lengths 1..500, every index (sampled for long arrays) x cyclic on/off x 6 content classes (gauss, 2^+-30 dynamic range, nearly flat, small integers with collinear triples, bump, exact parabola), real oracle = "
            "long-double vertex with conditioned tolerance, complex overload CORR only; finddelay / gccphat: quick = EVERY shift |d| <= len/4 for len 128, 129, 131 and 17 sampled shifts (0, +-1, +-2, +-len/4, +-(len/4-1), random) for 19 lengths to 5000; "
            "thorough = every shift for every length 128..160 and 192, 255, 256, 257, 33 sampled shifts for 69 lengths to 5000 (powers of two +-1, primes, random); x {real, complex} x white kind {gauss, uniform, +-1 binary} x "
            "{noiseless, noise 30 dB below on the delayed copy, noise 30..60 dB below on one or both}; gccphat fs from {1, 2, 3, 7, 10, 100, 1000, 8000, 16000, 22050, 44100, 47999, 48000} and uniform 1..48000, single and 3-channel overload; "
            "CORR-only: operands of different lengths 1..70, embedded copies, a short burst at every position nfft/2-2..nfft/2+2 of a power-of-two frame (both argument orders: the unwrap boundary), unrelated signals, "
            "gccphat single and multi-channel with ANY shift on lengths 3..90 (odd, prime, composite; both unwrap branches); +-1 signals are oracle-only for gccphat (an exactly-zero bin makes the PHAT weight amplify rounding noise: ill-conditioned comparison); "
            "detector: preamble lengths 16, 31, 64 (thorough: 16, 17, 24, 31, 32, 33, 48, 63, 64, 65, 100, 127, 128, 129, 199, 255, 256, 257, 400, 511, 512) with EVERY end offset modulo frame_len, 8 (6 random) further lengths with 21 (49) offsets incl. 0, 1, nh-3..nh, frame_len-2, frame_len-1; "
            "preamble kind {Zadoff-Chu root 1 / N-1 / random coprime, full-band chirp, m-sequence BPSK, m-sequence QPSK} with coefficient gain 0.1..10, received amplitude log-uniform over 60 dB, random carrier phase, "
            "background {silence, additive noise 30..60 dB below, other traffic 0..20 dB below not overlapping, noise floor 20..60 dB below not overlapping}, streams of 3..4 frames, calls of 1 frame or 1..3 frames, "
            "two thresholds per stream (uniform 0.3..0.9 and one of 0.3 / 0.5 / 0.9); every second stream also WITHOUT the preamble (silence, white noise, noise bursts, the same traffic with the preamble removed); "
            "ROUND 2: preamble kind drawn from nine families, every second stream from the non-constant-envelope ones {real linear chirp, Hann/Hamming/Tukey/Gauss-windowed chirp, ternary PN (m-sequence gated by a second one), "
            "multi-level PN (PAM-4/8, 16/64-QAM chips), amplitude-tapered PN}; thresholds also one ulp inside 0.3 and 0.9; score compared with sqrt(reference metric) to 1e-9; "
            "every fourth offset (thorough: every second) also with SCALE CLASSES drawn independently for the coefficients {1e-100, 1e-17, 1e-8, 1, 1e8, 1e100, 2^-300, 2^300, 2^-7, 2^9} and the stream "
            "{1e-5, 1e-3, 1, 1e8, 1e100, 2^-9, 2^40, 2^300 | below the eps() floor: 1e-7, 1e-8, 1e-17, 1e-100, 1e-300, denorm_min (the reference metric, which contains eps(), decides: nothing may be reported when it never crosses; "
            "|score-1| <= 0.05 only when the window power exceeds 1000 eps()) | 1e+-160, 1e+-300: CORR only}, backgrounds as before plus negative-zero silence; streams louder than 1e4 containing windows of exact silence are counted, not judged "
            "(ill-conditioned: rounding noise of the block correlator over eps()); "
            "HISTORIES (det2 scripts, preamble lengths 16, 31, 64, 100, 256; thorough 14 lengths x 6): rejected calls of length 1, F-1, F+1, 2F+1, nh, 3F-1, 7F+3, 65537 filled with noise / a full preamble / the head of a preamble "
            "before the first frame, between the start frame and the completion frame, between all frames together with empty calls; reset() after other material, after a report (reuse), in the middle of a preamble, on a fresh detector, twice, "
            "with rejected calls around it; oracle = the property's clauses on the valid frames + bit-exact equality with a fresh detector fed the valid frames only (after reset(): offset and samples exact, score to 1e-9); "
            "LONG STREAMS through one detector: one preamble after N samples, N in {3*2^14, 2^16, 2^17, 2^18} (thorough {3*2^14, 2^16, 3*2^15, 2^17, 3*2^16, 2^18, 2^19, 2^20}), its last sample at EVERY position of a window of "
            "1..3 frames on both sides of N (quick: nh 16 / 17 / 32 / 63, thorough: 16, 17, 31, 32, 33, 63, 64, 65, 100, 127, 128, 255, 256, 511, 512), threshold drawn above the family member's own partial-overlap sidelobes, "
            "background silence / negative-zero silence / denormal floor / uniform noise 38..56 dB below (long preambles), framing: single frames for every position and, for every 5th..9th, the history in ONE call (> 2^16, 2^17, 2^18 samples), "
            "everything in one call, calls of 1..3 frames, small calls then one giant call containing the preamble, small calls + giant history call + single frames; offset, score and EVERY returned sample (bit for bit) checked; "
            "SOAK: a copy of the preamble every 2*frame_len+1 samples (amplitude 1 / 0.5 / 2 and phase changing from copy to copy) over 2^17 samples for all 35 start phases (nh 16; thorough 2^18 for nh 16, 17, 31, 32, 63 and 2^20 for nh 16): "
            "every (frame index, end offset) pair is visited, one report per copy with its offset, samples and score; "
            "finddelay / gccphat: both operands independently scaled by {1e-100, 1e-17, 1e-8, 1, 1e8, 1e100, 2^-300, 2^300} (pairs with |log10(s1 s2)| > 140 skipped and counted: |corr|^2 leaves the double range; gccphat below eps CORR only), "
            "delayseq / finddelay / gccphat on temporaries (bit-exact against named operands, const& binding, range-for over a temporary result), valid calls after a size-mismatch exception (bit-exact repeat); "
            "the hypothesis 'single-sample correlation peak' is decided per stream and threshold by a long-double brute-force evaluation of the normalised metric (crossing at alignment only, 1e-3 margin): "
            "streams outside it (short preambles at low thresholds) are counted in S lines and go through CORR; distinct = distinct protocol lines / oracle evaluations; non-trivial = all",
    "technique": "Lean 4 proofs over hand-written executable models (peakloc / unwrap arithmetic over R; argmax, ring buffer and sample loop structurally; detector state machine on top of C07's FftFilter / MAFilter models; "
                 "reset() and rejected calls modelled for the correspondence run: det2 scripts on explicit or exactly regenerated streams of up to 2^18 samples) + "
                 "bit-exact differential correspondence on the real library (FFT parameters instantiated with the C01 plan model) + the property's own oracle (exact shift recovery, half-sample bound, long-double brute-force detector metric)",
    "level_note": "floating-point rounding is not modelled; the statistical content of the property (white signals of >= 128 samples peak at the true lag, PHAT interpolation offset below half a sample, preamble sidelobes below the threshold, "
                  "score near 1, no false detection on noise) is hypothesis of the theorems and MEASURED by the oracle; the models are hand-written; the preamble detector model is proved equal to the REGENERATED constructor / process / reset (Props/C18Gen) and the two peakloc models to the REGENERATED overloads (Props/C18GenPeak); finddelay / gccphat are tied to the code by the correspondence run only; T18.3 / T18.4 take the transforms as parameters "
                  "(fft = DFT is C01/C02; C07's circular-convolution hypothesis for the detector's correlation filter); after a report the C++ loop returns early, so the delay line misses the rest of that call (modelled; the property has one preamble per stream); "
                  "the complex overload of peakloc is not a parabola vertex (theorem) and is covered by correspondence only; "
                  "the detector is NOT scale-equivariant (eps() in pwx + eps() is absolute): below |x| ~ 1e-7 the score falls under 1 (0.557 at 1e-8) and above |x| ~ 4e7 exact silence next to the preamble can be reported "
                  "(rounding noise of the block correlator over eps()); both regimes lie outside the property's 60 dB and are handled by the reference metric / counted as ill-conditioned, not judged; "
                  "the soak streams (several preambles per stream) go beyond the single-preamble clause and rest on T18.4 (every state, every call)",
    "trusted_base": TB_COMMON + [
        "long double (x87 80-bit) brute-force evaluation of the detector metric and of the parabola vertex in harness/c18.cpp are taken as exact relative to the margins used (1e-3 on the threshold crossing, conditioned 16 eps on the vertex)",
        "Model/Fft.lean (C01 model of the library's FFT plan family) instantiates the transform parameters in the driver; Model/Fir.lean (C07) supplies FftFilter / MAFilter; Model/MathFns.lean (C17) supplies delayseq / argmax",
        "harness generators: splitmix64 Gaussian / uniform / binary white signals, Zadoff-Chu / chirp / LFSR m-sequence preambles and the derived real / windowed / ternary / multi-level / tapered families; "
        "the generated backgrounds of det2 (splitmix64 finaliser, 53-bit integer minus 2^52 times a power of two) are evaluated exactly by harness and driver",
    ],
    "assumptions": ["non-empty arrays, 0 <= idx < size for peakloc, preamble length >= 1, fs != 0, equal lengths for gccphat (a mismatch throws: modelled)",
                    "detector streams outside the hypothesis 'the normalised correlation crosses the threshold at alignment only' (e.g. 16..32-tap preambles at threshold 0.3, whose partial-overlap sidelobes or noise crossings exceed 0.09) are not oracle cases; "
                    "they are counted and compared with the model by CORR",
                    "peakloc's parabola clause is read for the real overload (the complex overload is a spectral-peak interpolator pinned by the repository's own test Utils.Peakloc)"],
}
