#!/usr/bin/env python3
"""check.py <PROPERTY> [--tier quick|thorough] [--replay FILE]

One run = BUILD (/repo working tree) -> GEN (cxx2lean) -> PROOF (lake build + axiom audit) ->
CORR (C++ harness on the real library vs Lean model driver) + ORACLE (the property's own oracle
on the implementation: GAP / SEARCH) -> verdict, evidence/<id>.json, VIOLATION / KNOWN-FINDING lines.
Exit 0 = held on everything explored, 1 = violation, 2 = infrastructure error.
"""
import argparse, fcntl, hashlib, json, math, os, re, struct, subprocess, sys, time

HERE = os.path.dirname(os.path.abspath(__file__))
VERIF = os.path.dirname(HERE)
REPO = os.environ.get("VERIF_REPO", "/repo")
# the three overrides below exist so that a seeded change can be evaluated in isolation (scratch copy of /repo,
# scratch build dir, scratch copy of the lean tree) while other work goes on in /verif; the registered
# commands never set them
WORK = os.environ.get("VERIF_WORKDIR") or os.path.join(VERIF, ".work")
LEAN = os.environ.get("VERIF_LEAN") or os.path.join(VERIF, "lean")
OUTDIR = os.environ.get("VERIF_OUTDIR") or VERIF
sys.path.insert(0, HERE)
import cxx2lean  # noqa: E402
from props import PROPS  # noqa: E402

NPROC = str(os.cpu_count() or 4)
GUARD = "DSPLIB_VERIF"

CONFIGS = {
    # the shipped configuration: RelWithDebInfo => -O2 -g -DNDEBUG (DSPLIB_ASSUME live)
    "rel": {"cxx": "g++", "type": "RelWithDebInfo", "flags": "-D%s" % GUARD, "hflags": ["-O1", "-g"]},
    "asan": {"cxx": "clang++-14", "type": "None",
             "flags": "-O1 -g -DNDEBUG -D%s -fsanitize=address,undefined -fno-sanitize-recover=all -fno-omit-frame-pointer" % GUARD,
             "hflags": ["-O1", "-g", "-fsanitize=address,undefined", "-fno-sanitize-recover=all", "-fno-omit-frame-pointer"]},
    "tsan": {"cxx": "clang++-14", "type": "None", "flags": "-O1 -g -DNDEBUG -D%s -fsanitize=thread" % GUARD,
             "hflags": ["-O1", "-g", "-fsanitize=thread"]},
}


class Infra(Exception):
    pass


def sh(cmd, cwd=None, timeout=None, env=None, stdout=None):
    e = dict(os.environ)
    if env:
        e.update(env)
    return subprocess.run(cmd, cwd=cwd, timeout=timeout, env=e, text=True,
                          stdout=stdout if stdout is not None else subprocess.PIPE, stderr=subprocess.PIPE if stdout is None else subprocess.PIPE)


class Lock:
    def __init__(self, name):
        os.makedirs(WORK, exist_ok=True)
        self.path = os.path.join(WORK, name + ".lock")

    def __enter__(self):
        self.f = open(self.path, "w")
        fcntl.flock(self.f, fcntl.LOCK_EX)

    def __exit__(self, *a):
        fcntl.flock(self.f, fcntl.LOCK_UN)
        self.f.close()


# ------------------------------------------------------------------------------------------ DRIFT
# Change-triggered deepening. baseline_fingerprints.json (committed; written by tools/mkfingerprints.py on the tree the
# checks were last validated on) holds a hash of every library source with comments and white space removed. When the
# tree under check differs from it, the QUICK tier runs the harnesses at THOROUGH depth (all harness configurations of
# the thorough tier, thorough input volume, soaks): a change is exactly the moment to search deeply. It never changes a
# verdict by itself — only how far the search goes — so a harmless rewrite costs time, not an alarm.
def _normalise_source(text):
    text = re.sub(r"/\*.*?\*/", " ", text, flags=re.S)
    text = re.sub(r"//[^\n]*", " ", text)
    return re.sub(r"\s+", " ", text).strip()


def source_fingerprints(repo):
    fp = {}
    for top in ("lib", "include"):
        for root, _dirs, files in os.walk(os.path.join(repo, top)):
            for f in sorted(files):
                if f.endswith((".cpp", ".h", ".hpp", ".c", ".cc", ".inc")):
                    path = os.path.join(root, f)
                    try:
                        txt = open(path, encoding="utf-8", errors="replace", newline="").read().replace("\r\n", "\n")
                    except OSError:
                        continue
                    fp[os.path.relpath(path, repo)] = hashlib.sha256(_normalise_source(txt).encode()).hexdigest()[:20]
    return fp


def source_drift(repo):
    """files whose normalised content differs from the validated baseline (None if there is no baseline)"""
    try:
        base = json.load(open(os.path.join(VERIF, "baseline_fingerprints.json")))["files"]
    except Exception:
        return None
    cur = source_fingerprints(repo)
    return sorted(k for k in set(base) | set(cur) if base.get(k) != cur.get(k))


# ------------------------------------------------------------------------------------------ BUILD
def build_lib(cfg, cache_size=None):
    c = CONFIGS[cfg]
    name = cfg if cache_size is None else "%s-cs%d" % (cfg, cache_size)
    bdir = os.path.join(WORK, "lib-" + name)
    with Lock("lib-" + name):
        if not os.path.exists(os.path.join(bdir, "build.ninja")):
            cmd = ["cmake", "-S", REPO, "-B", bdir, "-G", "Ninja", "-DCMAKE_BUILD_TYPE=" + c["type"],
                   "-DCMAKE_CXX_COMPILER=" + c["cxx"], "-DCMAKE_CXX_FLAGS=" + c["flags"]]
            if cache_size is not None:
                cmd.append("-DDSPLIB_FFT_CACHE_SIZE=%d" % cache_size)
            p = sh(cmd)
            if p.returncode != 0:
                raise Infra("cmake configure failed:\n" + p.stdout[-2000:] + p.stderr[-2000:])
        p = sh(["cmake", "--build", bdir, "-j", NPROC])
        if p.returncode != 0:
            raise Infra("library build (%s) failed — /repo does not compile:\n%s" % (cfg, (p.stdout + p.stderr)[-3000:]))
    return bdir


def build_harness(src, cfg, libdir, extra_flags=()):
    c = CONFIGS[cfg]
    exe = os.path.join(WORK, "h-%s-%s" % (os.path.splitext(os.path.basename(src))[0], os.path.basename(libdir)))
    srcp = os.path.join(VERIF, "harness", src)
    with Lock("h-" + os.path.basename(exe)):
        deps = [srcp, os.path.join(VERIF, "harness", "common.hpp"), os.path.join(libdir, "libdsplib.a")]
        for root, _, files in os.walk(os.path.join(REPO, "include")):
            deps += [os.path.join(root, f) for f in files]
        for root, _, files in os.walk(os.path.join(REPO, "lib")):
            deps += [os.path.join(root, f) for f in files if f.endswith(".h")]
        if os.path.exists(exe) and all(os.path.getmtime(d) <= os.path.getmtime(exe) for d in deps):
            return exe
        cmd = [c["cxx"], "-std=c++17", "-DNDEBUG", "-D" + GUARD] + c["hflags"] + list(extra_flags) + [
            "-I", os.path.join(REPO, "include"), "-I", libdir, "-I", os.path.join(REPO, "lib"), "-I", os.path.join(VERIF, "harness"),
            srcp, os.path.join(libdir, "libdsplib.a"), "-lpthread", "-o", exe]
        p = sh(cmd)
        if p.returncode != 0:
            raise Infra("harness build failed (API changed?):\n" + (p.stdout + p.stderr)[-3000:])
    return exe


# ------------------------------------------------------------------------------------------ PROOF
FORBIDDEN = re.compile(r"\b(sorry|admit|native_decide|bv_decide|implemented_by|unsafe)\b|^\s*axiom\s|maxHeartbeats\s+0", re.M)


def strip_comments(t):
    t = re.sub(r"/-.*?-/", "", t, flags=re.S)
    t = re.sub(r"--.*", "", t)
    t = re.sub(r'"(?:[^"\\]|\\.)*"', '""', t)
    return t


def forbidden_scan():
    hits = []
    for root, _, files in os.walk(os.path.join(LEAN, "DspVerif")):
        for f in files:
            if f.endswith(".lean"):
                p = os.path.join(root, f)
                t = strip_comments(open(p).read())
                for m in FORBIDDEN.finditer(t):
                    hits.append("%s: %s" % (os.path.relpath(p, LEAN), m.group(0).strip()))
    return hits


def theorems_of(module):
    path = os.path.join(LEAN, module.replace(".", "/") + ".lean")
    if not os.path.exists(path):
        return []
    t = strip_comments(open(path).read())
    ns = []
    names = []
    for line in t.split("\n"):
        m = re.match(r"\s*namespace\s+(\S+)", line)
        if m:
            ns.append(m.group(1))
            continue
        m = re.match(r"\s*end\s+(\S+)", line)
        if m and ns and ns[-1].split(".")[-1] == m.group(1).split(".")[-1]:
            ns.pop()
            continue
        m = re.match(r"\s*(?:@\[[^\]]*\]\s*)?theorem\s+([^\s:({\[]+)", line)
        if m:
            names.append(".".join(ns + [m.group(1)]))
    return names


ALLOWED_AXIOMS = {"propext", "Classical.choice", "Quot.sound"}


def lake_build(targets, timeout=3600):
    with Lock("lake"):
        p = sh(["lake", "build"] + targets, cwd=LEAN, timeout=timeout)
    return p.returncode == 0, (p.stdout + p.stderr)


def audit(module, thorough):
    """returns (axioms: dict theorem->list, problems: list of str)"""
    names = theorems_of(module)
    if not names:
        return {}, ["no theorems found in %s" % module]
    os.makedirs(os.path.join(WORK, "audit"), exist_ok=True)
    f = os.path.join(WORK, "audit", module.split(".")[-1] + ".lean")
    with open(f, "w") as fh:
        fh.write("import %s\n" % module + "".join("#print axioms %s\n" % n for n in names))
    p = sh(["lake", "env", "lean", f], cwd=LEAN, timeout=1800)
    txt = p.stdout + p.stderr
    ax = {}
    problems = []
    for m in re.finditer(r"^'([^\n]+?)' depends on axioms: \[([^\]]*)\]", txt, flags=re.M):
        ax[m.group(1)] = [a.strip() for a in m.group(2).replace("\n", " ").split(",") if a.strip()]
    for m in re.finditer(r"^'([^\n]+?)' does not depend on any axioms", txt, flags=re.M):
        ax[m.group(1)] = []
    for n in names:
        if n not in ax:
            problems.append("theorem %s: axioms not reported (%s)" % (n, txt.strip()[-300:]))
        else:
            bad = [a for a in ax[n] if a not in ALLOWED_AXIOMS]
            if bad:
                problems.append("theorem %s depends on non-standard axioms %s" % (n, bad))
    if thorough:
        with Lock("lake"):
            q = sh(["lake", "env", "leanchecker", module], cwd=LEAN, timeout=3600)
        if q.returncode != 0:
            problems.append("leanchecker %s failed: %s" % (module, (q.stdout + q.stderr)[-500:]))
    return ax, problems


# ------------------------------------------------------------------------------------------ CORR
def f_of(tok):
    return struct.unpack(">d", bytes.fromhex(tok[1:]))[0]


def compare_tokens(a, b, rel, absol, scale0=0.0):
    """a: implementation tokens, b: model tokens; floats within rel*linemax+absol (linemax over the outputs, and over the
    inputs too — scale0 — for the tags a property lists under tol_scale_inputs: rounding noise of a cancelling result is
    relative to what went in)"""
    if len(a) != len(b):
        return "token count %d vs %d" % (len(a), len(b))
    fa = [f_of(t) for t in a if t.startswith("x") and len(t) == 17]
    scale = max([abs(v) for v in fa if math.isfinite(v)] + [0.0, scale0])
    for i, (x, y) in enumerate(zip(a, b)):
        if x == y:
            continue
        if x.startswith("x") and y.startswith("x") and len(x) == 17 and len(y) == 17:
            u, v = f_of(x), f_of(y)
            if math.isnan(u) and math.isnan(v):
                continue
            if math.isfinite(u) and math.isfinite(v) and abs(u - v) <= rel * scale + absol:
                continue
            return "token %d: impl %r model %r (line scale %g)" % (i, u, v, scale)
        return "token %d: impl %s model %s" % (i, x, y)
    return None


def run_harness(exe, tier, seed, outfile, replay=None, timeout=7200, env=None):
    cmd = [exe, "--tier", tier, "--seed", str(seed)]
    if replay:
        cmd += ["--replay", replay]
    e = {"ASAN_OPTIONS": "detect_leaks=0:abort_on_error=0:exitcode=99:allocator_may_return_null=1", "UBSAN_OPTIONS": "print_stacktrace=1:exitcode=99",
         "TSAN_OPTIONS": "exitcode=66:halt_on_error=0:report_signal_unsafe=0"}
    if env:
        e.update(env)
    with open(outfile, "w") as fh:
        try:
            p = sh(cmd, stdout=fh, timeout=timeout, env=e)
            rc, err = p.returncode, p.stderr
        except subprocess.TimeoutExpired:
            rc, err = -9, "harness timeout after %ds" % timeout
    return rc, err


def parse_harness(outfile):
    cases, fails, stats, samples = [], [], {}, []
    with open(outfile, errors="replace") as fh:
        for line in fh:
            line = line.rstrip("\n")
            if line.startswith("C "):
                if " | " not in line:
                    continue   # truncated line of a run that died
                lhs, _, rhs = line[2:].partition(" | ")
                cases.append((lhs, rhs))
            elif line.startswith("F "):
                parts = line[2:].split(" ", 1)
                js = parts[1] if len(parts) > 1 else "{}"
                try:
                    js = json.loads(js)
                except Exception:
                    js = {"raw": js}
                fails.append((parts[0], js))
            elif line.startswith("S "):
                _, k, v = line.split(" ", 2)
                try:
                    stats[k] = int(v)
                except ValueError:
                    stats[k] = v
            elif line.startswith("X "):
                try:
                    samples.append(json.loads(line[2:]))
                except Exception:
                    samples.append(line[2:])
    return cases, fails, stats, samples


def driver_name(prop):
    return "dspdriver_" + prop.lower()


def run_driver(prop, outfile, modelfile):
    drv = os.path.join(LEAN, ".lake", "build", "bin", driver_name(prop))
    with open(outfile) as fi, open(modelfile, "w") as fo:
        p = subprocess.run([drv], stdin=fi, stdout=fo, stderr=subprocess.PIPE, text=True)
    return p.returncode, p.stderr


# ------------------------------------------------------------------------------------------ KNOWN
def load_known(prop):
    p = os.path.join(VERIF, "known_findings.txt")
    out = []
    if os.path.exists(p):
        for line in open(p):
            line = line.strip()
            if line.startswith("known:"):
                d = json.loads(line[len("known:"):].strip())
                d["status"] = "known"
                if d.get("property") == prop:
                    out.append(d)
    return out


def match_known(key, js, known):
    for k in known:
        if k.get("status") != "known":
            continue
        if k.get("key") != key:
            continue
        w = k.get("witness")
        if w is None or w == js:
            return k
        if isinstance(w, dict) and isinstance(js, dict) and all(js.get(a) == b for a, b in w.items()):
            return k
    return None


# ------------------------------------------------------------------------------------------ MAIN
def write_replay(prop, payload):
    d = os.path.join(OUTDIR, "replay")
    os.makedirs(d, exist_ok=True)
    h = hashlib.sha1(json.dumps(payload, sort_keys=True).encode()).hexdigest()[:10]
    p = os.path.join(d, "%s-%s.json" % (prop, h))
    payload = dict(payload)
    payload["how_to_replay"] = "python3 tools/check.py %s --replay %s" % (prop, p)
    with open(p, "w") as f:
        json.dump(payload, f, indent=1)
    return p


def main():
    ap = argparse.ArgumentParser()
    ap.add_argument("prop")
    ap.add_argument("--tier", default=os.environ.get("VERIF_TIER", "quick"))
    ap.add_argument("--replay")
    a = ap.parse_args()
    prop = a.prop
    tier = "thorough" if a.tier == "thorough" else "quick"
    seed = int(os.environ.get("VERIF_SEED", "1") or 1)
    cfgp = PROPS[prop]
    t0 = time.time()
    os.makedirs(WORK, exist_ok=True)
    os.environ["VERIF_WORK"] = WORK
    violations = []      # (replay_path, suffix)
    known_lines = []
    notes = []
    ev = {"property_id": prop, "tier": tier, "seed": seed, "level": "proof", "coverage": {}, "assumptions": [], "wall_s": 0.0, "violations": 0}
    cov = ev["coverage"]
    broken = []          # broken obligations: (stage, name, detail)
    drift = source_drift(REPO) if not os.environ.get("VERIF_NO_ESCALATE") else None
    stier = "thorough" if (tier == "thorough" or drift) else "quick"     # depth of the harness search
    cov["source_drift"] = {"changed_files": (drift or [])[:40], "search_tier": stier,
                           "note": "files differing (comments/white space ignored) from baseline_fingerprints.json; any difference makes the quick tier search at thorough depth"}

    try:
        # ---- BUILD
        libs = {}
        harnesses = [hz for hz in cfgp.get("harness", []) if stier in hz.get("tiers", ["quick", "thorough"])]
        for hz in harnesses:
            key = (hz["cfg"], hz.get("cache_size"))
            if key not in libs:
                libs[key] = build_lib(hz["cfg"], hz.get("cache_size"))
        os.environ["VERIF_DEFS_DIR"] = next(iter(libs.values())) if libs else os.path.join(REPO, "_build")
        if not libs:
            os.environ["VERIF_DEFS_DIR"] = build_lib("rel")

        # ---- GEN
        gen_info = {}
        if cfgp.get("gen"):
            with Lock("lake"):
                gen_info = cxx2lean.run(cfgp["gen"])
            for u, info in gen_info.items():
                if not info["ok"]:
                    broken.append(("GEN", "Gen/%s translatable" % u, info.get("error", "")))
        cov["gen"] = gen_info

        # ---- PROOF
        modules = cfgp["lean_props"] if isinstance(cfgp["lean_props"], list) else [cfgp["lean_props"]]
        ok, log = lake_build(modules + [driver_name(prop)])
        axioms = {}
        if not ok:
            errs = re.findall(r"error: (\S+\.lean:\d+:\d+: .*)", log)
            broken.append(("PROOF", "lake build %s" % " ".join(modules), "\n".join(errs[:8]) or log[-1500:]))
            # the driver may still be buildable (model unaffected); modules that still build are audited
            okd, _ = lake_build([driver_name(prop)])
        else:
            okd = True
        for module in modules:
            okm = ok or lake_build([module])[0]
            if okm:
                ax, problems = audit(module, tier == "thorough")
                axioms.update(ax)
                for pr in problems:
                    broken.append(("PROOF", "axiom audit", pr))
        hits = forbidden_scan()
        for h in hits:
            broken.append(("PROOF", "forbidden token", h))
        names = [n for m in modules for n in theorems_of(m)]
        cov["obligations"] = len(names) + len(cfgp.get("gen", []))
        cov["discharged"] = len([n for n in names if n in axioms and set(axioms[n]) <= ALLOWED_AXIOMS]) + \
            len([u for u, i in gen_info.items() if i["ok"]])
        cov["theorems"] = names
        cov["axioms"] = axioms
        cov["checker_cmd"] = "cd lean && lake build %s && lake env lean ../.work/audit/<Module>.lean  (#print axioms for every theorem)%s" % (
            " ".join(modules), "; lake env leanchecker <Module>" if tier == "thorough" else "")
        cov["trusted_base"] = cfgp["trusted_base"]

        # ---- CORR + ORACLE
        corr = {"cases": 0, "disagreements": 0, "stats": {}, "first_disagreements": []}
        all_fails = []
        samples = []
        for hz in harnesses:
            lib = libs[(hz["cfg"], hz.get("cache_size"))]
            exe = build_harness(hz["src"], hz["cfg"], lib, hz.get("flags", ()))
            tag = "%s-%s" % (prop, os.path.basename(exe))
            outfile = os.path.join(WORK, "out-%s.txt" % tag)
            rc, err = run_harness(exe, stier, seed, outfile, replay=None, timeout=hz.get("timeout", 2400 if stier == "quick" else 7200), env=hz.get("env"))
            cases, fails, stats, smp = parse_harness(outfile)
            samples += smp
            for k, v in stats.items():
                corr["stats"][k] = corr["stats"].get(k, 0) + v if isinstance(v, int) else v
            if rc != 0:
                # sanitizer abort / signal / watchdog / timeout: the harness's death callback has
                # printed an F line for the case in flight; if not, still a failed run
                tail = (err or "")[-1800:]
                if not fails:
                    fails.append(("%s:harness-died" % prop, {"exit": rc, "stderr_tail": tail}))
                else:
                    k, js = fails[-1]
                    if isinstance(js, dict):
                        js["exit"] = rc
                        js["stderr_tail"] = tail[-900:]
            all_fails += fails
            # model driver
            if cases and okd:
                modelfile = os.path.join(WORK, "model-%s.txt" % tag)
                drc, derr = run_driver(prop, outfile, modelfile)
                mlines = open(modelfile).read().split("\n")
                if mlines and mlines[-1] == "":
                    mlines.pop()
                if drc != 0 or len(mlines) != len(cases):
                    broken.append(("CORR", "driver run", "driver rc=%s lines=%d cases=%d %s" % (drc, len(mlines), len(cases), derr[-300:])))
                else:
                    tols = hz.get("tol", {})
                    for (lhs, rhs), ml in zip(cases, mlines):
                        t = lhs.split(" ", 1)[0]
                        rel, ab = tols.get(t, tols.get("*", (0.0, 0.0)))
                        s0 = 0.0
                        if t in hz.get("tol_scale_inputs", ()):
                            s0 = max([abs(v) for v in (f_of(tk) for tk in lhs.split() if tk.startswith("x") and len(tk) == 17) if math.isfinite(v)] + [0.0])
                        d = compare_tokens(rhs.split(), ml.split(), rel, ab, s0)
                        corr["cases"] += 1
                        if d is not None:
                            corr["disagreements"] += 1
                            if len(corr["first_disagreements"]) < 5:
                                corr["first_disagreements"].append({"case": lhs[:400], "impl": rhs[:400], "model": ml[:400], "diff": d})
            elif cases and not okd:
                notes.append("driver not buildable: correspondence skipped")
        if corr["disagreements"]:
            broken.append(("CORR", "model/implementation correspondence (%s)" % prop,
                           json.dumps(corr["first_disagreements"][:2])))
        cov["corr"] = corr
        cov["samples"] = samples[:8] if samples else [{"note": "no sampled cases emitted"}]
        cov["evaluations"] = corr["cases"] + int(corr["stats"].get("oracle_evaluations", 0))
        cov["distinct_nontrivial"] = int(corr["stats"].get("distinct_nontrivial", corr["cases"]))
        cov["rule"] = cfgp.get("rule", "")

        # ---- verdict
        known = load_known(prop)
        seen_known = set()
        new_fail_keys = {}
        for key, js in all_fails:
            k = match_known(key, js, known)
            if k is not None:
                if k["key"] + json.dumps(k.get("witness"), sort_keys=True) not in seen_known:
                    seen_known.add(k["key"] + json.dumps(k.get("witness"), sort_keys=True))
                    known_lines.append("KNOWN-FINDING: property=%s %s" % (prop, k.get("what", key)))
                continue
            new_fail_keys.setdefault(key, []).append(js)
        for key, lst in new_fail_keys.items():
            rp = write_replay(prop, {"property": prop, "stage": "ORACLE", "obligation": key, "input": lst[0], "more_witnesses": lst[1:3],
                                     "broken_obligations": [list(b) for b in broken][:5]})
            violations.append((rp, ""))
        if broken and not new_fail_keys:
            # a proof obligation or the correspondence no longer checks, and the search found no
            # concrete failing input that is not already a listed finding
            explained = False
            if all(b[0] == "CORR" for b in broken) and seen_known and cfgp.get("known_explains_corr"):
                explained = True
            if not explained:
                rp = write_replay(prop, {"property": prop, "stage": broken[0][0], "obligation": broken[0][1], "detail": broken[0][2],
                                         "all_broken": [list(b) for b in broken][:10]})
                violations.append((rp, " no-failing-input-found"))
        cov["broken_obligations"] = [list(b) for b in broken][:10]
        cov["oracle_failures"] = {k: len(v) for k, v in new_fail_keys.items()}
        cov["known_findings_reproduced"] = len(seen_known)
    except Infra as ex:
        ev["wall_s"] = round(time.time() - t0, 2)
        cov.setdefault("obligations", 1)
        cov.setdefault("discharged", 0)
        cov.setdefault("checker_cmd", "n/a (infrastructure error)")
        cov.setdefault("trusted_base", [])
        cov["infrastructure_error"] = str(ex)[-3000:]
        write_evidence(prop, ev)
        print("INFRA-ERROR property=%s %s" % (prop, str(ex)[:2000]))
        # /repo not compiling / harness not compiling against a changed API: the property is no
        # longer shown to hold
        rp = write_replay(prop, {"property": prop, "stage": "BUILD", "obligation": "build of /repo working tree + harness", "detail": str(ex)[-3000:]})
        print("VIOLATION property=%s replay=%s no-failing-input-found" % (prop, rp))
        sys.exit(1)

    ev["assumptions"] = cfgp.get("assumptions", [])
    ev["violations"] = len(violations)
    ev["wall_s"] = round(time.time() - t0, 2)
    cov["notes"] = notes
    write_evidence(prop, ev)
    if a.replay:
        # replay = re-run the whole check for the property and report whether the recorded witness /
        # obligation still fails (harness runs are deterministic in VERIF_SEED)
        try:
            rec = json.load(open(a.replay))
        except Exception as ex:
            print("REPLAY: cannot read %s: %s" % (a.replay, ex))
            sys.exit(2)
        key = rec.get("obligation")
        again = (key in new_fail_keys) or any(b[1] == key for b in broken)
        same_input = any(js == rec.get("input") for js in new_fail_keys.get(key, []))
        print("REPLAY: obligation %r %s%s" % (key, "STILL FAILS" if again else "no longer fails",
                                              " on the recorded input" if same_input else ""))
    for l in known_lines:
        print(l)
    for rp, suffix in violations:
        print("VIOLATION property=%s replay=%s%s" % (prop, rp, suffix))
    print("%s %s: obligations %s/%s, corr cases %s (disagreements %s), oracle failures %s, known %d, %.1fs" % (
        prop, tier, cov.get("discharged"), cov.get("obligations"), cov.get("corr", {}).get("cases"),
        cov.get("corr", {}).get("disagreements"), sum(cov.get("oracle_failures", {}).values()), len(known_lines), ev["wall_s"]))
    sys.exit(1 if violations else 0)


def write_evidence(prop, ev):
    os.makedirs(os.path.join(OUTDIR, "evidence"), exist_ok=True)
    with open(os.path.join(OUTDIR, "evidence", prop + ".json"), "w") as f:
        json.dump(ev, f, indent=1, sort_keys=False, default=str)


if __name__ == "__main__":
    main()
