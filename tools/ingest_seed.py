#!/usr/bin/env python3
"""ingest_seed.py <src out dir> <PROP> <letterA> <letterB> "<what A>" "<needs A>" "<what B>" "<needs B>"  — copy a seeding agent's deliverables into seeded/"""
import json, os, shutil, sys
src, prop, la, lb, wa, na, wb, nb = sys.argv[1:9]
V = os.path.dirname(os.path.dirname(os.path.abspath(__file__)))
for letter, srcl, what, needs in ((la, "A", wa, na), (lb, "B", wb, nb)):
    d = os.path.join(V, "seeded", "%s-%s" % (prop, letter))
    os.makedirs(d, exist_ok=True)
    shutil.copy(os.path.join(src, "patch_%s.diff" % srcl), os.path.join(d, "patch.diff"))
    shutil.copy(os.path.join(src, "demo_%s.cpp" % srcl), os.path.join(d, "demo.cpp"))
    shutil.copy(os.path.join(src, "notes.md"), os.path.join(d, "notes_from_author.md"))
    json.dump({"id": "%s-%s" % (prop, letter), "property": prop, "what": what, "needs_to_manifest": needs, "demo": "demo.cpp", "checks": [prop],
               "origin": "second-round ('adversarial') sub-agent: given only the property text, a scratch worktree and the instruction to find a defect a dense small-size sweep plus differential test would miss (see notes_from_author.md)"},
              open(os.path.join(d, "meta.json"), "w"), indent=1)
print("ingested", prop, la, lb)
