#!/usr/bin/env python3
"""seedtest.py confirm|detect|all <seeded/ID-dir> [more dirs]

confirm: in a scratch worktree of /repo HEAD (under /tmp, removed afterwards): apply patch.diff, build library + unit
         tests, run the pinned suite (must pass), build and run the demonstration (must exit 1), revert, demo must exit 0.
detect : run tools/check.py for every property in meta.json["checks"] (default: the property it breaks) against a scratch
         worktree of /repo HEAD with patch.diff applied (isolated work dir and lean tree under /tmp/seediso; equivalent to
         `git -C /repo apply patch.diff; check; git -C /repo checkout -- .` but safe while other work uses /repo), and record
         which checks raised VIOLATION. Each seed is first tried at plain quick depth, then with the command as registered
         (which deepens the search on a changed tree); "depth" records which one caught it.
Results are written into the seed's meta.json.
"""
import json, os, shutil, subprocess, sys, time

HERE = os.path.dirname(os.path.abspath(__file__))
VERIF = os.path.dirname(HERE)
REPO = "/repo"
WT = "/tmp/seedchk-" + os.path.basename(os.environ.get("SEED_ISO", "/tmp/seediso"))


def sh(cmd, cwd=None, timeout=3600):
    p = subprocess.run(cmd, cwd=cwd, shell=isinstance(cmd, str), text=True, stdout=subprocess.PIPE, stderr=subprocess.STDOUT, timeout=timeout)
    return p.returncode, p.stdout


def confirm(d, meta):
    res = {}
    sh(["git", "-C", REPO, "worktree", "remove", "--force", WT])
    shutil.rmtree(WT, ignore_errors=True)
    rc, out = sh(["git", "-C", REPO, "worktree", "add", "-q", WT, "HEAD"])
    if rc != 0:
        return {"error": "worktree: " + out[-300:]}
    try:
        cfg = ("cmake -S . -B _b -G Ninja -DCMAKE_BUILD_TYPE=RelWithDebInfo -DDSPLIB_BUILD_TESTS=ON "
               "-DFETCHCONTENT_SOURCE_DIR_GOOGLETEST=/usr/src/googletest -DFETCHCONTENT_FULLY_DISCONNECTED=ON -DCPM_USE_LOCAL_PACKAGES=ON")
        rc, out = sh(cfg + " > /dev/null 2>&1 && cmake --build _b -j16 2>&1 | tail -2", cwd=WT)
        demo = os.path.join(d, meta.get("demo", "demo.cpp"))
        build_demo = "g++ -std=c++17 -O1 -I include -I _b -I lib %s _b/libdsplib.a -lpthread -o _b/demo" % demo
        rc, out = sh(build_demo, cwd=WT)
        res["demo_builds_clean"] = (rc == 0)
        rc, out = sh("./_b/demo", cwd=WT, timeout=600)
        res["demo_exit_clean"] = rc
        rc, out = sh(["git", "apply", os.path.join(d, "patch.diff")], cwd=WT)
        res["patch_applies"] = (rc == 0)
        if rc != 0:
            res["error"] = out[-400:]
            return res
        rc, out = sh("cmake --build _b -j16 2>&1 | tail -3", cwd=WT)
        res["builds_with_patch"] = "error" not in out.lower() or "0 error" in out.lower()
        rc, out = sh("./dsplib-test 2>&1 | tail -3", cwd=os.path.join(WT, "_b", "tests"), timeout=1800)
        res["tests_with_patch"] = out.strip().split("\n")[-1]
        res["tests_pass_with_patch"] = "PASSED  ] 175 tests" in out
        rc, out = sh(build_demo, cwd=WT)
        rc, out = sh("./_b/demo", cwd=WT, timeout=600)
        res["demo_exit_patched"] = rc
        res["demo_output_patched"] = out[-400:]
        res["confirmed"] = bool(res["tests_pass_with_patch"] and res["demo_exit_patched"] == 1 and res["demo_exit_clean"] == 0)
    finally:
        sh(["git", "-C", REPO, "worktree", "remove", "--force", WT])
        shutil.rmtree(WT, ignore_errors=True)
    return res


ISO = os.environ.get("SEED_ISO", "/tmp/seediso")


def detect(d, meta):
    """evaluate the seed in ISOLATION: scratch worktree of /repo HEAD with the patch applied, scratch work dir,
    scratch copy of the lean tree (so regenerated Gen files and build products do not disturb /verif)"""
    res = {}
    repo = os.path.join(ISO, "repo")
    sh(["git", "-C", REPO, "worktree", "remove", "--force", repo])
    shutil.rmtree(repo, ignore_errors=True)
    os.makedirs(ISO, exist_ok=True)
    rc, out = sh(["git", "-C", REPO, "worktree", "add", "-q", repo, "HEAD"])
    if rc != 0:
        return {"error": "worktree: " + out[-300:]}
    try:
        rc, out = sh(["git", "apply", os.path.join(d, "patch.diff")], cwd=repo)
        if rc != 0:
            return {"error": "patch does not apply: " + out[-300:]}
        lean = os.path.join(ISO, "lean")
        sh(["rsync", "-a", "--delete", os.path.join(VERIF, "lean") + "/", lean + "/"])
        env = dict(os.environ, VERIF_REPO=repo, VERIF_WORKDIR=os.path.join(ISO, "work"), VERIF_LEAN=lean, VERIF_OUTDIR=os.path.join(ISO, "out"))
        for prop in meta.get("checks", [meta["property"]]):
            # the registered quick command searches at thorough depth whenever the tree differs from the validated
            # baseline (check.py, change-triggered deepening). To record WHICH depth catches a seed, the plain quick
            # depth is tried first (VERIF_NO_ESCALATE) and the command as registered only if that finds nothing;
            # false-alarm controls (expect == pass) run the command as registered only.
            passes = [("registered", {})] if meta.get("expect") == "pass" else [("quick-depth", {"VERIF_NO_ESCALATE": "1"}), ("registered", {})]
            for depth, extra in passes:
                t0 = time.time()
                p = subprocess.run([sys.executable, os.path.join(HERE, "check.py"), prop, "--tier", meta.get("detect_tier", "quick")], cwd=VERIF,
                                   env=dict(env, **extra), text=True, stdout=subprocess.PIPE, stderr=subprocess.STDOUT, timeout=14400)
                rc, out = p.returncode, p.stdout
                lines = [l for l in out.split("\n") if l.startswith("VIOLATION") or l.startswith("KNOWN-FINDING") or l.startswith(prop + " ")]
                res[prop] = {"exit": rc, "detected": rc == 1 and any(l.startswith("VIOLATION") for l in lines),
                             "concrete_witness": any(l.startswith("VIOLATION") and "no-failing-input-found" not in l for l in lines),
                             "depth": depth, "lines": [l[:300] for l in lines[:6]], "wall_s": round(time.time() - t0, 1)}
                for l in lines:
                    if l.startswith("VIOLATION") and "replay=" in l:
                        rp = l.split("replay=")[1].split()[0]
                        try:
                            js = json.load(open(rp))
                            res[prop]["replay_excerpt"] = {k: js.get(k) for k in ("stage", "obligation", "input")}
                        except Exception:
                            pass
                        break
                if res[prop]["detected"] and res[prop]["concrete_witness"]:
                    break
    finally:
        sh(["git", "-C", REPO, "worktree", "remove", "--force", repo])
        shutil.rmtree(repo, ignore_errors=True)
    return res


def main():
    mode = sys.argv[1]
    for d in sys.argv[2:]:
        d = os.path.abspath(d)
        mp = os.path.join(d, "meta.json")
        meta = json.load(open(mp))
        if mode in ("confirm", "all") and meta.get("expect") != "pass":
            meta["confirmation"] = confirm(d, meta)
            print(os.path.basename(d), "confirm:", json.dumps(meta["confirmation"])[:400])
        if mode in ("detect", "all"):
            meta["detection"] = detect(d, meta)
            print(os.path.basename(d), "detect:", json.dumps({k: (v.get("detected"), v.get("concrete_witness")) if isinstance(v, dict) else v
                                                               for k, v in meta["detection"].items()}))
        json.dump(meta, open(mp, "w"), indent=1)


if __name__ == "__main__":
    main()
