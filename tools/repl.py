#!/usr/bin/env python3
"""repl.py FILE  (reads python list of (old,new) pairs from stdin as JSON) — replace text preserving CRLF/LF line endings"""
import sys, json
p = sys.argv[1]
pairs = json.load(sys.stdin)
raw = open(p, newline='').read()
crlf = '\r\n' in raw
s = raw.replace('\r\n', '\n')
for old, new in pairs:
    if s.count(old) != 1:
        sys.exit("pattern occurs %d times in %s: %r" % (s.count(old), p, old[:60]))
    s = s.replace(old, new)
if crlf:
    s = s.replace('\n', '\r\n')
open(p, 'w', newline='').write(s)
