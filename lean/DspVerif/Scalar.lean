/-!
# Scalar layer (core only — no Mathlib)

Model definitions are *generic in the scalar type*: field operations are taken through the core
notation classes as separate instance arguments; everything that has no core class
(`sqrt cos sin …`, `pi`, conversions) goes through the single class `Fn`.
The same definition is then run at `Float` (driver, correspondence with the C++ code)
and reasoned about at `ℝ` (Props, Mathlib instances found by unification, no diamonds).
-/
namespace Dsp

/-- transcendental / conversion operations with no core notation class -/
class Fn (α : Type) where
  ofNat : Nat → α
  ofInt : Int → α
  pi    : α
  sqrt  : α → α
  abs   : α → α
  cos   : α → α
  sin   : α → α
  exp   : α → α
  log   : α → α
  log10 : α → α
  atan  : α → α
  pow   : α → α → α
  floor : α → α
  round : α → α
  tanh  : α → α

instance : Fn Float where
  ofNat n := Float.ofNat n
  ofInt i := Float.ofInt i
  pi      := 3.141592653589793238463
  sqrt    := Float.sqrt
  abs     := Float.abs
  cos     := Float.cos
  sin     := Float.sin
  exp     := Float.exp
  log     := Float.log
  log10   := Float.log10
  atan    := Float.atan
  pow     := Float.pow
  floor   := Float.floor
  round   := Float.round
  tanh    := Float.tanh

/-- `cmplx_t` of `include/dsplib/types.h` -/
structure Cx (α : Type) where
  re : α
  im : α
deriving Repr, BEq, Inhabited

namespace Cx
variable {α : Type}

@[ext] theorem ext' {a b : Cx α} (h1 : a.re = b.re) (h2 : a.im = b.im) : a = b := by
  cases a; cases b; simp_all

end Cx
end Dsp
