import DspVerif.Lib.Dft
import DspVerif.Lib.C07Base
import Mathlib.RingTheory.RootsOfUnity.Complex
/-!
# The DFT pair satisfies the circular convolution and correlation theorems

`ω`, `dft` are those of `Lib/Dft.lean`; `idft N A t = (1/N) Σ_k A k · ω^{-kt}`.  Used by `Props/C07.lean` to discharge the
hypotheses `CircConv` / `CircCorr` of T07.2 / T07.3 for the exact transform pair (and so to show they are satisfiable).
-/
open Finset Complex

namespace Dsp.C07

theorem ω_eq_pow (N j : ℕ) : ω N j = (ω N 1) ^ j := by
  induction j with
  | zero => simp [ω_zero]
  | succ j ih => rw [ω_add, ih, pow_succ]

theorem ω_one_prim (N : ℕ) (hN : 0 < N) : IsPrimitiveRoot (ω N 1) N := by
  have h := (Complex.isPrimitiveRoot_exp N hN.ne').inv
  have e : ω N 1 = (exp (2 * Real.pi * I / N))⁻¹ := by
    unfold ω
    rw [← Complex.exp_neg]
    congr 1
    push_cast
    ring
  rw [e]; exact h

/-- orthogonality of the characters of `ℤ/N` -/
theorem ω_sum (N d : ℕ) (hN : 0 < N) : ∑ k ∈ range N, ω N (k * d) = if N ∣ d then (N : ℂ) else 0 := by
  have hp := ω_one_prim N hN
  have e : ∀ k, ω N (k * d) = ((ω N 1) ^ d) ^ k := by
    intro k; rw [ω_eq_pow, mul_comm, pow_mul]
  simp only [e]
  by_cases hd : N ∣ d
  · rw [if_pos hd, (hp.pow_eq_one_iff_dvd d).2 hd]
    simp
  · rw [if_neg hd]
    have hx : (ω N 1) ^ d ≠ 1 := fun h => hd ((hp.pow_eq_one_iff_dvd d).1 h)
    have hxN : ((ω N 1) ^ d) ^ N = 1 := by rw [← pow_mul, mul_comm, pow_mul, hp.pow_eq_one, one_pow]
    have := mul_geom_sum ((ω N 1) ^ d) N
    rw [hxN, sub_self] at this
    rcases mul_eq_zero.1 this with h | h
    · exact absurd (sub_eq_zero.1 h) hx
    · exact h

/-- inverse DFT: `(1/N) Σ_k A k · ω^{-kt}` -/
noncomputable def idft (N : ℕ) (A : ℕ → ℂ) (t : ℕ) : ℂ := (N : ℂ)⁻¹ * ∑ k ∈ range N, A k * (ω N (k * t))⁻¹

theorem ω_inv (N k t : ℕ) (hN : 0 < N) (ht : t ≤ N) : (ω N (k * t))⁻¹ = ω N (k * (N - t)) := by
  have h1 : ω N (k * t) * ω N (k * (N - t)) = 1 := by
    rw [← ω_add, ← mul_add, Nat.add_sub_cancel' ht, mul_comm, ω_self_mul _ _ hN]
  exact inv_eq_of_mul_eq_one_right h1

theorem dvd_iff_conv (N n p t : ℕ) (hn : n < N) (hp : p < N) (ht : t < N) :
    N ∣ n + p + (N - t) ↔ (t + N - n) % N = p := by
  constructor
  · rintro ⟨c, hc⟩
    have hc3 : c < 3 := by
      by_contra h
      have : 3 * N ≤ N * c := by nlinarith
      omega
    have hc0 : 0 < c := by
      rcases Nat.eq_zero_or_pos c with h | h
      · subst h; omega
      · exact h
    interval_cases c
    · have : t + N - n = N + p := by omega
      rw [this, Nat.add_mod_left, Nat.mod_eq_of_lt hp]
    · have : t + N - n = p := by omega
      rw [this, Nat.mod_eq_of_lt hp]
  · intro h
    by_cases hle : n ≤ t
    · have e : t + N - n = N + (t - n) := by omega
      rw [e, Nat.add_mod_left, Nat.mod_eq_of_lt (by omega)] at h
      exact ⟨1, by omega⟩
    · rw [Nat.mod_eq_of_lt (by omega)] at h
      exact ⟨2, by omega⟩

/-- circular convolution theorem for the DFT pair -/
theorem circ_conv_dft (N : ℕ) (hN : 0 < N) (a b : ℕ → ℂ) (t : ℕ) (ht : t < N) :
    idft N (fun k => dft N a k * dft N b k) t = ∑ n ∈ range N, a n * b ((t + N - n) % N) := by
  have hN' : (N : ℂ) ≠ 0 := by exact_mod_cast hN.ne'
  unfold idft dft
  have step : ∀ k ∈ range N, (∑ n ∈ range N, a n * ω N (n * k)) * (∑ p ∈ range N, b p * ω N (p * k)) * (ω N (k * t))⁻¹ =
      ∑ n ∈ range N, ∑ p ∈ range N, a n * b p * ω N (k * (n + p + (N - t))) := by
    intro k _
    rw [ω_inv N k t hN ht.le, Finset.sum_mul_sum, Finset.sum_mul]
    apply Finset.sum_congr rfl; intro n _
    rw [Finset.sum_mul]
    apply Finset.sum_congr rfl; intro p _
    have : k * (n + p + (N - t)) = n * k + (p * k + k * (N - t)) := by ring
    rw [this, ω_add, ω_add]; ring
  rw [Finset.sum_congr rfl step, Finset.sum_comm]
  have step2 : ∀ n ∈ range N, ∑ k ∈ range N, ∑ p ∈ range N, a n * b p * ω N (k * (n + p + (N - t))) =
      (N : ℂ) * (a n * b ((t + N - n) % N)) := by
    intro n hn
    rw [Finset.sum_comm]
    have : ∀ p ∈ range N, ∑ k ∈ range N, a n * b p * ω N (k * (n + p + (N - t))) =
        if (t + N - n) % N = p then (N : ℂ) * (a n * b p) else 0 := by
      intro p hp
      rw [← Finset.mul_sum, ω_sum N _ hN]
      by_cases hd : N ∣ n + p + (N - t)
      · rw [if_pos hd, if_pos ((dvd_iff_conv N n p t (mem_range.mp hn) (mem_range.mp hp) ht).1 hd)]; ring
      · rw [if_neg hd, if_neg (fun h => hd ((dvd_iff_conv N n p t (mem_range.mp hn) (mem_range.mp hp) ht).2 h)), mul_zero]
    rw [Finset.sum_congr rfl this, Finset.sum_ite_eq, if_pos (mem_range.mpr (Nat.mod_lt _ hN))]
  rw [Finset.sum_congr rfl step2, ← Finset.mul_sum, ← mul_assoc, inv_mul_cancel₀ hN', one_mul]


theorem ω_norm (N j : ℕ) : ‖ω N j‖ = 1 := by
  unfold ω
  rw [← Complex.ofReal_neg]
  exact Complex.norm_exp_ofReal_mul_I _

theorem ω_conj (N j : ℕ) : (starRingEnd ℂ) (ω N j) = (ω N j)⁻¹ := (Complex.inv_eq_conj (ω_norm N j)).symm

theorem dvd_iff_corr (N n p t : ℕ) (hn : n < N) (hp : p < N) (ht : t < N) :
    N ∣ n + (N - p) + t ↔ (n + t) % N = p := by
  constructor
  · rintro ⟨c, hc⟩
    have hc3 : c < 3 := by
      by_contra h
      have : 3 * N ≤ N * c := by nlinarith
      omega
    have hc0 : 0 < c := by
      rcases Nat.eq_zero_or_pos c with h | h
      · subst h; omega
      · exact h
    interval_cases c
    · have : n + t = p := by omega
      rw [this, Nat.mod_eq_of_lt hp]
    · have : n + t = N + p := by omega
      rw [this, Nat.add_mod_left, Nat.mod_eq_of_lt hp]
  · intro h
    by_cases hle : n + t < N
    · rw [Nat.mod_eq_of_lt hle] at h
      exact ⟨1, by omega⟩
    · have e : n + t = N + (n + t - N) := by omega
      rw [e, Nat.add_mod_left, Nat.mod_eq_of_lt (by omega)] at h
      exact ⟨2, by omega⟩

/-- circular cross-correlation theorem for the DFT pair -/
theorem circ_corr_dft (N : ℕ) (hN : 0 < N) (a b : ℕ → ℂ) (t : ℕ) (ht : t < N) :
    (starRingEnd ℂ) (idft N (fun k => (starRingEnd ℂ) (dft N a k) * dft N b k) t) =
      ∑ n ∈ range N, a n * (starRingEnd ℂ) (b ((n + t) % N)) := by
  have hN' : (N : ℂ) ≠ 0 := by exact_mod_cast hN.ne'
  unfold idft dft
  rw [map_mul, map_inv₀, Complex.conj_natCast, map_sum]
  have step : ∀ k ∈ range N,
      (starRingEnd ℂ) ((starRingEnd ℂ) (∑ n ∈ range N, a n * ω N (n * k)) * (∑ p ∈ range N, b p * ω N (p * k)) * (ω N (k * t))⁻¹) =
      ∑ n ∈ range N, ∑ p ∈ range N, a n * (starRingEnd ℂ) (b p) * ω N (k * (n + (N - p) + t)) := by
    intro k _
    rw [map_mul, map_mul, Complex.conj_conj, map_inv₀, ω_conj, inv_inv, map_sum, Finset.sum_mul_sum, Finset.sum_mul]
    apply Finset.sum_congr rfl; intro n _
    rw [Finset.sum_mul]
    apply Finset.sum_congr rfl; intro p hp
    have hp' := mem_range.mp hp
    rw [map_mul, ω_conj, mul_comm p k, ω_inv N k p hN hp'.le]
    have : k * (n + (N - p) + t) = n * k + (k * (N - p) + k * t) := by ring
    rw [this, ω_add, ω_add]; ring
  rw [Finset.sum_congr rfl step, Finset.sum_comm]
  have step2 : ∀ n ∈ range N, ∑ k ∈ range N, ∑ p ∈ range N, a n * (starRingEnd ℂ) (b p) * ω N (k * (n + (N - p) + t)) =
      (N : ℂ) * (a n * (starRingEnd ℂ) (b ((n + t) % N))) := by
    intro n hn
    rw [Finset.sum_comm]
    have : ∀ p ∈ range N, ∑ k ∈ range N, a n * (starRingEnd ℂ) (b p) * ω N (k * (n + (N - p) + t)) =
        if (n + t) % N = p then (N : ℂ) * (a n * (starRingEnd ℂ) (b p)) else 0 := by
      intro p hp
      rw [← Finset.mul_sum, ω_sum N _ hN]
      by_cases hd : N ∣ n + (N - p) + t
      · rw [if_pos hd, if_pos ((dvd_iff_corr N n p t (mem_range.mp hn) (mem_range.mp hp) ht).1 hd)]; ring
      · rw [if_neg hd, if_neg (fun h => hd ((dvd_iff_corr N n p t (mem_range.mp hn) (mem_range.mp hp) ht).2 h)), mul_zero]
    rw [Finset.sum_congr rfl this, Finset.sum_ite_eq, if_pos (mem_range.mpr (Nat.mod_lt _ hN))]
  rw [Finset.sum_congr rfl step2, ← Finset.mul_sum, ← mul_assoc, inv_mul_cancel₀ hN', one_mul]

end Dsp.C07
