import DspVerif.Lib.C07Dft
import Mathlib.Tactic.Linarith
import Mathlib.Tactic.LinearCombination
/-!
# DFT facts behind the analytic signal (C14)

`ω`, `dft` of `Lib/Dft.lean`, `idft`, `ω_sum` (orthogonality) of `Lib/C07Dft.lean`.
* `idft_dft`, `dft_idft` — the pair is mutually inverse on `range N`
* `dft_conj` — transform of the conjugate sequence; `dft_real_symm` — conjugate symmetry for real input
* `analytic_re` — **the analytic-signal lemma**: if the spectrum of a real sequence is re-weighted by real weights with
  `w k + w ((N - k) % N) = 2`, the inverse transform has the original sequence as its real part.
-/
open Finset Complex

namespace Dsp.C14
open Dsp.C07

theorem dft_congr' (N : ℕ) (x y : ℕ → ℂ) (h : ∀ i, i < N → x i = y i) (k : ℕ) : dft N x k = dft N y k := by
  unfold dft
  exact Finset.sum_congr rfl fun m hm => by rw [h m (mem_range.mp hm)]

theorem idft_congr' (N : ℕ) (A B : ℕ → ℂ) (h : ∀ k, k < N → A k = B k) (t : ℕ) : idft N A t = idft N B t := by
  unfold idft
  congr 1
  exact Finset.sum_congr rfl fun k hk => by rw [h k (mem_range.mp hk)]

theorem dft_add (N : ℕ) (x y : ℕ → ℂ) (k : ℕ) : dft N (fun m => x m + y m) k = dft N x k + dft N y k := by
  unfold dft
  rw [← Finset.sum_add_distrib]
  exact Finset.sum_congr rfl fun m _ => by ring

theorem dft_smul (N : ℕ) (c : ℂ) (x : ℕ → ℂ) (k : ℕ) : dft N (fun m => c * x m) k = c * dft N x k := by
  unfold dft
  rw [Finset.mul_sum]
  exact Finset.sum_congr rfl fun m _ => by ring

/-- the bins are `N`-periodic: bin `N` is bin `0` -/
theorem dft_self (N : ℕ) (hN : 0 < N) (x : ℕ → ℂ) : dft N x N = dft N x 0 := by
  unfold dft
  apply Finset.sum_congr rfl
  intro m _
  rw [mul_comm m N, ω_self_mul _ _ hN, Nat.mul_zero, ω_zero]

theorem dvd_iff_eq (N m t : ℕ) (hm : m < N) (ht : t < N) : N ∣ m + (N - t) ↔ m = t := by
  constructor
  · rintro ⟨c, hc⟩
    have hc2 : c < 2 := by
      by_contra h
      have : 2 * N ≤ N * c := by nlinarith
      omega
    have hc0 : 0 < c := by
      rcases Nat.eq_zero_or_pos c with h | h
      · subst h; omega
      · exact h
    have : c = 1 := by omega
    subst this
    omega
  · rintro rfl
    exact ⟨1, by omega⟩

/-- `idft ∘ dft = id` on `range N` -/
theorem idft_dft (N : ℕ) (hN : 0 < N) (x : ℕ → ℂ) (t : ℕ) (ht : t < N) : idft N (dft N x) t = x t := by
  have hN' : (N : ℂ) ≠ 0 := by exact_mod_cast hN.ne'
  unfold idft dft
  have step : ∀ k ∈ range N, (∑ m ∈ range N, x m * ω N (m * k)) * (ω N (k * t))⁻¹ =
      ∑ m ∈ range N, x m * ω N (k * (m + (N - t))) := by
    intro k _
    rw [ω_inv N k t hN ht.le, Finset.sum_mul]
    apply Finset.sum_congr rfl; intro m _
    have : k * (m + (N - t)) = m * k + k * (N - t) := by ring
    rw [this, ω_add]; ring
  rw [Finset.sum_congr rfl step, Finset.sum_comm]
  have step2 : ∀ m ∈ range N, ∑ k ∈ range N, x m * ω N (k * (m + (N - t))) = if m = t then (N : ℂ) * x m else 0 := by
    intro m hm
    rw [← Finset.mul_sum, ω_sum N _ hN]
    by_cases hd : N ∣ m + (N - t)
    · rw [if_pos hd, if_pos ((dvd_iff_eq N m t (mem_range.mp hm) ht).1 hd)]; ring
    · rw [if_neg hd, if_neg (fun h => hd ((dvd_iff_eq N m t (mem_range.mp hm) ht).2 h)), mul_zero]
  rw [Finset.sum_congr rfl step2, Finset.sum_ite_eq' , if_pos (mem_range.mpr ht), ← mul_assoc, inv_mul_cancel₀ hN', one_mul]

/-- `dft ∘ idft = id` on `range N` -/
theorem dft_idft (N : ℕ) (hN : 0 < N) (A : ℕ → ℂ) (k : ℕ) (hk : k < N) : dft N (idft N A) k = A k := by
  have hN' : (N : ℂ) ≠ 0 := by exact_mod_cast hN.ne'
  unfold idft dft
  have step : ∀ t ∈ range N, ((N : ℂ)⁻¹ * ∑ j ∈ range N, A j * (ω N (j * t))⁻¹) * ω N (t * k) =
      (N : ℂ)⁻¹ * ∑ j ∈ range N, A j * ω N (t * (k + (N - j))) := by
    intro t _
    rw [mul_assoc, Finset.sum_mul]
    congr 1
    apply Finset.sum_congr rfl; intro j hj
    rw [mul_comm j t, ω_inv N t j hN (mem_range.mp hj).le]
    have : t * (k + (N - j)) = t * (N - j) + t * k := by ring
    rw [this, ω_add]; ring
  rw [Finset.sum_congr rfl step, ← Finset.mul_sum, Finset.sum_comm]
  have step2 : ∀ j ∈ range N, ∑ t ∈ range N, A j * ω N (t * (k + (N - j))) = if k = j then (N : ℂ) * A j else 0 := by
    intro j hj
    rw [← Finset.mul_sum, ω_sum N _ hN]
    by_cases hd : N ∣ k + (N - j)
    · rw [if_pos hd, if_pos ((dvd_iff_eq N k j hk (mem_range.mp hj)).1 hd)]; ring
    · rw [if_neg hd, if_neg (fun h => hd ((dvd_iff_eq N k j hk (mem_range.mp hj)).2 h)), mul_zero]
  rw [Finset.sum_congr rfl step2, Finset.sum_ite_eq, if_pos (mem_range.mpr hk), ← mul_assoc, inv_mul_cancel₀ hN', one_mul]

/-- a sequence whose transform vanishes on `range N` vanishes on `range N` -/
theorem eq_zero_of_dft_eq_zero (N : ℕ) (hN : 0 < N) (v : ℕ → ℂ) (h : ∀ k, k < N → dft N v k = 0) (t : ℕ) (ht : t < N) : v t = 0 := by
  rw [← idft_dft N hN v t ht]
  unfold idft
  rw [Finset.sum_eq_zero, mul_zero]
  intro k hk
  rw [h k (mem_range.mp hk), zero_mul]

/-- transform of the conjugate sequence: `DFT(conj y)[k] = conj(DFT(y)[N-k])`, `k ≤ N` -/
theorem dft_conj (N : ℕ) (hN : 0 < N) (y : ℕ → ℂ) (k : ℕ) (hk : k ≤ N) :
    dft N (fun t => (starRingEnd ℂ) (y t)) k = (starRingEnd ℂ) (dft N y (N - k)) := by
  unfold dft
  rw [map_sum]
  apply Finset.sum_congr rfl
  intro t _
  rw [map_mul, ω_conj, ω_inv N t (N - k) hN (Nat.sub_le _ _), Nat.sub_sub_self hk]

/-- the transform of a real sequence is conjugate-symmetric -/
theorem dft_real_symm (N : ℕ) (hN : 0 < N) (r : ℕ → ℝ) (k : ℕ) (hk : k ≤ N) :
    (starRingEnd ℂ) (dft N (fun m => ((r m : ℝ) : ℂ)) (N - k)) = dft N (fun m => ((r m : ℝ) : ℂ)) k := by
  rw [← dft_conj N hN _ k hk]
  apply dft_congr'
  intro i _
  exact Complex.conj_ofReal _

/-- bin `(N - k) % N` is bin `N - k` -/
theorem dft_neg_mod (N : ℕ) (hN : 0 < N) (x : ℕ → ℂ) (k : ℕ) (hk : k < N) : dft N x ((N - k) % N) = dft N x (N - k) := by
  rcases Nat.eq_zero_or_pos k with h | h
  · subst h
    rw [Nat.sub_zero, Nat.mod_self, dft_self N hN]
  · rw [Nat.mod_eq_of_lt (by omega)]

/-- **analytic-signal lemma.**  `r` real, `w` real weights with `w k + w ((N-k) % N) = 2` on `range N` (all of `DC`, positive and
negative frequencies accounted for exactly once per conjugate pair): the inverse transform of `w · DFT(r)` has real part `r`. -/
theorem analytic_re (N : ℕ) (hN : 0 < N) (r w : ℕ → ℝ) (hw : ∀ k, k < N → w k + w ((N - k) % N) = 2) (t : ℕ) (ht : t < N) :
    (idft N (fun k => ((w k : ℝ) : ℂ) * dft N (fun m => ((r m : ℝ) : ℂ)) k) t).re = r t := by
  set X := dft N (fun m => ((r m : ℝ) : ℂ)) with hX
  set y := idft N (fun k => ((w k : ℝ) : ℂ) * X k) with hy
  -- v = y + conj y - 2 r has a vanishing transform
  have hv : ∀ k, k < N → dft N (fun t => (y t + (starRingEnd ℂ) (y t)) + (-2 : ℂ) * ((r t : ℝ) : ℂ)) k = 0 := by
    intro k hk
    rw [dft_add, dft_add, dft_smul, dft_conj N hN y k hk.le, ← dft_neg_mod N hN y k hk,
      dft_idft N hN _ k hk, dft_idft N hN _ _ (Nat.mod_lt _ hN), map_mul, Complex.conj_ofReal, ← hX]
    have hs : (starRingEnd ℂ) (X ((N - k) % N)) = X k := by
      rw [hX, dft_neg_mod N hN _ k hk]; exact dft_real_symm N hN r k hk.le
    rw [hs]
    have := hw k hk
    have hc : ((w k : ℝ) : ℂ) + ((w ((N - k) % N) : ℝ) : ℂ) = 2 := by exact_mod_cast this
    linear_combination (X k) * hc
  have h0 := eq_zero_of_dft_eq_zero N hN _ hv t ht
  have hre := congrArg Complex.re h0
  simp only [Complex.add_re, Complex.conj_re, Complex.mul_re, Complex.ofReal_re, Complex.ofReal_im, Complex.zero_re,
    Complex.neg_re, Complex.neg_im, Complex.re_ofNat, Complex.im_ofNat] at hre
  linarith

end Dsp.C14
